#!/bin/bash
# usage: tools_eval_benign.sh <dir with patch.diff (+meta.json)> <benign-id>
# confirms that the refactoring compiles and passes the existing tests, then requires every check to stay silent on /repo + patch
set -u
D=$1; ID=$2
W=$(mktemp -d /tmp/evalwt.XXXXXX)
git -C /repo worktree add -q --detach "$W/wt" HEAD
cd "$W/wt"
export CARGO_TARGET_DIR=/tmp/eval-target CARGO_NET_OFFLINE=true
git apply "$D/patch.diff" || echo "PATCH DOES NOT APPLY"
R1=$(cargo test --offline --lib 2>&1 | grep -E "^test result|error(\[|:)" | head -1)
R2=$(cargo test --offline --doc 2>&1 | grep -E "^test result|error(\[|:)" | head -1)
cd /; git -C /repo worktree remove --force "$W/wt"; rm -rf "$W"
echo "lib tests w/ patch : $R1"
echo "doc tests w/ patch : $R2"
git -C /repo apply "$D/patch.diff" && (cd /verif && ./check ALL 2>&1 | grep -v " 0 new finding" > /tmp/eval-checks.txt); git -C /repo apply -R "$D/patch.diff" 2>/dev/null || git -C /repo checkout -- . ; git -C /repo clean -fdq src; git -C /repo status --short | head -3
cat /tmp/eval-checks.txt
mkdir -p /verif/benign/$ID
cp "$D/patch.diff" /verif/benign/$ID/patch.diff
python3 - "$D" "$ID" "$R1" "$R2" <<'PY'
import json, sys
d, bid, r1, r2 = sys.argv[1:5]
try:
    m = json.load(open(d + "/meta.json"))
except Exception:
    m = {}
checks = open("/tmp/eval-checks.txt").read().strip().splitlines()
json.dump({"benign_id": bid, "focus": m.get("focus"), "edits": m.get("edits"), "why_equivalent": m.get("why_equivalent"),
           "author": "independent sub-agent (given only the focus area and a scratch worktree)",
           "confirmed_by_me": {"existing_lib_tests_with_patch": r1, "existing_doc_tests_with_patch": r2},
           "checks_on_repo_plus_patch": checks}, open("/verif/benign/%s/meta.json" % bid, "w"), indent=1)
PY
