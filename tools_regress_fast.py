#!/usr/bin/env python3
"""Fast regression loop for development (the thorough tier of each check does the same per property, only slower):
  1. every corpus spec (mutant: must fire under its property; benign: must be silent under its property) — one ./check per spec;
  2. every benign/B*/patch.diff — ONE extraction per patch, all 20 rule modules on it (`./check ALL --repo <copy>`), must be silent;
  3. every seeded/S-*/patch.diff — one extraction, all rule modules; the property it breaks must fire.
Scratch copies live under a temp dir outside /repo and /verif and are removed.  /repo itself is not touched."""
import concurrent.futures, json, os, shutil, subprocess, sys, tempfile
VERIF = os.path.dirname(os.path.abspath(__file__))
sys.path.insert(0, os.path.join(VERIF, "engine"))
import importlib.util, importlib.machinery
spec = importlib.util.spec_from_loader("check", importlib.machinery.SourceFileLoader("check", os.path.join(VERIF, "check")))
chk = importlib.util.module_from_spec(spec); spec.loader.exec_module(chk)
from pdsa import selftest as st
from pdsa.framework import load_known
known = {k["key"] for k in load_known() if k.get("status") == "open"}


def patched_all(patch):
    work = tempfile.mkdtemp(prefix="pdsa-regress.")
    try:
        dst = os.path.join(work, "repo")
        shutil.copytree("/repo", dst, ignore=lambda p, names: [n for n in names if n in ("target", ".git")], symlinks=True)
        r = subprocess.run(["patch", "-p1", "-s", "-i", patch], cwd=dst, capture_output=True, text=True)
        if r.returncode != 0:
            return None
        out = subprocess.run([os.path.join(VERIF, "check"), "ALL", "--repo", dst], capture_output=True, text=True, cwd=VERIF).stdout
    finally:
        shutil.rmtree(work, ignore_errors=True)
    fired, cur = {}, None
    for line in out.splitlines():
        if line[:1] == "C" and ":" in line[:5]:
            cur = line.split(":")[0]
            if "BROKEN" in line:
                fired.setdefault(cur, []).append("CHECK-BROKEN")
        elif line.startswith("    ") and cur:
            fired.setdefault(cur, []).append(line.strip()[:200])
    return fired


def main():
    bad = 0
    specs = st.load_corpus()
    with concurrent.futures.ThreadPoolExecutor(max_workers=12) as ex:
        res = list(ex.map(lambda s: (s, st.run_one(s, "/repo", None, known)), specs))
    nm = sum(1 for s, r in res if s["kind"] == "mutant")
    for s, r in res:
        if r["status"] not in ("silent", "fired"):
            bad += 1
            print("%-11s %s %-40s %s" % (r["status"], s["property"], s["name"], str(r.get("got") or r.get("why"))[:300]))
    print("corpus: %d specs (%d mutants), %d problems" % (len(specs), nm, bad))
    bdirs = sorted(d for d in os.listdir(os.path.join(VERIF, "benign")) if os.path.exists(os.path.join(VERIF, "benign", d, "patch.diff")))
    sdirs = sorted(d for d in os.listdir(os.path.join(VERIF, "seeded")) if os.path.exists(os.path.join(VERIF, "seeded", d, "patch.diff")))
    with concurrent.futures.ThreadPoolExecutor(max_workers=12) as ex:
        bres = list(ex.map(lambda d: (d, patched_all(os.path.join(VERIF, "benign", d, "patch.diff"))), bdirs))
        sres = list(ex.map(lambda d: (d, patched_all(os.path.join(VERIF, "seeded", d, "patch.diff"))), sdirs))
    nb = 0
    for d, fired in bres:
        if fired is None:
            print("benign %s: PATCH DOES NOT APPLY" % d); bad += 1
        elif fired:
            nb += 1; bad += 1
            print("FALSE-ALARM benign %s: %s" % (d, {k: v[:2] for k, v in fired.items()}))
    print("benign patches: %d, %d with alarms" % (len(bdirs), nb))
    ns = 0
    for d, fired in sres:
        own = json.load(open(os.path.join(VERIF, "seeded", d, "meta.json"))).get("breaks_property")
        if fired is None:
            print("seeded %s: PATCH DOES NOT APPLY" % d); bad += 1
        elif own not in fired:
            ns += 1; bad += 1
            print("MISSED seeded %s (%s): fires only %s" % (d, own, sorted(fired)))
    print("seeded patches: %d, %d not reported by their own property" % (len(sdirs), ns))
    print("TOTAL problems: %d" % bad)
    sys.exit(1 if bad else 0)


main()
