#!/bin/bash
# usage: tools_eval_seeded.sh <dir with patch.diff + seeded_demo.rs> [seeded-id]
# 1) confirms in a scratch worktree that the patch compiles, passes the existing tests, and that the demo fails with / passes without it
# 2) applies it to /repo, runs every check on it, and undoes it. Prints a compact summary; with a seeded-id also files it under /verif/seeded/<id>/
set -u
D=$1; ID=${2:-}
W=$(mktemp -d /tmp/evalwt.XXXXXX)
git -C /repo worktree add -q --detach "$W/wt" HEAD
cd "$W/wt"
export CARGO_TARGET_DIR=/tmp/eval-target CARGO_NET_OFFLINE=true
mkdir -p tests; cp "$D/seeded_demo.rs" tests/seeded_demo.rs
R0=$(cargo test --offline --test seeded_demo 2>&1 | grep -E "^test result|error(\[|:)" | head -1)
git apply "$D/patch.diff" || echo "PATCH DOES NOT APPLY"
R1=$(cargo test --offline --lib 2>&1 | grep -E "^test result|error(\[|:)" | head -1)
R2=$(cargo test --offline --doc 2>&1 | grep -E "^test result|error(\[|:)" | head -1)
R3=$(cargo test --offline --test seeded_demo 2>&1 | grep -E "^test result|error(\[|:)" | head -1)
cd /; git -C /repo worktree remove --force "$W/wt"; rm -rf "$W"
echo "demo without patch : $R0"
echo "lib tests w/ patch : $R1"
echo "doc tests w/ patch : $R2"
echo "demo with patch    : $R3"
git -C /repo apply "$D/patch.diff" && (cd /verif && ./check ALL 2>&1 | grep -v " 0 new finding" > /tmp/eval-checks.txt); git -C /repo apply -R "$D/patch.diff" 2>/dev/null || git -C /repo checkout -- . ; git -C /repo clean -fdq src; git -C /repo status --short | head -3
cat /tmp/eval-checks.txt
if [ -n "$ID" ]; then
  mkdir -p /verif/seeded/$ID
  cp "$D/patch.diff" /verif/seeded/$ID/patch.diff
  cp "$D/seeded_demo.rs" /verif/seeded/$ID/seeded_demo.rs
  python3 - "$D" "$ID" "$R0" "$R1" "$R2" "$R3" <<'PY'
import json, sys
d, sid, r0, r1, r2, r3 = sys.argv[1:7]
try:
    m = json.load(open(d + "/meta.json"))
except Exception:
    m = {}
checks = open("/tmp/eval-checks.txt").read().strip().splitlines()
out = {
    "seeded_id": sid,
    "breaks_property": m.get("property"),
    "summary": m.get("summary"),
    "needs_to_manifest": m.get("needs"),
    "author": "independent sub-agent (given only the property text and a scratch worktree)",
    "confirmed_by_me": {
        "demo_without_patch": r0, "existing_lib_tests_with_patch": r1, "existing_doc_tests_with_patch": r2, "demo_with_patch": r3,
        "how": "tools_eval_seeded.sh: fresh scratch worktree of /repo HEAD, cargo test --offline (lib, doc, demo) with and without the patch",
    },
    "checks_on_repo_plus_patch": checks,
}
json.dump(out, open("/verif/seeded/%s/meta.json" % sid, "w"), indent=1)
PY
fi
