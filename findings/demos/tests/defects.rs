//! One test per defect (D1..D9 of /verif/DESIGN.md section 6). Each asserts the behaviour the
//! property demands; on the unrepaired library it fails.
use pdatastructs::countminsketch::CountMinSketch;
use pdatastructs::filters::bloomfilter::BloomFilter;
use pdatastructs::filters::cuckoofilter::CuckooFilter;
use pdatastructs::filters::Filter;
use pdatastructs::hyperloglog::HyperLogLog;
use pdatastructs::reservoirsampling::ReservoirSampling;
use pdatastructs::tdigest::{TDigest, K2};
use pdatastructs::topk::cmsheap::CMSHeap;
use rand::SeedableRng;
use rand_chacha::ChaChaRng;

/// D1 / C20: a document with b = 0 and no registers must be rejected (or yield a valid sketch).
#[test]
fn d1_hll_deserialize_rejects_invalid() {
    #[derive(Clone, Debug, serde::Serialize, serde::Deserialize, Eq, PartialEq)]
    struct MyHasher {
        state: u64,
    }
    impl std::hash::Hasher for MyHasher {
        fn finish(&self) -> u64 {
            self.state
        }
        fn write(&mut self, bytes: &[u8]) {
            for b in bytes {
                self.state = self.state.wrapping_mul(31).wrapping_add(*b as u64);
            }
        }
    }
    impl std::hash::BuildHasher for MyHasher {
        type Hasher = Self;
        fn build_hasher(&self) -> Self::Hasher {
            Self { state: 4 }
        }
    }
    type H = HyperLogLog<u64, MyHasher>;
    let good: H = HyperLogLog::with_hash(4, MyHasher { state: 4 });
    let ser = serde_json::to_string(&good).unwrap();
    let v: serde_json::Value = serde_json::from_str(&ser).unwrap();
    let mut bad = v.clone();
    bad["b"] = serde_json::json!(0);
    bad["registers"] = serde_json::json!([]);
    let res: Result<H, _> = serde_json::from_str(&bad.to_string());
    match res {
        Err(_) => {}
        Ok(hll) => {
            assert!((4..=18).contains(&hll.b()), "deserialised sketch has b = {}", hll.b());
            assert_eq!(hll.registers().len(), 1 << hll.b());
        }
    }
    let mut bad2 = v;
    bad2["registers"] = serde_json::json!([0, 0, 0]);
    let res2: Result<H, _> = serde_json::from_str(&bad2.to_string());
    if let Ok(hll) = res2 {
        assert_eq!(hll.registers().len(), 1 << hll.b(), "length mismatch accepted");
    }
}

/// D2 / C19: a cleared K2 digest must compress like a fresh one.
#[test]
fn d2_tdigest_clear_resets_sample_count() {
    let mk = || TDigest::new(K2::new(100.), 10);
    let mut used = mk();
    for i in 0..100_000 {
        used.insert((i % 1000) as f64);
    }
    used.clear();
    let mut fresh = mk();
    for i in 0..2000 {
        let x = ((i * 7919) % 2000) as f64;
        used.insert(x);
        fresh.insert(x);
    }
    assert_eq!(used.n_centroids(), fresh.n_centroids(), "cleared digest compresses differently");
    assert_eq!(used.quantile(0.37), fresh.quantile(0.37));
}

/// D3 / C12: a failed cuckoo union must leave the filter unchanged.
#[test]
fn d3_cuckoo_failed_union_leaves_state() {
    // tiny table: 2 buckets x 2 slots
    let mk = |seed| CuckooFilter::<u64, _>::with_params(ChaChaRng::seed_from_u64(seed), 2, 2, 8);
    let mut found = false;
    'outer: for seed in 0..200u64 {
        let mut a = mk(seed);
        let mut b = mk(seed + 1000);
        // a: 3 of 4 slots used; b: 3 elements => union must fail at some point
        let mut ka = vec![];
        let mut x = seed * 100;
        while a.len() < 3 {
            x += 1;
            if a.insert(&x).is_ok() {
                ka.push(x);
            }
            if x > seed * 100 + 50 {
                continue 'outer;
            }
        }
        let mut kb = vec![];
        let mut y = 1_000_000 + seed * 100;
        while b.len() < 3 {
            y += 1;
            if !a.query(&y) && b.insert(&y).is_ok() {
                kb.push(y);
            }
            if y > 1_000_000 + seed * 100 + 50 {
                continue 'outer;
            }
        }
        let before: Vec<bool> = kb.iter().map(|k| a.query(k)).collect();
        let len_before = a.len();
        if a.union(&b).is_err() {
            found = true;
            assert_eq!(a.len(), len_before);
            let after: Vec<bool> = kb.iter().map(|k| a.query(k)).collect();
            assert_eq!(before, after, "seed {}: elements of `other` became visible after a FAILED union", seed);
        }
    }
    assert!(found, "no failing union constructed");
}

/// D4 / C14: every successful cuckoo insert reports Ok(true).
#[test]
fn d4_cuckoo_insert_reports_true() {
    let mut f = CuckooFilter::<u64, _>::with_params(ChaChaRng::seed_from_u64(1), 2, 4, 8);
    // the same key repeatedly: first bucket fills (2 slots), third copy goes to the second bucket
    for i in 0..4 {
        let r = f.insert(&42);
        assert!(matches!(r, Ok(true)), "insert #{} of the same key returned {:?}", i + 1, r);
    }
}

/// D6 / C07: Bloom filters built from targets must be usable for every 0 < p < 1, n >= 1.
#[test]
fn d6_bloom_with_properties_usable() {
    let f = BloomFilter::<u64>::with_properties(100, 0.6);
    assert!(f.k() >= 1, "k = {}", f.k());
    assert!(!f.query(&123456789), "empty filter reports an element present");
    let mut g = BloomFilter::<u64>::with_properties(1, 0.9);
    assert!(g.m() >= 1, "m = {}", g.m());
    g.insert(&1).unwrap();
    assert!(g.query(&1));
}

/// D7 / C15: quantile(1) == max() for digests whose last centroid has weight > 1.
#[test]
fn d7_tdigest_quantile_one_is_max() {
    let mut d = TDigest::new(pdatastructs::tdigest::K0::new(3.), 0);
    for x in [1., 2., 3., 4., 50., 60., 70., 80., 90., 99.] {
        d.insert(x);
    }
    assert!(d.n_centroids() > 1);
    let q1 = d.quantile(1.);
    assert!((q1 - d.max()).abs() < 1e-9, "quantile(1) = {} but max = {}", q1, d.max());
}

/// D8 / C10: CMSHeap::add never panics, also when the sketch collides everything.
#[test]
fn d8_cmsheap_add_with_colliding_sketch() {
    let cms = CountMinSketch::with_params(1, 1);
    let mut top = CMSHeap::new(2, cms);
    top.add(1u64);
    top.add(2u64); // first sighting, estimate 2
    assert_eq!(top.iter().count(), 2);
}

/// D9 / C05: with k = 1 the first item must survive the second add about half of the time.
#[test]
fn d9_reservoir_second_item_probability() {
    let mut kept_first = 0;
    let n = 400;
    for seed in 0..n {
        let mut r = ReservoirSampling::new(1, ChaChaRng::seed_from_u64(seed));
        r.add(0u32);
        r.add(1u32);
        if r.reservoir()[0] == 0 {
            kept_first += 1;
        }
    }
    assert!(kept_first > n / 4 && kept_first < 3 * n / 4, "first item kept in {}/{} runs, expected about half", kept_first, n);
}
