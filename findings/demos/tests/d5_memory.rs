//! D5 / C11: the packed slot vector of the cuckoo/quotient filters must need about
//! slots x bits_per_slot bits, as documented.
use std::alloc::{GlobalAlloc, Layout, System};
use std::sync::atomic::{AtomicUsize, Ordering};

struct Counting;
static LIVE: AtomicUsize = AtomicUsize::new(0);
unsafe impl GlobalAlloc for Counting {
    unsafe fn alloc(&self, l: Layout) -> *mut u8 {
        LIVE.fetch_add(l.size(), Ordering::SeqCst);
        System.alloc(l)
    }
    unsafe fn dealloc(&self, p: *mut u8, l: Layout) {
        LIVE.fetch_sub(l.size(), Ordering::SeqCst);
        System.dealloc(p, l)
    }
}
#[global_allocator]
static A: Counting = Counting;

#[test]
fn d5_cuckoo_table_size() {
    use pdatastructs::filters::cuckoofilter::CuckooFilter;
    use rand::SeedableRng;
    let rng = rand_chacha::ChaChaRng::seed_from_u64(0);
    let before = LIVE.load(Ordering::SeqCst);
    let f = CuckooFilter::<u64, _>::with_params(rng, 4, 1 << 10, 8);
    let after = LIVE.load(Ordering::SeqCst);
    let used = after - before;
    let documented = 4 * (1 << 10) * 8 / 8; // slots x fingerprint bits, in bytes
    assert!(used <= 2 * documented + 256, "filter holds {} bytes, documented size is {} bytes", used, documented);
    drop(f);
}
