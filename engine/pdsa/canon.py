"""Names restored to those of the reviewed tree (engine/pdsa/baseline.json) where the correspondence is unambiguous.

The rule modules name functions, struct fields and parameters of the pinned tree.  A rename of a private item changes no behaviour,
so before any rule runs the facts are rewritten:

* a baseline function that is missing, when exactly one new function of the same container (module / impl type) has the same
  signature (parameter types, return type, kind) and no other missing function shares that signature, is that function renamed;
* a baseline struct field that is missing, when exactly one new field of the same struct has the same type (and no other missing
  field of the struct has that type), is that field renamed;
* the parameters of a baseline function get their baseline names back (positions and types are unchanged).

Anything ambiguous is left alone (a new function then counts as an unknown helper and is expanded in place; a truly missing anchor
still fails closed).  Returns a list of human-readable notes of what was renamed.
"""


def _container(key):
    return key.rsplit("::", 1)[0] if "::" in key else ""


def _sig(f):
    return (_container(f["key"]), tuple(f.get("inputs") or ()), f.get("ret_ty"), f.get("kind"))


def _walk(x, fn):
    if isinstance(x, dict):
        fn(x)
        for v in x.values():
            _walk(v, fn)
    elif isinstance(x, list):
        for v in x:
            _walk(v, fn)


def _module_moves(j, base):
    """A module that was renamed or whose file was moved: every baseline function under the old module path is missing, and the same
    names with the same signatures (module path aside) exist under a path the baseline does not know.  Returns [(old_prefix, new_prefix)]."""
    import re
    bf = base.get("fns", {})
    cur = {f["key"]: f for f in j["fns"]}
    plain = lambda k: "{closure" not in k and not k.startswith("<")
    missing = [k for k in bf if k not in cur and plain(k)]
    new = [k for k in cur if k not in bf and plain(k)]
    if not missing or not new:
        return []
    base_mods = {k.split("::")[0] for k in bf if plain(k)} | {a.split("::")[0] for a in base.get("adts", {})}
    votes = {}
    for m in missing:
        ms = m.split("::")
        for n in new:
            ns = n.split("::")
            # longest common suffix of path segments (at least the item name)
            c = 0
            while c < min(len(ms), len(ns)) and ms[-1 - c] == ns[-1 - c]:
                c += 1
            if c == 0 or c == len(ms) or c == len(ns):
                continue
            op, np_ = "::".join(ms[:-c]), "::".join(ns[:-c])
            if not (op.split("::")[-1][:1].islower() and np_.split("::")[-1][:1].islower()):
                continue        # only module paths (snake_case); a renamed type also changes strings that do not end in `::`
            if op == np_ or np_.split("::")[0] in base_mods and np_ in {"::".join(k.split("::")[:len(np_.split("::"))]) for k in bf}:
                continue
            def strip(t, pref):
                return re.sub(r"(?<![A-Za-z0-9_])%s::" % re.escape(pref), "", str(t))
            if strip(bf[m].get("inputs"), op) == strip(cur[n].get("inputs"), np_) and strip(bf[m].get("ret_ty"), op) == strip(cur[n].get("ret_ty"), np_):
                votes.setdefault((op, np_), set()).add(m)
    out = []
    for (op, np_), ms_ in sorted(votes.items(), key=lambda kv: -len(kv[1])):
        under_old = [m for m in missing if m.startswith(op + "::")]
        if under_old and set(under_old) <= ms_ and not any(k.startswith(np_ + "::") for k in bf) and not any(o == op for o, _ in out):
            out.append((op, np_))
    return out


def _replace_prefix(x, old, new):
    """rewrite every string in the facts that mentions the path `new::` to `old::` (path-segment boundaries only)"""
    import re
    pat = re.compile(r"(?<![A-Za-z0-9_])%s::" % re.escape(new))
    if isinstance(x, dict):
        for k in list(x.keys()):
            v = x[k]
            if isinstance(v, str):
                if k not in ("file", "span") and (new + "::") in v:
                    x[k] = pat.sub(old + "::", v)
            else:
                _replace_prefix(v, old, new)
    elif isinstance(x, list):
        for i, v in enumerate(x):
            if isinstance(v, str):
                if (new + "::") in v:
                    x[i] = pat.sub(old + "::", v)
            else:
                _replace_prefix(v, old, new)


def canonicalise_names(j, base):
    notes = []
    for old_p, new_p in _module_moves(j, base):
        _replace_prefix(j, old_p, new_p)
        notes.append("module %s is baseline %s (same items and signatures under a new path)" % (new_p, old_p))
    bf = base.get("fns", {})
    cur = {f["key"]: f for f in j["fns"]}
    is_plain = lambda k: "{closure" not in k and not k.startswith("<")
    missing = [k for k in bf if k not in cur and is_plain(k)]
    new = [k for k, f in cur.items() if k not in bf and is_plain(k) and f.get("kind") not in ("Closure", "Promoted")]
    bsig = {k: (_container(k), tuple(bf[k].get("inputs") or ()), bf[k].get("ret_ty"), bf[k].get("kind")) for k in missing}
    ren = {}
    for m in missing:
        if sum(1 for m2 in missing if bsig[m2] == bsig[m]) != 1:
            continue
        cands = [n for n in new if _sig(cur[n]) == bsig[m]]
        if len(cands) == 1:
            ren[cands[0]] = m
    if ren:
        def fix_key(s):
            if s in ren:
                return ren[s]
            for n, m in ren.items():
                if s.startswith(n + "::{closure"):
                    return m + s[len(n):]
            return None
        for f in j["fns"]:
            k2 = fix_key(f["key"])
            if k2 is not None:
                if f["key"] in ren:
                    f["name"] = k2.rsplit("::", 1)[-1]
                f["key"] = k2

        def fix(d):
            hit = False
            for fld in ("def", "resolved"):
                v = d.get(fld)
                if isinstance(v, str):
                    k2 = fix_key(v)
                    if k2 is not None:
                        d[fld] = k2
                        hit = hit or v in ren
            if hit and isinstance(d.get("name"), str) and isinstance(d.get("def"), str):
                d["name"] = d["def"].rsplit("::", 1)[-1]
        _walk(j["fns"], fix)
        for n, m in sorted(ren.items()):
            notes.append("fn %s is baseline %s (same container and signature)" % (n, m))

    # ---- struct fields -------------------------------------------------------------------------------------------
    ba = base.get("adts", {})
    fren = {}          # adt -> {new name: baseline name}
    for a in j.get("adts", []):
        bfields = ba.get(a["key"])
        if not bfields or len(a.get("variants", [])) != 1:
            continue
        cfields = [(x["name"], x.get("ty_s")) for x in a["variants"][0]["fields"]]
        cn, bn = {n for n, _ in cfields}, {n for n, _ in bfields}
        M = [(n, t) for n, t in bfields if n not in cn]
        N = [(n, t) for n, t in cfields if n not in bn]
        for m, t in M:
            if sum(1 for m2, t2 in M if t2 == t) != 1:
                continue
            cands = [n for n, t2 in N if t2 == t]
            if len(cands) == 1:
                fren.setdefault(a["key"], {})[cands[0]] = m
        # same-typed fields that cannot be told apart by type: renames keep the declaration order
        if len(cfields) == len(bfields) and all(cfields[i][1] == bfields[i][1] for i in range(len(cfields))):
            done_new = set(fren.get(a["key"], {}))
            done_old = set(fren.get(a["key"], {}).values())
            for i, (n, t) in enumerate(cfields):
                m = bfields[i][0]
                if n != m and n not in bn and m not in cn and n not in done_new and m not in done_old:
                    fren.setdefault(a["key"], {})[n] = m
        if a["key"] in fren:
            for x in a["variants"][0]["fields"]:
                if x["name"] in fren[a["key"]]:
                    x["name"] = fren[a["key"]][x["name"]]
    if fren:
        def fixf(d):
            adt = d.get("adt")
            if adt in fren:
                if d.get("k") == "field" and d.get("name") in fren[adt]:
                    d["name"] = fren[adt][d["name"]]
                if isinstance(d.get("fields"), list):
                    d["fields"] = [fren[adt].get(x, x) if isinstance(x, str) else x for x in d["fields"]]
        _walk(j["fns"], fixf)
        for adt, mp in sorted(fren.items()):
            for n, m in sorted(mp.items()):
                notes.append("field %s.%s is baseline %s (same type)" % (adt, n, m))

    # ---- parameter order ---------------------------------------------------------------------------------------------
    # a function whose parameters were re-ordered (and every call site with them) gets the baseline order back: the parameter names
    # give the permutation, the types at the permuted positions must be the baseline's
    for f in j["fns"]:
        b = bf.get(f["key"])
        n = f.get("arg_count") or 0
        if not b or b.get("arg_count") != n or n < 2:
            continue
        cur_names = [None] * n
        for d in f.get("debug", []):
            i = d.get("arg")
            if i and not d["place"]["proj"] and i - 1 < n:
                cur_names[i - 1] = d["name"]
        base_names = list(b.get("args") or [])
        if None in cur_names or None in base_names or len(base_names) != n or cur_names == base_names \
                or sorted(cur_names) != sorted(base_names) or len(set(cur_names)) != n:
            continue
        perm = [cur_names.index(nm) for nm in base_names]            # baseline position p holds what is now parameter perm[p]
        cin, bin_ = list(f.get("inputs") or []), list(b.get("inputs") or [])
        if len(cin) != n or len(bin_) != n or any(cin[perm[p_]] != bin_[p_] for p_ in range(n)):
            continue
        lmap = {perm[p_] + 1: p_ + 1 for p_ in range(n)}

        def relocal(x):
            if isinstance(x, dict):
                v = x.get("local")
                if isinstance(v, int) and not isinstance(v, bool) and v in lmap:
                    x["local"] = lmap[v]
                for vv in x.values():
                    relocal(vv)
            elif isinstance(x, list):
                for vv in x:
                    relocal(vv)
        relocal(f["blocks"])
        relocal(f.get("debug", []))
        for d in f.get("debug", []):
            if d.get("arg") and d["arg"] in lmap:
                d["arg"] = lmap[d["arg"]]
        locs = f["locals"]
        f["locals"] = [locs[0]] + [locs[perm[p_] + 1] for p_ in range(n)] + locs[n + 1:]
        f["inputs"] = [cin[perm[p_]] for p_ in range(n)]
        key = f["key"]
        for g in j["fns"]:
            for blk in g["blocks"]:
                t = blk["term"]
                if t.get("k") == "call" and isinstance(t.get("func"), dict) and (t["func"].get("resolved") == key or (t["func"].get("resolved") is None and t["func"].get("def") == key)) \
                        and len(t.get("args", [])) == n:
                    t["args"] = [t["args"][perm[p_]] for p_ in range(n)]
        notes.append("parameters of %s re-ordered to the baseline order (%s)" % (key, ", ".join(base_names)))

    # ---- parameter names ---------------------------------------------------------------------------------------------
    for f in j["fns"]:
        b = bf.get(f["key"])
        if not b or b.get("arg_count") != f.get("arg_count") or tuple(b.get("inputs") or ()) != tuple(f.get("inputs") or ()):
            continue
        names = b.get("args") or []
        for d in f.get("debug", []):
            i = d.get("arg")
            if i and not d["place"]["proj"] and i - 1 < len(names) and names[i - 1] and d["name"] != names[i - 1]:
                notes.append("parameter %d of %s: `%s` is baseline `%s`" % (i, f["key"], d["name"], names[i - 1]))
                d["name"] = names[i - 1]
    return notes


def make_baseline(j):
    fns = {}
    for f in j["fns"]:
        args = [None] * (f.get("arg_count") or 0)
        for d in f.get("debug", []):
            i = d.get("arg")
            if i and not d["place"]["proj"] and i - 1 < len(args):
                args[i - 1] = d["name"]
        fns[f["key"]] = {"inputs": f.get("inputs"), "ret_ty": f.get("ret_ty"), "kind": f.get("kind"), "arg_count": f.get("arg_count"), "args": args}
    adts = {}
    for a in j.get("adts", []):
        if len(a.get("variants", [])) == 1:
            adts[a["key"]] = [[x["name"], x.get("ty_s")] for x in a["variants"][0]["fields"]]
    return {"fns": fns, "adts": adts}
