"""Symbolic terms over MIR with a fixed normalising rewrite set (DESIGN 2.2).

A term is a nested tuple:
  ("const", v)                 scalar constant (python int/float/bool/str)
  ("param", n, name)           n-th argument of the function under analysis
  ("field", base, name)        struct field read (refs/derefs are transparent)
  ("tfield", base, i)          tuple field
  ("variant", base, name)      enum downcast (payload of `Some`, `Ok`, ...)
  ("index", base, idx)         element of a collection
  ("op", name, (args...))      arithmetic/logical operator (Add, Mul, Lt, ...)
  ("cast", ty, x)              value-changing cast (float<->int, narrowing)
  ("call", callee, (args...))  call of an uninterpreted function
  ("adt", key, variant, ((fname, term)...))   aggregate
  ("tuple", (terms...))
  ("closure", key, (upvars...))
  ("elem", stream)             item of a stream (iterator) term
  ("enum_idx", stream)         index attached by `enumerate`
  ("phi", (alts...))           join of several reaching definitions
  ("rec", local)               loop-carried reference to an enclosing definition
  ("clobber", local)           value after the local was handed out as `&mut`
  ("unknown", text)
"""

import re

_PROMOTED_RE = re.compile(r"promoted\[(\d+)\]$")

COMMUTATIVE = {"Add", "Mul", "BitAnd", "BitOr", "BitXor", "Eq", "Ne", "min", "max", "And", "Or"}
ASSOCIATIVE = {"Add", "Mul", "BitAnd", "BitOr", "BitXor", "min", "max", "And", "Or"}

OVERFLOW_OPS = {"AddWithOverflow": "Add", "SubWithOverflow": "Sub", "MulWithOverflow": "Mul",
                "AddUnchecked": "Add", "SubUnchecked": "Sub", "MulUnchecked": "Mul",
                "ShlUnchecked": "Shl", "ShrUnchecked": "Shr"}

# callee *names* (last path segment of the declared callee) that are value-transparent
TRANSPARENT = {"clone", "deref", "deref_mut", "borrow", "borrow_mut", "as_ref", "as_mut", "into_iter",
               "to_owned", "by_ref", "cloned", "copied", "as_slice", "as_mut_slice", "iter", "iter_mut", "into"}
TRANSPARENT_DECLS_PREFIX = (
    "std::clone::Clone::clone", "std::ops::Deref::deref", "std::ops::DerefMut::deref_mut",
    "std::cell::RefCell::borrow", "std::cell::RefCell::borrow_mut", "std::iter::IntoIterator::into_iter",
    "std::iter::Iterator::cloned", "std::iter::Iterator::copied", "std::iter::Iterator::by_ref",
    "std::borrow::Borrow::borrow", "std::convert::AsRef::as_ref", "std::rc::Rc::new", "std::boxed::Box::new",
)

CHECKED = {"checked_add": "Add", "checked_sub": "Sub", "checked_mul": "Mul", "checked_div": "Div",
           "checked_rem": "Rem", "checked_shl": "Shl", "checked_shr": "Shr"}
RNG_DRAWS = {"gen", "gen_range", "gen_bool", "gen_ratio", "sample", "next_u32", "next_u64", "random",
             # other impure sources: every call yields a distinct value
             "next_value", "next_key", "next_element", "next_entry"}
UNWRAPS = {"unwrap", "expect", "unwrap_unchecked"}

FLOAT_METHODS = {"ln", "log2", "log10", "exp", "ceil", "floor", "sqrt", "abs", "round", "trunc", "sin", "asin", "powi", "powf",
                 "is_finite", "is_nan", "is_infinite", "recip"}
INT_METHODS = {"next_power_of_two", "is_power_of_two", "leading_zeros", "trailing_zeros", "count_ones", "pow",
               "wrapping_add", "wrapping_sub", "wrapping_mul", "saturating_add", "saturating_sub", "saturating_mul",
               "div_ceil", "abs_diff", "rem_euclid"}


def const(v):
    return ("const", v)


def op(name, *args):
    return ("op", name, tuple(args))


def mk(name, *args):
    """normalised operator term"""
    return simplify(("op", name, tuple(args)))


def is_const(t, v=None):
    return t[0] == "const" and (v is None or (t[1] == v and type(t[1]) == type(v)) or (isinstance(v, (int, float)) and not isinstance(v, bool) and not isinstance(t[1], bool) and t[1] == v))


def _key(t):
    return repr(t)


PHI_GUARD = {}      # repr(phi term) -> (condition, value when it holds, value when it does not); None when two joins with the same
                    # values are selected by different tests (then the term alone does not determine the test)


def remember_phi_guard(phi, guard):
    k = repr(phi)
    if k in PHI_GUARD and PHI_GUARD[k] != guard:
        PHI_GUARD[k] = None
    elif k not in PHI_GUARD:
        PHI_GUARD[k] = guard


def mk_phi(alts):
    flat = []
    for a in alts:
        if a[0] == "phi":
            flat.extend(a[1])
        else:
            flat.append(a)
    uniq = {}
    for a in flat:
        uniq[_key(a)] = a
    vals = [uniq[k] for k in sorted(uniq)]
    if len(vals) == 1:
        return vals[0]
    # eta: `match x { Ok(v) => Ok(v), Err(e) => Err(e) }` (and the Option analogue) is x
    if len(vals) == 2 and all(v[0] == "adt" and v[1] in ("std::result::Result", "std::option::Option") for v in vals) and vals[0][1] == vals[1][1] \
            and {v[2] for v in vals} in ({"Ok", "Err"}, {"Some", "None"}):
        src = None
        ok = True
        for v in vals:
            if v[2] == "None":
                continue
            if len(v[3]) == 1 and v[3][0][1][0] == "field" and v[3][0][1][2] == "0" and v[3][0][1][1][0] == "variant" and v[3][0][1][1][2] == v[2]:
                x = v[3][0][1][1][1]
                if src is None or src == x:
                    src = x
                    continue
            ok = False
        if ok and src is not None:
            return src
    return ("phi", tuple(vals))


def simplify(t):
    """one bottom-up normalisation pass (terms are built bottom-up, so children are normal)"""
    k = t[0]
    if k == "op":
        name, args = t[1], t[2]
        if name in OVERFLOW_OPS:
            # value part is selected by tfield 0; keep a marker form until then
            return t
        if name in ASSOCIATIVE:
            flat = []
            for a in args:
                if a[0] == "op" and a[1] == name:
                    flat.extend(a[2])
                else:
                    flat.append(a)
            args = tuple(flat)
        if name in COMMUTATIVE:
            args = tuple(sorted(args, key=_key))
        # constant folding of integer Add/Mul (keeps `i + 1 + g` canonical)
        if name in ("Add", "Mul") and sum(1 for a in args if a[0] == "const" and isinstance(a[1], int) and not isinstance(a[1], bool)) > 1:
            acc = 0 if name == "Add" else 1
            rest = []
            for a in args:
                if a[0] == "const" and isinstance(a[1], int) and not isinstance(a[1], bool):
                    acc = acc + a[1] if name == "Add" else acc * a[1]
                else:
                    rest.append(a)
            args = tuple(sorted(rest + [const(acc)], key=_key))
        def _pow2_bits(x):
            # size_of::<T>() * 8 for the primitive integer block types, or a literal power of two
            if x[0] == "const" and type(x[1]) is int and x[1] > 0 and x[1] & (x[1] - 1) == 0:
                return True
            return x[0] == "op" and x[1] == "Mul" and len(x[2]) == 2 and any(y == const(8) for y in x[2]) and any(y[0] == "call" and y[1] == "size_of" for y in x[2])
        if name == "Shr" and len(args) == 2 and args[1][0] == "cast":
            a1 = args[1][2]
        else:
            a1 = args[1] if len(args) == 2 else None
        if name == "Shr" and a1 is not None and a1[0] == "op" and a1[1] == "trailing_zeros" and len(a1[2]) == 1 and _pow2_bits(a1[2][0]):
            return simplify(("op", "Div", (args[0], a1[2][0])))       # x >> log2(B) for a power of two B
        if name == "BitAnd" and len(args) == 2:
            for u, v in (args, args[::-1]):
                if v[0] == "op" and v[1] == "Sub" and len(v[2]) == 2 and v[2][1] == const(1) and _pow2_bits(v[2][0]):
                    return simplify(("op", "Rem", (u, v[2][0])))      # x & (B - 1) for a power of two B
        if name == "Shr" and len(args) == 2 and args[0][0] == "op" and args[0][1] == "BitAnd" and len(args[0][2]) == 2:
            # (h & !((1 << b) - 1)) >> b  ==  h >> b : blanking the bits that the shift drops anyway
            def _nc(x):
                return _nc(x[2]) if x[0] == "cast" and len(x) == 3 else x
            low_mask = ("op", "Sub", (("op", "Shl", (const(1), _nc(args[1]))), const(1)))
            for u, v in (args[0][2], args[0][2][::-1]):
                if v[0] == "op" and v[1] == "Not" and len(v[2]) == 1:
                    m_ = v[2][0]
                    if m_[0] == "op" and m_[1] == "Sub" and len(m_[2]) == 2 and m_[2][1] == const(1) and m_[2][0][0] == "op" and m_[2][0][1] == "Shl" \
                            and m_[2][0][2][0] == const(1) and _nc(m_[2][0][2][1]) == _nc(args[1]):
                        return simplify(("op", "Shr", (u, args[1])))
        if name == "Add":
            args = tuple(a for a in args if not (a[0] == "const" and a[1] == 0 and not isinstance(a[1], bool) and isinstance(a[1], int))) or (const(0),)
            if len(args) == 1:
                return args[0]
        if name == "Mul":
            args2 = tuple(a for a in args if not (a[0] == "const" and isinstance(a[1], int) and not isinstance(a[1], bool) and a[1] == 1))
            if args2 != args:
                args = args2 or (const(1),)
            if len(args) == 1:
                return args[0]
        if name == "Not" and len(args) == 1:
            a = args[0]
            if a[0] == "op" and a[1] == "Not":
                return a[2][0]
            neg = {"Lt": "Ge", "Le": "Gt", "Gt": "Le", "Ge": "Lt", "Eq": "Ne", "Ne": "Eq"}
            # only for integer comparisons would this be exact w.r.t. NaN; kept symbolic for floats by callers
            if a[0] == "op" and a[1] in neg and a[1] in ("Eq", "Ne"):
                return ("op", neg[a[1]], a[2])
        # orient comparisons: Gt(a,b) -> Lt(b,a), Ge(a,b) -> Le(b,a)
        if name == "Gt":
            return simplify(("op", "Lt", (args[1], args[0])))
        if name == "Ge":
            return simplify(("op", "Le", (args[1], args[0])))
        # unsigned zero tests: x < 1, x <= 0 are x == 0 (the crate compares counters and lengths only; no signed arithmetic)
        if name == "Lt" and len(args) == 2 and args[1][0] == "const" and type(args[1][1]) is int and args[1][1] == 1 and args[0][0] != "const":
            return simplify(("op", "Eq", (("const", 0), args[0])))
        if name == "Le" and len(args) == 2 and args[1][0] == "const" and type(args[1][1]) is int and args[1][1] == 0 and args[0][0] != "const":
            return simplify(("op", "Eq", (("const", 0), args[0])))
        return ("op", name, args)
    if k == "tfield":
        base, i = t[1], t[2]
        if base[0] == "loopvar" and isinstance(base[1], int):
            return ("loopvar", (base[1], i), base[2])
        if base[0] == "op" and base[1] in OVERFLOW_OPS:
            if i == 0:
                return simplify(("op", OVERFLOW_OPS[base[1]], base[2]))
            return ("unknown", "overflow-flag")
        if base[0] == "tuple" and i < len(base[1]):
            return base[1][i]
        if base[0] == "elem" and base[1][0] == "enumerate":
            inner = base[1][1]
            return ("enum_idx", inner) if i == 0 else elem_of(inner)
        if base[0] == "phi":
            return mk_phi([simplify(("tfield", a, i)) for a in base[1]])
        return t
    if k == "field":
        base, name = t[1], t[2]
        if base[0] == "closure_env":
            try:
                return base[1][int(name)]
            except (ValueError, IndexError):
                return t
        if base[0] == "adt":
            for fname, ft in base[3]:
                if fname == name:
                    return ft
        if base[0] == "tuple":
            try:
                return base[1][int(name)]
            except (ValueError, IndexError):
                return t
        if base[0] == "phi":
            return mk_phi([simplify(("field", a, name)) for a in base[1]])
        return t
    if k == "variant":
        base, name = t[1], t[2]
        if base[0] == "call" and base[1] == "checked" and name == "Some":
            # `match a.checked_op(b) { Some(v) => v, None => panic }` is the unwrap of the checked operation
            return ("tuple", (base[2][0],))
        if base[0] == "adt" and base[2] == name:
            # payload container: fields are accessed via ("field", variant, "0")
            return ("tuple", tuple(ft for _, ft in base[3]))
        return t
    if k == "cast":
        ty, x = t[1], t[2]
        if x[0] == "const" and isinstance(x[1], (int, float)) and not isinstance(x[1], bool):
            if ty in ("f64", "f32"):
                return const(float(x[1]))
        return t
    return t


def _resimplify(t):
    """bottom-up simplify after a substitution"""
    if not isinstance(t, tuple) or not t:
        return t
    k = t[0]
    if k == "op":
        return simplify(("op", t[1], tuple(_resimplify(a) for a in t[2])))
    if k in ("field", "tfield", "variant"):
        return simplify((k, _resimplify(t[1]), t[2]))
    if k in ("map", "zip", "filter", "enumerate", "rev", "chain", "rest"):
        return (k,) + tuple(_resimplify(a) if isinstance(a, tuple) else a for a in t[1:])
    if k == "index":
        b_, i_ = _resimplify(t[1]), _resimplify(t[2])
        if i_ == ("enum_idx", b_):
            return ("elem", b_)       # v[i] with i the index of the current item of v
        return ("index", b_, i_)
    if k == "call":
        return ("call", t[1], tuple(_resimplify(a) for a in t[2]))
    if k == "phi":
        return mk_phi([_resimplify(a) for a in t[1]])
    if k == "cast":
        return simplify(("cast", t[1], _resimplify(t[2])))
    if k == "tuple":
        return ("tuple", tuple(_resimplify(a) for a in t[1]))
    if k == "adt":
        return ("adt", t[1], t[2], tuple((n, _resimplify(a)) for n, a in t[3]))
    return t


def _index_base(stream):
    """the position of an item is not changed by adaptors that keep every item: enumerate().map(f).enumerate() counts like the source"""
    while stream[0] in ("map", "enumerate") or (stream[0] == "call" and stream[1].endswith(("::cloned", "::copied", "::by_ref", "::into_iter", "::iter")) and len(stream[2]) == 1):
        stream = stream[1] if stream[0] != "call" else stream[2][0]
    return stream


def elem_of(stream):
    """item term of a stream term"""
    k = stream[0]
    if k == "map":
        return apply_closure(stream[2], (elem_of(stream[1]),))
    if k == "enumerate":
        return ("tuple", (("enum_idx", _index_base(stream[1])), elem_of(stream[1])))
    if k == "zip":
        return ("tuple", (elem_of(stream[1]), elem_of(stream[2])))
    if k == "filter":
        return elem_of(stream[1])
    if k == "rest":
        return elem_of(stream[1])      # the items of the remainder are items of the stream
    return ("elem", stream)


_closure_hook = [None]


def subst_term(t, m):
    """syntactic substitution of whole subterms"""
    if t in m:
        return m[t]
    if isinstance(t, tuple):
        return tuple(subst_term(x, m) if isinstance(x, tuple) else x for x in t)
    return t


def apply_closure(clo, args):
    """term of `clo(args...)`; needs the program (set by TermBuilder via _closure_hook)"""
    if clo[0] == "lam":
        # ("lam", formal, body): the body of a `for` loop summarised as the function it applies to each item
        formal, body = clo[1], clo[2]
        if len(args) == 1 and args[0] == formal:
            return body
        m = {formal: args[0]} if len(args) == 1 else {}
        if len(args) == 1 and formal[0] == "tuple" and args[0][0] == "tuple" and len(formal[1]) == len(args[0][1]):
            m.update(dict(zip(formal[1], args[0][1])))
        return subst_term(body, m)
    if clo[0] == "fnref":
        return ("call", clo[1], tuple(args))      # a function path used as the closure: `.all(Zero::is_zero)`
    if clo[0] == "closure" and _closure_hook[0] is not None:
        r = _closure_hook[0](clo, args)
        if r is not None:
            return r
    return ("call", "<apply>", (clo,) + tuple(args))


def fmt(t, depth=0):
    if depth > 40:
        return "..."
    k = t[0]
    f = lambda x: fmt(x, depth + 1)
    if k == "const":
        return repr(t[1])
    if k == "param":
        return t[2] or ("arg%d" % t[1])
    if k == "field":
        return "%s.%s" % (f(t[1]), t[2])
    if k == "tfield":
        return "%s.%d" % (f(t[1]), t[2])
    if k == "variant":
        return "(%s as %s)" % (f(t[1]), t[2])
    if k == "index":
        return "%s[%s]" % (f(t[1]), f(t[2]))
    if k == "op":
        return "%s(%s)" % (t[1], ", ".join(f(a) for a in t[2]))
    if k == "cast":
        return "(%s as %s)" % (f(t[2]), t[1])
    if k == "call":
        return "%s(%s)" % (t[1].split("::")[-1] if not t[1].startswith("<") else t[1], ", ".join(f(a) for a in t[2]))
    if k == "adt":
        return "%s::%s{%s}" % (t[1].split("::")[-1], t[2], ", ".join("%s: %s" % (n, f(x)) for n, x in t[3]))
    if k == "tuple":
        return "(%s)" % ", ".join(f(a) for a in t[1])
    if k == "closure":
        return "|%s|{%s}" % (t[1].split("::")[-1], ", ".join(f(a) for a in t[2]))
    if k in ("elem", "enum_idx"):
        return "%s(%s)" % (k, f(t[1]))
    if k in ("map", "zip", "filter", "enumerate", "rev", "chain", "push", "rest"):
        return "%s(%s)" % (k, ", ".join(f(a) for a in t[1:]))
    if k == "lam":
        return "|%s| %s" % (f(t[1]), f(t[2]))
    if k == "phi":
        return "phi{%s}" % " | ".join(f(a) for a in t[1])
    if k == "rec":
        return "rec(_%d)" % t[1]
    if k == "loopvar":
        return ("loopvar(_%d.%s@bb%d)" % (t[1][0], t[1][1], t[2])) if isinstance(t[1], tuple) else ("loopvar(_%d@bb%d)" % (t[1], t[2]))
    if k == "site":
        return "@bb%d" % t[2]
    if k == "fnref":
        return "fn:" + t[1]
    if k == "namedconst":
        return t[1]
    if k == "clobber":
        return "clobber(_%d)" % t[1]
    if k == "closure_env":
        return "env"
    return "%s" % (t,)


def linear(t):
    """integer-linear normal form: (dict repr(atom)->(atom, coeff), const). Sub/Add/Mul-by-const/Neg are opened up."""
    atoms = {}
    c = [0]

    def add(term, k):
        if term[0] == "const" and isinstance(term[1], (int, float)) and not isinstance(term[1], bool):
            c[0] += k * term[1]
            return
        if term[0] == "op":
            n, a = term[1], term[2]
            if n == "Add":
                for x in a:
                    add(x, k)
                return
            if n == "Sub" and len(a) == 2:
                add(a[0], k)
                add(a[1], -k)
                return
            if n == "Neg" and len(a) == 1:
                add(a[0], -k)
                return
            if n == "Div" and len(a) == 2 and a[1][0] == "const" and isinstance(a[1][1], (int, float)) and not isinstance(a[1][1], bool) and a[1][1] != 0:
                add(a[0], k / a[1][1])
                return
            if n == "Mul":
                consts = [x for x in a if x[0] == "const" and isinstance(x[1], (int, float)) and not isinstance(x[1], bool)]
                rest = [x for x in a if x not in consts]
                if consts and len(rest) == 1:
                    kk = k
                    for x in consts:
                        kk *= x[1]
                    add(rest[0], kk)
                    return
                if consts and len(rest) > 1:
                    kk = k
                    for x in consts:
                        kk *= x[1]
                    add(simplify(("op", "Mul", tuple(rest))), kk)
                    return
        r = repr(term)
        if r in atoms:
            atoms[r] = (term, atoms[r][1] + k)
        else:
            atoms[r] = (term, k)
    add(t, 1)
    atoms = {r: v for r, v in atoms.items() if v[1] != 0}
    return atoms, c[0]


def linear_eq(a, b):
    la, ca = linear(a)
    lb, cb = linear(b)
    return ca == cb and {r: v[1] for r, v in la.items()} == {r: v[1] for r, v in lb.items()}


def swap_self_other(t, a=1, b=2):
    """exchange parameters a and b in a term (self <-> other)"""
    if not isinstance(t, tuple) or not t:
        return t
    if t[0] == "param":
        if t[1] == a:
            return ("param", b, None)
        if t[1] == b:
            return ("param", a, None)
        return t
    return tuple(swap_self_other(x, a, b) if isinstance(x, tuple) else x for x in t)


def erase_param_names(t):
    if not isinstance(t, tuple) or not t:
        return t
    if t[0] == "param":
        return ("param", t[1], None)
    return tuple(erase_param_names(x) if isinstance(x, tuple) else x for x in t)


def callee_is(name, want):
    """`name` ends with `want` at a path-segment boundary: `with_fill` matches
    `IntVec::with_fill` and not `block_with_fill` (a bare str.endswith did,
    round 17)."""
    if not isinstance(name, str) or not name.endswith(want):
        return False
    if len(name) == len(want) or not (want[0].isalnum() or want[0] == "_"):
        return True
    prev = name[-len(want) - 1]
    return not (prev.isalnum() or prev == "_")


def subterms(t):
    """all subterms, pre-order"""
    yield t
    k = t[0]
    if k in ("field", "variant", "elem", "enum_idx"):
        yield from subterms(t[1])
    elif k == "tfield":
        yield from subterms(t[1])
    elif k == "index":
        yield from subterms(t[1])
        yield from subterms(t[2])
    elif k in ("op", "call"):
        for a in t[2]:
            yield from subterms(a)
    elif k == "cast":
        yield from subterms(t[2])
    elif k == "adt":
        for _, a in t[3]:
            yield from subterms(a)
    elif k in ("tuple", "phi"):
        for a in t[1]:
            yield from subterms(a)
    elif k == "closure":
        for a in t[2]:
            yield from subterms(a)
    elif k in ("map", "zip", "filter", "enumerate", "rev", "chain", "push", "lam", "rest"):
        for a in t[1:]:
            if isinstance(a, tuple):
                yield from subterms(a)


def contains(t, pred):
    return any(pred(s) for s in subterms(t))


def mentions_field(t, name):
    return contains(t, lambda s: s[0] == "field" and s[2] == name)


def mentions_param(t, n):
    return contains(t, lambda s: s[0] == "param" and s[1] == n)


class TermBuilder:
    """Builds terms for locals/operands/places of one function."""

    def __init__(self, fn, prog, subst=None, depth=0):
        self.fn = fn
        self.prog = prog
        self.subst = subst or {}
        self.depth = depth
        self._reach_cache = {}
        self._clobbers = None
        self._stack = []
        self._memo = {}
        _closure_hook[0] = self._apply_closure_hook

    # ---- closures -------------------------------------------------------------------
    def _apply_closure_hook(self, clo, args):
        if self.depth > 4:
            return None
        cf = self.prog.fn(clo[1])
        if cf is None:
            return None
        subst = {1: ("closure_env", clo[2])}
        for i, a in enumerate(args):
            subst[2 + i] = a
        tb = TermBuilder(cf, self.prog, subst, self.depth + 1)
        r = tb.return_term()
        _closure_hook[0] = self._apply_closure_hook
        return r

    def return_term(self):
        outs = []
        for e in self.fn.exits():
            outs.append(self.local(0, e, len(self.fn.blocks[e].stmts)))
        if not outs:
            return ("unknown", "diverges")
        return mk_phi(outs)

    # ---- reaching definitions ---------------------------------------------------------
    def clobbers(self):
        """local -> [(bb, idx)] where `&mut local` is created (the local may then be mutated by a callee)"""
        if self._clobbers is None:
            c = {}
            for bi, blk in enumerate(self.fn.blocks):
                if blk.cleanup:
                    continue
                for si, st in enumerate(blk.stmts):
                    if st.k == "assign" and st.rv.k == "ref" and st.rv.j["bk"] == "mut" and st.rv.place.is_local():
                        c.setdefault(st.rv.place.local, []).append((bi, si))
            self._clobbers = c
        return self._clobbers

    def _all_defs(self, l):
        ds = [(b, i, kind, obj) for (b, i, kind, obj) in self.fn.defs().get(l, [])]
        for (b, i) in self.clobbers().get(l, []):
            ds.append((b, i, "clobber", None))
        return ds

    def _block_out(self, l):
        """per block: last def of l in the block (or None)"""
        key = ("out", l)
        if key not in self._reach_cache:
            last = {}
            for d in self._all_defs(l):
                b = d[0]
                if b not in last or d[1] > last[b][1]:
                    last[b] = d
            self._reach_cache[key] = last
        return self._reach_cache[key]

    def _reach_in(self, l):
        """block -> frozenset of defs reaching block entry ('entry' pseudo-def for bb0)"""
        key = ("in", l)
        if key in self._reach_cache:
            return self._reach_cache[key]
        fn = self.fn
        last = self._block_out(l)
        order = fn.rpo()
        preds = fn.preds()
        rin = {b: set() for b in order}
        rin[0] = {("entry",)}
        changed = True
        while changed:
            changed = False
            for b in order:
                acc = set(rin[b])
                for p in preds[b]:
                    if p not in rin:
                        continue
                    if p in last:
                        acc.add(last[p][:2])
                    else:
                        acc |= rin[p]
                if acc != rin[b]:
                    rin[b] = acc
                    changed = True
        self._reach_cache[key] = rin
        return rin

    def reaching(self, l, bb, idx):
        """defs of local l reaching program point (bb, idx) [before executing statement idx]"""
        best = None
        for d in self._all_defs(l):
            if d[0] == bb and d[1] < idx:
                if best is None or d[1] > best[1]:
                    best = d
        if best is not None:
            return [best]
        rin = self._reach_in(l).get(bb, set())
        out = []
        alld = {(d[0], d[1]): d for d in self._all_defs(l)}
        for r in sorted(rin, key=repr):
            if r == ("entry",):
                out.append(("entry",))
            else:
                out.append(alld[r])
        return out

    # ---- term construction -----------------------------------------------------------
    def _loops(self):
        if not hasattr(self, "_loop_info"):
            heads = self.fn.loop_heads()
            self._loop_info = {h: self.fn.natural_loop(h) for h in heads}
        return self._loop_info

    def defined_in_loop(self, l, head):
        body = self._loops()[head]
        return any(d[0] in body for d in self._all_defs(l))

    def local(self, l, bb, idx, ignore_clobber=False):
        t = self._local(l, bb, idx, ignore_clobber)
        if "loopvar" in repr(t):
            t = self._summarise_finished_loops(t, bb)
            # an explicit iteration counter is the index of the current item
            loops = self._loops()
            m = {}
            for s_ in subterms(t):
                if s_[0] == "loopvar" and s_[2] in loops and s_ not in m:
                    # (also in the blocks an iteration leaves the loop through: the symbol still is the current item's index there)
                    c = self._iteration_counter(s_[1], s_[2])
                    if c is not None:
                        m[s_] = c
            if m:
                t = subst_term(t, m)
                t = _resimplify(t)
        return t

    def _loops_containing(self, b):
        return [h for h, body in self._loops().items() if b in body]

    def _iteration_counter(self, l, h):
        """("enum_idx", stream) (+ start) when local l counts the iterations of the stream loop at h: initialised with a constant,
        incremented by one exactly once in every iteration, the loop being left only on exhaustion of its single iterator"""
        if not isinstance(l, int) or getattr(self, "_no_counters", False):
            return None
        key = ("counter", l, h)
        if key in self._memo:
            return self._memo[key]
        self._memo[key] = None
        r = None
        fn = self.fn
        if fn.local_ty(l) in ("usize", "u64", "u32", "i32", "i64", "isize"):
            body = self._loops()[h]
            ds = [d for d in self._all_defs(l) if d[0] in body]
            # a scratch builder: this is called from the middle of other evaluations (non-empty recursion stack, half-filled memo)
            sc = TermBuilder(fn, self.prog, self.subst, self.depth)
            sc._no_counters = True
            init = sc._entry_value(l, h, False, through_head=True)
            if len(ds) == 1 and ds[0][2] == "stmt" and init[0] == "const" and isinstance(init[1], int) and not isinstance(init[1], bool):
                upd = sc._exit_value(l, ds[0][0], False)
                lv = ("loopvar", l, h)
                back = [p for p in fn.preds()[h] if p in body]
                if upd == simplify(("op", "Add", (lv, const(1)))) and all(fn.dominates(ds[0][0], b) for b in back):
                    st = sc._for_loop_stream(h)
                    if st is None and init[1] == 0:
                        st = sc._index_loop_collection(l, h)
                    if st is not None:
                        r = ("enum_idx", st) if init[1] == 0 else simplify(("op", "Add", (("enum_idx", st), init)))
                elif init[1] == 0 and upd[0] == "op" and upd[1] == "Add" and len(upd[2]) == 2 and lv in upd[2] and all(fn.dominates(ds[0][0], b) for b in back):
                    # a running offset: `off = 0; for .. { .. off += stride }` with a loop-invariant stride is index * stride
                    stride = [y for y in upd[2] if y != lv]
                    if len(stride) == 1 and not any(z[0] in ("loopvar", "elem", "enum_idx", "clobber", "unknown", "rec") for z in subterms(stride[0])):
                        st = sc._for_loop_stream(h)
                        if st is not None:
                            r = simplify(("op", "Mul", (("enum_idx", st), stride[0])))
            _closure_hook[0] = self._apply_closure_hook
        self._memo[key] = r
        return r

    def _index_loop_collection(self, l, h):
        """`let mut i = 0; while i != v.len() { .. v[i] .. i += 1 }`: the collection whose length bounds counter l in the test at
        the head of loop h (the loop visits v's items in order, so i is the index of the current item)"""
        fn = self.fn
        blk = fn.blocks[h]
        if blk.term.k != "switch":
            # the head may just copy operands; the test sits in its single successor
            return None
        # (evaluated in a scratch builder: terms computed while the counter is still unknown must not end up in this builder's memo)
        scratch = TermBuilder(fn, self.prog, self.subst, self.depth)
        scratch._no_counters = True
        cond = scratch.operand(blk.term.discr, h, len(blk.stmts))
        _closure_hook[0] = self._apply_closure_hook
        lv = ("loopvar", l, h)
        if cond[0] == "op" and cond[1] in ("Ne", "Lt", "Eq") and len(cond[2]) == 2 and lv in cond[2]:
            other = [x for x in cond[2] if x != lv]
            if len(other) == 1 and other[0][0] == "call" and other[0][1].endswith("::len") and len(other[0][2]) == 1:
                if cond[1] != "Lt" or cond[2][0] == lv:
                    return other[0][2][0]
        return None

    def _summarise_finished_loops(self, t, bb):
        """outside a loop, the loop-carried symbol of a vector that the loop only appends to is the collected stream"""
        loops = self._loops()
        m = {}
        for s in subterms(t):
            if s[0] == "loopvar" and s[2] in loops and bb not in loops[s[2]] and s not in m:
                r = self._loop_summary(s[1], s[2])
                if r is not None:
                    m[s] = r
        return subst_term(t, m) if m else t

    def _loop_summary(self, l, h):
        if not isinstance(l, int):
            return None
        key = ("summary", l, h)
        if key in self._memo:
            return self._memo[key]
        self._memo[key] = None          # recursion guard
        r = None
        if self._stack:
            # called from the middle of another evaluation: use a scratch builder (clean recursion stack and memo)
            sc = TermBuilder(self.fn, self.prog, self.subst, self.depth)
            r = sc._loop_summary(l, h)
            _closure_hook[0] = self._apply_closure_hook
            self._memo[key] = r
            return r
        init, upd = self.loop_init(l, h), self.loop_update(l, h)
        if "loopvar" in repr(init):
            init = self._summarise_finished_loops(init, h)      # built up by an earlier loop
        lv = ("loopvar", l, h)
        fresh = init[0] == "call" and init[1] in ("std::vec::Vec::new", "std::vec::Vec::with_capacity", "alloc::vec::Vec::new", "alloc::vec::Vec::with_capacity",
                                                 "std::collections::HashMap::new", "std::collections::HashMap::with_capacity", "std::collections::BTreeMap::new")
        def stateless(t):      # a function of the current item only: no other loop-carried state of this loop
            return not any(x[0] == "loopvar" and x[2] == h for x in subterms(t))
        if fresh and upd[0] == "push" and upd[1] == lv and stateless(upd[2]):
            st = self._for_loop_stream(h)
            if st is not None:
                r = ("call", "std::iter::Iterator::collect", (("map", st, ("lam", elem_of(st), upd[2])),))
        elif upd[0] == "push" and upd[1] == lv and stateless(upd[2]) and init[0] == "call" and init[1].endswith("Iterator::collect") \
                and init[2][0][0] == "map" and init[2][0][2][0] == "lam":
            # a second loop appending f(item) of another stream to the vector a first loop built with the same f: one collect over the chain
            st2 = self._for_loop_stream(h)
            st1, lam1 = init[2][0][1], init[2][0][2]
            if st2 is not None:
                x = ("elem", ("chain", st1, st2))
                b1 = subst_term(lam1[2], {lam1[1]: x})
                b2 = subst_term(upd[2], {elem_of(st2): x})
                if b1 == b2:
                    r = ("call", "std::iter::Iterator::collect", (("map", ("chain", st1, st2), ("lam", x, b1)),))
        elif fresh and upd[0] == "phi" and len(upd[1]) == 2 and lv in upd[1]:
            # the item is appended in some iterations only: a filter, when the append sits under exactly one test of the loop body
            pu = [a for a in upd[1] if a != lv][0]
            st = self._for_loop_stream(h)
            if pu[0] == "push" and pu[1] == lv and stateless(pu[2]) and st is not None:
                pred = self._push_condition(l, h)
                if pred is not None and stateless(pred):
                    el = elem_of(st)
                    src = ("filter", st, ("lam", el, pred))
                    same = pu[2] == el or (pu[2][0] == "tuple" and len(pu[2][1]) == 2 and pu[2][1] == (("tfield", el, 0), ("tfield", el, 1)))
                    r = ("call", "std::iter::Iterator::collect", (src if same else ("map", src, ("lam", el, pu[2])),))
        self._memo[key] = r
        return r

    def _push_condition(self, l, h):
        """the single branch fact under which the loop body appends to local l (None when there is not exactly one)"""
        from .guards import atomic_facts
        fn = self.fn
        body = self._loops()[h]
        sites = [d for d in self._all_defs(l) if d[0] in body and d[2] == "clobber"]
        if len(sites) != 1:
            return None
        pb = sites[0][0]
        base = None
        for b in body:
            t = fn.blocks[b].term
            if t.k == "switch" and fn.blocks[b].stmts and fn.blocks[b].stmts[-1].k == "assign" and fn.blocks[b].stmts[-1].rv.k == "discr":
                n_t, s_t = t.none_some_targets()
                if n_t is not None and n_t not in body and s_t is not None:
                    base = s_t
        if base is None:
            return None
        have = {repr(c): (c, tr) for c, tr in atomic_facts(fn, self.prog, pb, self)}
        for c, tr in atomic_facts(fn, self.prog, base, self):
            have.pop(repr(c), None)
        if len(have) != 1:
            return None
        c, tr = list(have.values())[0]
        return c if tr else simplify(("op", "Not", (c,)))

    def _for_loop_stream(self, h):
        """stream iterated by the `for` loop at head h, when the loop is left only on exhaustion of that stream"""
        fn = self.fn
        body = self._loops()[h]
        its = set()
        nexts = []
        for b in body:
            t = fn.blocks[b].term
            if t.k == "call" and t.callee_decl() == "std::iter::Iterator::next" and len(t.args) == 1:
                a = self.operand(t.args[0], b, len(fn.blocks[b].stmts))
                if a[0] == "loopvar" and a[2] == h:
                    its.add(a)
                    nexts.append((b, t))
        if len(its) != 1 or len(nexts) != 1:
            return None
        # every normal exit edge is the None arm of the switch on that next()'s result
        nb, nt = nexts[0]
        dest = nt.dest.local if nt.dest is not None and nt.dest.is_local() else None
        for b in body:
            for sx in fn.succs(b):
                if sx in body or not fn.can_return(sx):
                    continue
                blk = fn.blocks[b]
                if blk.term.k != "switch":
                    return None
                if blk.term.none_some_targets()[0] != sx:
                    return None
                d = blk.term.discr
                okd = False
                if d.place is not None and d.place.is_local():
                    for stt in blk.stmts:
                        if stt.k == "assign" and stt.place.is_local() and stt.place.local == d.place.local and stt.rv.k == "discr" and stt.rv.place.local == dest:
                            okd = True
                if not okd:
                    return None
        it = next(iter(its))
        return self.loop_init(it[1], it[2])

    _UNSIGNED = ("usize", "u64", "u32", "u16", "u8", "u128")

    def _clamp_idiom(self, preds, alts):
        """Value idioms at the join of a diamond (one test, two arms, each arm giving a value):
          `match v { 0 => 1, o => o }` / `if v == 0 { 1 } else { v }` on an unsigned v   is  max(v, 1);
          `if p == L - 1 { 0 } else { p + 1 }` / `if p + 1 == L { 0 } else { p + 1 }`   is  ring::succ(p, L);
          `if p == 0 { L - 1 } else { p - 1 }` / `match p { 0 => L - 1, _ => p - 1 }`   is  ring::pred(p, L).
        The interval and rule engines have no path conditions on a phi, so these are normalised where the phi is built."""
        fn = self.fn

        def up(b):
            # the switch block above b through a chain of single-predecessor straight-line blocks; returns (switch, entered-at)
            for _ in range(4):
                ps = fn.preds()[b]
                if len(ps) != 1:
                    return None, None
                if fn.blocks[ps[0]].term.k == "switch":
                    return ps[0], b
                b = ps[0]
            return None, None
        (p1, a1), (p2, a2) = zip(preds, alts)
        s1, e1 = up(p1)
        s2, e2 = up(p2)
        if s1 is None or s1 != s2 or e1 == e2:
            # arms with control flow of their own (an early return, calls, nested tests): the test is the switch that immediately
            # dominates the join, each predecessor being reached through exactly one of its edges
            dom = fn.dominators()
            jb = [b for b in fn.succs(p1) if b in fn.succs(p2)]
            s1 = None
            if jb and jb[0] in dom:
                ds = dom[jb[0]] - {jb[0]}
                if ds:
                    sd = max(ds, key=lambda d_: len(dom.get(d_, ())))
                    if fn.blocks[sd].term.k == "switch":
                        def edge_to(p_):
                            es = [e_ for e_ in fn.succs(sd) if e_ == p_ or (p_ in dom and e_ in dom[p_])]
                            return es[0] if len(es) == 1 else None
                        e1, e2 = edge_to(p1), edge_to(p2)
                        if e1 is not None and e2 is not None and e1 != e2:
                            s1 = sd
            if s1 is None:
                return None
        t = fn.blocks[s1].term
        arms = {int(v): b for v, b in t.j["arms"]}
        other = t.j["otherwise"]
        if len(arms) == 2 and fn.blocks[other].term.k == "unreachable" and not fn.blocks[other].stmts:
            # an exhaustive two-arm match (`match opt { None => .., Some(v) => .. }`): the second arm plays the otherwise edge
            (va, ba), (vb, bb_) = sorted(arms.items())
            arms, other = {va: ba}, bb_
        if len(arms) != 1 or {other} | set(arms.values()) != {e1, e2}:
            return None
        d = self.operand(t.discr, s1, len(fn.blocks[s1].stmts))
        dty = t.j.get("discr_ty")
        (v0, b0), = arms.items()
        # (cond, value when cond holds, value when it does not)
        def payload(x):
            # `Some(v) => v` on a checked operation: the payload is the operation's result
            if x[0] == "field" and x[2] == "0" and x[1][0] == "variant" and x[1][2] == "Some" and x[1][1][0] == "call" and x[1][1][1] == "checked":
                return x[1][1][2][0]
            return x
        if d[0] == "call" and d[1] == "discriminant" and d[2][0][0] == "call" and d[2][0][1] == "checked" and v0 in (0, 1) \
                and d[2][0][2][0][0] == "op" and d[2][0][2][0][1] == "Sub" and d[2][0][2][0][2][1] == const(1):
            # `match p.checked_sub(1) { Some(prev) => prev, None => .. }`: None exactly when p == 0
            none_e = b0 if v0 == 0 else other
            cond = ("op", "Eq", (d[2][0][2][0][2][0], const(0)))
            a_true, a_false = (a1 if e1 == none_e else a2), payload(a1 if e1 != none_e else a2)
        elif dty == "bool" and v0 == 0:
            cond, a_true, a_false = d, (a1 if e1 == other else a2), (a1 if e1 == b0 else a2)
        elif dty in self._UNSIGNED:
            cond, a_true, a_false = simplify(("op", "Eq", (d, const(v0)))), (a1 if e1 == b0 else a2), (a1 if e1 == other else a2)
        else:
            return None
        if cond[0] == "op" and cond[1] == "Ne" and len(cond[2]) == 2:
            cond, a_true, a_false = ("op", "Eq", cond[2]), a_false, a_true
        if cond[0] == "op" and cond[1] == "Not" and len(cond[2]) == 1:
            cond, a_true, a_false = cond[2][0], a_false, a_true
        if not (cond[0] == "op" and cond[1] == "Eq" and len(cond[2]) == 2):
            r_ = mk_phi([a_true, a_false])
            if r_[0] == "phi" and len(r_[1]) == 2:
                remember_phi_guard(r_, (cond, a_true, a_false))
            return None
        A, B = cond[2]
        one, zero = const(1), const(0)
        # clamp
        if zero in (A, B) and a_true == one:
            x = B if A == zero else A
            if a_false == x and x[0] != "const" and (dty in self._UNSIGNED or self._unsigned_term(x, s1)):
                return simplify(("op", "max", (x, one)))
        # ring successor
        if a_true == zero and a_false[0] == "op" and a_false[1] == "Add" and len(a_false[2]) == 2 and one in a_false[2]:
            pterm = [y for y in a_false[2] if y != one]
            if len(pterm) == 1:
                pterm = pterm[0]
                cands = [A, B] + [y for z in (A, B) if z[0] == "op" and z[1] in ("Sub", "Add") for y in z[2]]
                for L in cands:
                    if L[0] == "const" or L == pterm:
                        continue
                    # cond  <=>  p + 1 == L
                    if linear_eq(("op", "Sub", (A, B)), ("op", "Sub", (("op", "Add", (pterm, one)), L))) or linear_eq(("op", "Sub", (B, A)), ("op", "Sub", (("op", "Add", (pterm, one)), L))):
                        return ("call", "ring::succ", (pterm, L))
        # ring predecessor
        if zero in (A, B) and a_false[0] == "op" and a_false[1] == "Sub" and len(a_false[2]) == 2 and a_false[2][1] == one \
                and a_true[0] == "op" and a_true[1] == "Sub" and len(a_true[2]) == 2 and a_true[2][1] == one:
            pterm = B if A == zero else A
            if a_false[2][0] == pterm and a_true[2][0][0] != "const":
                return ("call", "ring::pred", (pterm, a_true[2][0]))
        # no value idiom: the join stays a phi, but the test that selects between its two values is remembered
        r_ = mk_phi([a_true, a_false])
        if r_[0] == "phi" and len(r_[1]) == 2:
            remember_phi_guard(r_, (cond, a_true, a_false))
        return None

    def _unsigned_term(self, t, bb):
        if t[0] == "cast":
            return t[1] in self._UNSIGNED
        if t[0] == "param":
            return self.fn.local_ty(t[1]) in self._UNSIGNED
        if t[0] == "call" and t[1].endswith("::len"):
            return True
        # the compared operand's MIR type
        blk = self.fn.blocks[bb]
        d = blk.term.discr
        if d.place is not None and d.place.is_local():
            for st in reversed(blk.stmts):
                if st.k == "assign" and st.place.is_local() and st.place.local == d.place.local and st.rv.k == "binop":
                    for o in st.rv.ops:
                        if o.place is not None and o.place.is_local():
                            return self.fn.local_ty(o.place.local) in self._UNSIGNED
                    break
        return False

    def _local(self, l, bb, idx, ignore_clobber=False):
        """term of local l just before statement idx of block bb.
        Loop-carried locals are cut at loop heads: inside (or after) a loop that redefines l,
        the value flowing around the back edge is the symbol ("loopvar", l, head)."""
        best = None
        for d in self._all_defs(l):
            if d[0] == bb and d[1] < idx:
                if ignore_clobber and d[2] == "clobber":
                    continue
                if best is None or d[1] > best[1]:
                    best = d
        if best is not None:
            return self._def_term(l, best)
        return self._entry_value(l, bb, ignore_clobber)

    def _exit_value(self, l, bb, ignore_clobber):
        last = None
        for d in self._all_defs(l):
            if d[0] == bb and not (ignore_clobber and d[2] == "clobber"):
                if last is None or d[1] > last[1]:
                    last = d
        if last is not None:
            return self._def_term(l, last)
        return self._entry_value(l, bb, ignore_clobber)

    def _entry_value(self, l, bb, ignore_clobber, through_head=False):
        mk = ("entry", l, bb, ignore_clobber, through_head)
        if mk in self._memo:
            return self._memo[mk]
        fn = self.fn
        loops = self._loops()
        preds = fn.preds()[bb]
        if bb in loops and not through_head and self.defined_in_loop(l, bb):
            r = ("loopvar", l, bb)
            self._memo[mk] = r
            return r
        if bb in loops:
            # loop-invariant local (or explicit request for the initial value): outside preds only
            body = loops[bb]
            preds = [p for p in preds if p not in body]
        sk = ("E", l, bb)
        if sk in self._stack:
            return ("rec", l)
        self._stack.append(sk)
        try:
            alts = []
            if bb == 0:
                alts.append(self._def_term(l, ("entry",)))
            for p in preds:
                alts.append(self._exit_value(l, p, ignore_clobber))
            r = mk_phi(alts) if alts else ("unknown", "no-def _%d" % l)
            if r[0] == "phi" and len(alts) == 2 and len(preds) == 2 and bb != 0:
                r = self._clamp_idiom(preds, alts) or r
        finally:
            self._stack.pop()
        if not any(s[0] == "rec" for s in subterms(r)):
            self._memo[mk] = r
        return r

    def loop_init(self, l, head):
        """value of loop-carried local l on first entry of the loop"""
        if isinstance(l, tuple):       # component i of a loop-carried tuple / field of a loop-carried struct
            return simplify(("tfield" if isinstance(l[1], int) else "field", self.loop_init(l[0], head), l[1]))
        return self._entry_value(l, head, False, through_head=True)

    def loop_update(self, l, head):
        """value of l flowing around the back edge(s), in terms of ("loopvar", l, head)"""
        if isinstance(l, tuple):
            return _resimplify(("tfield" if isinstance(l[1], int) else "field", self.loop_update(l[0], head), l[1]))
        body = self._loops()[head]
        alts = [self._exit_value(l, p, False) for p in self.fn.preds()[head] if p in body]
        return mk_phi(alts) if alts else ("unknown", "no-backedge")

    def _def_term(self, l, d):
        if d == ("entry",):
            if 1 <= l <= self.fn.arg_count:
                if l in self.subst:
                    return self.subst[l]
                return ("param", l, self.fn.local_name(l))
            return ("unknown", "uninit _%d" % l)
        b, i, kind, obj = d
        sk = (l, b, i)
        if sk in self._stack:
            return ("rec", l)
        if len(self._stack) > 60:
            return ("unknown", "too-deep")
        self._stack.append(sk)
        try:
            if kind == "clobber":
                return self._clobber_term(l, b, i)
            if kind == "stmt":
                return self.rvalue(obj.rv, b, i)
            if kind == "call":
                return self.call_term(obj, b)
        finally:
            self._stack.pop()
        return ("unknown", "def-kind")

    def _with_partial_defs(self, l, t, bb, idx):
        """apply field stores `_l.f = v` that lie between the whole-local definition and the use (same block before idx,
        or in a block dominating the use) to an aggregate term"""
        pds = self.fn.partial_defs(l)
        if not pds or t[0] != "adt":
            return t
        apply = []
        for (b, i, st) in pds:
            if len(st.place.proj) != 1 or st.place.proj[0]["k"] != "field":
                continue
            if (b == bb and i < idx) or (b != bb and self.fn.dominates(b, bb)):
                apply.append((b, i, st))
        if not apply:
            return t
        order = {b: n for n, b in enumerate(self.fn.rpo())}
        apply.sort(key=lambda x: (order.get(x[0], 0), x[1]))
        fields = list(t[3])
        for (b, i, st) in apply:
            name = st.place.proj[0].get("name") or str(st.place.proj[0]["i"])
            key = ("P", l, b, i)
            if key in self._stack:
                continue
            self._stack.append(key)
            try:
                v = self.rvalue(st.rv, b, i)
            finally:
                self._stack.pop()
            fields = [(n, v if n == name else x) for n, x in fields]
        return ("adt", t[1], t[2], tuple(fields))

    def _clobber_term(self, l, b, i):
        """value of local l after `&mut l` (created at statement i of block b) was handed to a callee.
        For a crate-local callee the result is the deterministic symbol  <callee>::out<k>(args...)  (the callee's
        out-parameter as a function of its inputs); for anything else it stays an opaque clobber."""
        fn = self.fn
        blk = fn.blocks[b]
        st = blk.stmts[i]
        ref_local = st.place.local if st.place.is_local() else None
        t = blk.term
        if ref_local is not None and t.k == "call" and not t.callee_is_local() and t.callee_name() in IN_PLACE_PERMUTATIONS:
            return self.local(l, b, i)     # same elements, other order: streams are compared as multisets
        if t.k == "call" and t.callee_name() in ("deref_mut", "as_mut_slice", "as_mut") and not t.callee_is_local():
            # `&mut v` -> `&mut [T]` on the way to an in-place permutation in the next block
            nb = t.j.get("target")
            if nb is not None and self.fn.blocks[nb].term.k == "call" and self.fn.blocks[nb].term.callee_name() in IN_PLACE_PERMUTATIONS:
                return self.local(l, b, i)
        if ref_local is not None and t.k == "call" and t.callee_decl() in ("std::iter::Iterator::next", "std::iter::Iterator::by_ref") and len(t.args) == 1 \
                and t.args[0].place is not None and t.args[0].place.is_local() and not self._loops_containing(b):
            # outside loops, taking the first item of an iterator local leaves "the same stream" as far as the rules are concerned:
            # `first = it.next().unwrap(); it.fold(first, min)` visits every item (the first one twice, harmless for min/max/all)
            aliases0 = {ref_local}
            for sj in range(i + 1, len(blk.stmts)):
                s2 = blk.stmts[sj]
                if s2.k == "assign" and s2.place.is_local() and s2.rv.k in ("ref", "use") and (s2.rv.place or (s2.rv.ops[0].place if s2.rv.ops else None)) is not None:
                    pl = s2.rv.place or s2.rv.ops[0].place
                    if pl.local in aliases0:
                        aliases0.add(s2.place.local)
            if t.args[0].place.local in aliases0:
                before0 = self.local(l, b, i)
                # by_ref() leaves the iterator as it is; next() leaves "the stream without its first item"
                return before0 if t.callee_decl().endswith("by_ref") else ("rest", before0)
        if fn.local_ty(l).startswith(("std::cell::RefMut<", "std::cell::Ref<", "&")):
            # `&mut guard` (for DerefMut): what may change is the structure behind the guard, whose term is a place — the guard
            # itself still denotes the same place
            return self.local(l, b, i)
        # the borrow may be consumed a few straight-line blocks later (other arguments are evaluated in between):
        # follow the aliases of the reference to the call that takes it
        aliases = {ref_local} if ref_local is not None else set()
        cb, cblk, si = b, blk, i + 1
        use = None
        for _ in range(10):
            for sj in range(si, len(cblk.stmts)):
                s2 = cblk.stmts[sj]
                if s2.k == "assign" and s2.place.is_local() and s2.rv.k in ("ref", "use") and (s2.rv.place or (s2.rv.ops[0].place if s2.rv.ops else None)) is not None:
                    pl = s2.rv.place or s2.rv.ops[0].place
                    if pl.local in aliases:
                        aliases.add(s2.place.local)
            ct = cblk.term
            if ct.k == "call" and any(a.place is not None and a.place.is_local() and a.place.local in aliases for a in ct.args):
                use = (cb, cblk, ct)
                break
            if cb != b and len(fn.preds()[cb]) != 1:
                break
            nxt = ct.succs()
            if ct.k not in ("call", "assert", "goto") or len(nxt) != 1:
                break
            cb, cblk, si = nxt[0], fn.blocks[nxt[0]], 0
        if use is None:
            return ("clobber", l)
        cb, cblk, t = use
        argi = None
        for k, a in enumerate(t.args):
            if a.place is not None and a.place.is_local() and a.place.local in aliases:
                argi = k
        if t.callee_decl() in ("std::vec::Vec::push", "alloc::vec::Vec::push") and len(t.args) == 2 and argi == 0 and not self.fn.local_ty(l).startswith("&"):
            # v.push(x): the vector after the call is the vector before it with x appended
            return ("push", self.local(l, b, i), self.operand(t.args[1], cb, len(cblk.stmts)))
        if t.callee_decl() in ("std::collections::HashMap::insert", "std::collections::BTreeMap::insert") and len(t.args) == 3 and argi == 0 \
                and not self.fn.local_ty(l).startswith("&"):
            # m.insert(k, v) on a map that is only built up: the map afterwards holds the pair as well
            return ("push", self.local(l, b, i), ("tuple", (self.operand(t.args[1], cb, len(cblk.stmts)), self.operand(t.args[2], cb, len(cblk.stmts)))))
        dcl = t.callee_decl() or ""
        if dcl == "std::mem::replace" and argi == 0 and len(t.args) == 2:
            return self.operand(t.args[1], cb, len(cblk.stmts))          # the local now holds the replacement
        if dcl == "std::mem::take" and argi == 0:
            return ("call", "std::default::Default::default", ())
        if dcl in ("std::vec::Vec::append", "alloc::vec::Vec::append") and len(t.args) == 2 and not fn.local_ty(l).startswith("&"):
            if argi == 0:
                # a.append(&mut b): a afterwards holds its items followed by b's
                return ("chain", self.local(l, b, i), self.operand(t.args[1], cb, len(cblk.stmts)))
            return ("call", "std::vec::Vec::new", ())
        lty = fn.local_ty(l)
        if not t.callee_is_local() and not lty.startswith("&") and (lty.endswith("Hasher") or lty.endswith("Hasher>")) and "BuildHasher" not in lty.split("::")[-1]:
            # a hasher absorbing input (`hasher.write_usize(i)`, `obj.hash(&mut hasher)`): its state afterwards is a function of its
            # state before and of what was fed to it
            others = tuple(self.operand(a, cb, len(cblk.stmts)) for k, a in enumerate(t.args) if k != argi)
            return ("call", "absorb:" + (t.callee_name() or "?"), (self.local(l, b, i),) + others)
        if not t.callee_is_local() or self.prog is None or self.prog.fn(t.callee()) is None:
            return ("clobber", l)
        before = self.local(l, b, i)   # value of l before the borrow
        args = []
        for k, a in enumerate(t.args):
            if k == argi:
                args.append(before)
            else:
                args.append(self.operand(a, cb, len(cblk.stmts)))
        upd = self._apply_field_stores(t.callee(), argi, before, args)
        if upd is not None:
            return upd
        upd = self._apply_scalar_store(t.callee(), argi, args)
        if upd is not None:
            return upd
        return ("call", "%s::out%d" % (t.callee(), argi + 1), tuple(args))

    _SCALAR_REFS = ("&mut usize", "&mut u64", "&mut u32", "&mut u16", "&mut u8", "&mut isize", "&mut i64", "&mut i32", "&mut bool", "&mut f64")

    def _apply_scalar_store(self, callee, argi, args):
        """`fn incr(&self, pos: &mut usize) { *pos = if *pos == self.len() - 1 { 0 } else { *pos + 1 } }`: a small loop-free helper
        with exactly one store through its `&mut <scalar>` parameter, executed on every path — the value afterwards is the stored
        term over the arguments, when that term is free of joins (value idioms such as the ring successor are recognised first)."""
        if self.prog is None or self.depth >= 3:
            return None
        g = self.prog.fn(callee)
        if g is None or g.loop_heads() or len(g.blocks) > 16:
            return None
        p = argi + 1
        if g.local_ty(p) not in self._SCALAR_REFS:
            return None
        key = ("scalar-out", callee, argi)
        nb = [(bi, blk) for bi, blk in enumerate(g.blocks) if not blk.cleanup]
        stores = []
        for bi, blk in nb:
            if blk.term.k == "call" and any(a.place is not None and a.place.local == p for a in blk.term.args):
                return None
            for si, st in enumerate(blk.stmts):
                if st.k != "assign":
                    continue
                if st.place.local == p and st.place.proj:
                    if len(st.place.proj) == 1 and st.place.proj[0]["k"] == "deref":
                        stores.append((bi, si, st))
                    else:
                        return None
                elif st.rv.k in ("ref", "rawptr") and st.rv.place is not None and st.rv.place.local == p and st.rv.j.get("bk") == "mut":
                    return None
                elif st.rv.k == "use" and st.rv.ops and st.rv.ops[0].place is not None and st.rv.ops[0].place.local == p and not st.rv.ops[0].place.proj:
                    return None     # the pointer is copied
        if not stores:
            return None
        rets = [b for b, blk in nb if blk.term.k == "return"]
        if len(rets) != 1:
            return None
        sub = {i + 1: a for i, a in enumerate(args)}
        if len(stores) == 1 and g.dominates(stores[0][0], rets[0]):
            bi, si, st = stores[0]
            tbg = TermBuilder(g, self.prog, sub, self.depth + 1)
            v = tbg.rvalue(st.rv, bi, si)
        else:
            # stores on several paths (`if .. { *pos = 0 } else { *pos += 1 }`): promote the pointee to a local — every `*p` becomes a
            # fresh local that starts as the value passed in — and take that local's value at the return (joins and their value
            # idioms are then handled like for any other local)
            import copy as _copy
            from .ir import Fn as _Fn
            gj = _copy.deepcopy({k: v_ for k, v_ in g.j.items() if k != "promoted"})
            gj["promoted"] = g.j.get("promoted", [])
            N = len(gj["locals"])
            pointee = g.local_ty(p)[5:]
            gj["locals"].append({"ty": pointee, "tyj": {"k": "prim", "name": pointee}, "mut": True})

            def rewrite(x):
                if isinstance(x, dict):
                    if x.get("local") == p and isinstance(x.get("proj"), list) and len(x["proj"]) == 1 and x["proj"][0].get("k") == "deref":
                        x["local"], x["proj"] = N, []
                    for v_ in x.values():
                        rewrite(v_)
                elif isinstance(x, list):
                    for v_ in x:
                        rewrite(v_)
            rewrite(gj["blocks"])
            sp = gj["blocks"][0]["stmts"][0]["span"] if gj["blocks"][0]["stmts"] else gj["span"]
            gj["blocks"][0]["stmts"].insert(0, {"k": "assign", "place": {"local": N, "proj": []},
                                                "rv": {"k": "use", "op": {"k": "copy", "place": {"local": p, "proj": [{"k": "deref"}]}}}, "span": sp})
            g2 = _Fn(gj, self.prog)
            tbg = TermBuilder(g2, self.prog, sub, self.depth + 1)
            v = tbg.local(N, rets[0], len(g2.blocks[rets[0]].stmts))
        _closure_hook[0] = self._apply_closure_hook
        if any(x[0] in ("unknown", "rec", "clobber", "phi") for x in subterms(v)):
            return None
        return v

    def _apply_field_stores(self, callee, argi, before, args):
        """`let mut s = S { a, b }; s.reset_b();` — when the helper only performs unconditional whole-field stores through its
        `&mut` parameter (no loops, no other calls taking it), the struct afterwards is the aggregate with those fields replaced"""
        if self.prog is None or self.depth >= 3:
            return None
        g = self.prog.fn(callee)
        if g is None or g.loop_heads() or len(g.blocks) > 12:
            return None
        p = argi + 1
        if before[0] != "adt":
            # a struct value that is not a literal (a loop-carried `current`): spell it out field by field, so that
            # `current.absorb(&next)` (in-place `count += ..; sum += ..`) becomes the aggregate of the updated fields
            tyj = (g.locals[p].get("tyj") or {})
            tyj = tyj.get("ty") if tyj.get("k") == "ref" else tyj
            a_ = self.prog.adts.get((tyj or {}).get("def")) if (tyj or {}).get("k") == "adt" and (tyj or {}).get("local") else None
            if a_ is None or len(a_.get("variants", [])) != 1 or a_.get("kind") != "Struct" or before[0] in ("unknown", "clobber", "rec"):
                return None
            before = ("adt", a_["key"], a_["variants"][0]["name"], tuple((fl["name"], simplify(("field", before, fl["name"]))) for fl in a_["variants"][0]["fields"]))
            args = list(args)
            args[argi] = before
        nb = [(bi, blk) for bi, blk in enumerate(g.blocks) if not blk.cleanup]
        if any(blk.term.k not in ("return", "goto", "drop", "assert", "call") for _, blk in nb):
            return None
        stores = {}
        sub = {i + 1: a for i, a in enumerate(args)}
        tbg = TermBuilder(g, self.prog, sub, self.depth + 1)
        for bi, blk in nb:
            if blk.term.k == "call" and any(a.place is not None and a.place.local == p for a in blk.term.args):
                _closure_hook[0] = self._apply_closure_hook
                return None
            for si, st in enumerate(blk.stmts):
                if st.k == "assign" and st.place.local == p and st.place.proj:
                    pr = st.place.proj
                    if len(pr) == 2 and pr[0]["k"] == "deref" and pr[1]["k"] == "field" and pr[1].get("name"):
                        stores[pr[1]["name"]] = tbg.rvalue(st.rv, bi, si)
                    else:
                        _closure_hook[0] = self._apply_closure_hook
                        return None
                elif st.k == "assign" and st.rv.k in ("ref", "rawptr") and st.rv.place is not None and st.rv.place.local == p and st.rv.j.get("bk") == "mut":
                    _closure_hook[0] = self._apply_closure_hook
                    return None
        _closure_hook[0] = self._apply_closure_hook
        if not stores or any(x[0] in ("unknown", "rec", "clobber") for v in stores.values() for x in subterms(v)):
            return None
        names = {n for n, _ in before[3]}
        if not set(stores) <= names:
            return None
        return ("adt", before[1], before[2], tuple((n, stores.get(n, v)) for n, v in before[3]))

    def _forwarded_store(self, p, bb, idx):
        """`*r` read after `*r = v` through the same `&mut` scalar pointer r obtained inside this function (an entry's get_mut, an
        iterator item, ...): the value read is v. Sound because r is unique while it is live; the search gives up at anything that
        could write through r another way (a reborrow handed to a call, a join point)."""
        fn = self.fn
        l = p.local
        ty = fn.local_ty(l)
        if len(p.proj) != 1 or p.proj[0]["k"] != "deref" or not ty.startswith("&mut ") or l <= fn.arg_count \
                or ty[5:].lstrip("'_ ") not in ("usize", "u64", "u32", "u16", "u8", "i64", "i32", "isize", "bool", "f64", "f32"):
            return None
        b, i = bb, idx
        for _ in range(8):
            blk = fn.blocks[b]
            for si in range(min(i, len(blk.stmts)) - 1, -1, -1):
                st = blk.stmts[si]
                if st.k != "assign":
                    continue
                if st.place.local == l and len(st.place.proj) == 1 and st.place.proj[0]["k"] == "deref":
                    return self.rvalue(st.rv, b, si)
                if st.place.is_local() and st.place.local == l:
                    return None          # the pointer itself is (re)defined here
                if st.rv.k in ("ref", "rawptr") and st.rv.place is not None and st.rv.place.local == l:
                    return None          # reborrowed: may be written through the reborrow
            preds = fn.preds()[b]
            if len(preds) != 1 or b in self._loops():
                return None
            pb = preds[0]
            pt = fn.blocks[pb].term
            if pt.k == "call" and any(a.place is not None and a.place.local == l for a in pt.args):
                return None
            if pt.k not in ("call", "assert", "goto", "drop", "switch"):
                return None
            b, i = pb, len(fn.blocks[pb].stmts)
        return None

    def place(self, p, bb, idx, ignore_clobber=False):
        if self.fn.kind != "Promoted":
            fw = self._forwarded_store(p, bb, idx)
            if fw is not None:
                return fw
        t = self.local(p.local, bb, idx, ignore_clobber)
        if self.fn.kind != "Promoted":
            t = self._with_partial_defs(p.local, t, bb, idx)
        for pr in p.proj:
            k = pr["k"]
            if k == "deref":
                continue
            if k == "field":
                nm = pr.get("name")
                if pr.get("adt") is None or nm is None:
                    # tuple / closure-env field
                    if t[0] == "closure_env":
                        t = simplify(("field", t, str(pr["i"])))
                    else:
                        t = simplify(("tfield", t, pr["i"]))
                else:
                    t = simplify(("field", t, nm))
            elif k == "index":
                ix = self.local(pr["local"], bb, idx)
                t = ("elem", t) if ix == ("enum_idx", t) else ("index", t, ix)
            elif k == "downcast":
                t = simplify(("variant", t, pr.get("name") or str(pr["v"])))
            elif k == "constindex":
                t = ("index", t, const(pr["offset"] if not pr["from_end"] else -pr["offset"]))
            else:
                t = ("unknown", "proj:" + k)
        return t

    def operand(self, o, bb, idx):
        if o.place is not None:
            return self.place(o.place, bb, idx)
        if o.k == "const":
            v = o.value()
            if v is not None:
                return const(v)
            fnj = o.fn()
            if fnj is not None:
                return ("fnref", fnj.get("resolved") or fnj["def"])
            s = o.j["s"]
            ty = o.j["ty"]
            m = _PROMOTED_RE.search(s)
            if m and self.depth < 4:
                i = int(m.group(1))
                if i < len(self.fn.promoted):
                    tb = TermBuilder(self.fn.promoted[i], self.prog, depth=self.depth + 1)
                    r = tb.return_term()
                    _closure_hook[0] = self._apply_closure_hook
                    return r
            # named constants of the crate: `const filters::cuckoofilter::MAX_NUM_KICKS`
            nm = s[6:] if s.startswith("const ") else s
            cv = self.prog.const_value(nm) if self.prog is not None else None
            if cv is not None and not isinstance(cv, list):
                return const(cv)
            if ty == "()" or s == "const ()":
                return ("tuple", ())
            if ty.startswith("&") and ty.endswith("str") and '"' in s:
                return const(s[s.index('"') + 1: s.rindex('"')])
            return ("namedconst", nm)
        return ("unknown", "operand:" + o.k)

    def rvalue(self, rv, bb, idx):
        k = rv.k
        if k == "use":
            return self.operand(rv.ops[0], bb, idx)
        if k in ("ref", "rawptr", "copyforderef"):
            return self.place(rv.place, bb, idx, ignore_clobber=(rv.j.get("bk") == "mut"))
        if k == "binop":
            a = self.operand(rv.ops[0], bb, idx)
            b = self.operand(rv.ops[1], bb, idx)
            return simplify(("op", rv.j["op"], (a, b)))
        if k == "unop":
            a = self.operand(rv.ops[0], bb, idx)
            name = rv.j["op"]
            if name == "PtrMetadata":
                return ("call", "len", (a,))
            return simplify(("op", name, (a,)))
        if k == "cast":
            a = self.operand(rv.ops[0], bb, idx)
            ck = rv.j["ck"]
            ty = rv.j["ty"]
            if ck == "IntToInt":
                src = rv.ops[0].ty() if rv.ops[0].k == "const" else (self.fn.local_ty(rv.ops[0].place.local) if rv.ops[0].place.is_local() else None)
                wide = {"usize", "u64"}
                if ty in wide and (src in wide or src in ("u32", "u16", "u8")):
                    return a  # lossless on 64-bit targets
                return simplify(("cast", ty, a))
            if ck in ("FloatToInt", "IntToFloat", "FloatToFloat"):
                return simplify(("cast", ty, a))
            return a  # pointer coercions, transmute of refs etc. are value-transparent here
        if k == "discr":
            return ("call", "discriminant", (self.place(rv.place, bb, idx),))
        if k == "aggregate":
            ops = [self.operand(o, bb, idx) for o in rv.ops]
            ak = rv.j["ak"]
            if ak == "tuple":
                return ("tuple", tuple(ops))
            if ak == "adt":
                fs = rv.j["fields"]
                return ("adt", rv.j["adt"], rv.j["variant"], tuple((fs[i] if i < len(fs) else str(i), o) for i, o in enumerate(ops)))
            if ak == "closure":
                return ("closure", rv.j["def"], tuple(ops))
            if ak == "array":
                return ("array", tuple(ops))
            return ("unknown", "aggregate")
        if k == "repeat":
            return ("call", "repeat", (self.operand(rv.ops[0], bb, idx), ("unknown", rv.j["n"])))
        return ("unknown", "rvalue:" + k)

    def call_term(self, term, bb):
        idx = len(self.fn.blocks[bb].stmts)
        args = [self.operand(a, bb, idx) for a in term.args]
        if term.callee_name() in RNG_DRAWS:
            # every draw is a distinct value: tag with the call site
            return ("call", term.callee(), tuple(args) + (("site", self.fn.key, bb),))
        return self.interpret_call(term, args)

    def interpret_call(self, term, args):
        decl = term.callee_decl()
        name = term.callee_name()
        callee = term.callee()
        # value-transparent wrappers
        if name in TRANSPARENT and len(args) == 1 and (decl.startswith(TRANSPARENT_DECLS_PREFIX) or name in ("iter", "iter_mut", "clone", "deref", "deref_mut", "borrow", "borrow_mut", "into_iter", "cloned", "copied", "by_ref", "as_ref")):
            return args[0]
        if decl in ("std::rc::Rc::new", "std::boxed::Box::new", "std::convert::From::from", "std::convert::Into::into") and len(args) == 1:
            return args[0]
        # a whole-vector view: v.as_slice(), v.as_mut_slice(), &v[..]
        if decl in ("std::vec::Vec::as_slice", "std::vec::Vec::as_mut_slice", "alloc::vec::Vec::as_slice", "alloc::vec::Vec::as_mut_slice") and len(args) == 1:
            return args[0]
        if decl in ("std::ops::Index::index", "std::ops::IndexMut::index_mut") and len(args) == 2 and args[1][0] == "adt" and args[1][1] == "std::ops::RangeFull":
            return args[0]
        if decl == "fixedbitset::FixedBitSet::contains" and len(args) == 2:
            return ("index", args[0], args[1])          # bs.contains(i) is what bs[i] is defined as
        if decl == "std::collections::BTreeSet::pop_first" and len(args) == 1:
            return ("adt", "std::option::Option", "Some", (("0", elem_of(args[0])),))     # the smallest element (removal: path events)
        # std::mem::take(&mut x) / std::mem::replace(&mut x, v) return the value x held (references are value-transparent)
        if decl in ("std::mem::take", "std::mem::replace") and args:
            return args[0]
        # checked arithmetic
        if name in CHECKED and len(args) == 2:
            return ("call", "checked", (simplify(("op", CHECKED[name], tuple(args))),))
        if name in UNWRAPS and args and args[0][0] == "call" and args[0][1] == "checked":
            return args[0][2][0]
        if name in UNWRAPS and args and args[0][0] == "adt" and args[0][2] in ("Some", "Ok") and len(args[0][3]) == 1:
            return args[0][3][0][1]
        # `c.then(|| x).unwrap_or(d)`, `c.then_some(x).unwrap_or(d)`: x when c holds, else d.  The join is a phi like any other; the
        # test that selects between the alternatives is remembered in PHI_GUARD for the rules that check the selecting fact.
        if name == "unwrap_or" and len(args) == 2 and args[0][0] == "call" and args[0][1] in ("bool::then", "bool::then_some") and len(args[0][2]) == 2:
            c, x = args[0][2]
            if args[0][1] == "bool::then":
                x = apply_closure(x, ()) if x[0] == "closure" else ("call", "<apply>", (x,))
            if not (x[0] == "call" and x[1] == "<apply>"):
                r = mk_phi([x, args[1]])
                if r[0] == "phi":
                    remember_phi_guard(r, (c, x, args[1]))
                return r
        # `a.checked_op(b).map_or(d, |v| g(v))`: g(a op b) when the operation does not overflow, else d
        if decl == "std::option::Option::map_or" and len(args) == 3 and args[0][0] == "call" and args[0][1] == "checked" and args[2][0] == "closure":
            y = apply_closure(args[2], (args[0][2][0],))
            if not (y[0] == "call" and y[1] == "<apply>"):
                r = mk_phi([y, args[1]])
                if r[0] == "phi":
                    remember_phi_guard(r, (("call", "checked_ok", (args[0][2][0],)), y, args[1]))
                return r
        if name == "unwrap_or" and len(args) == 2 and args[0][0] == "adt" and args[0][2] in ("Some", "Ok") and len(args[0][3]) == 1:
            return args[0][3][0][1]
        if name == "unwrap_or" and len(args) == 2 and args[0][0] == "adt" and args[0][2] == "None":
            return args[1]
        # float / int intrinsics as operators
        if name in FLOAT_METHODS and (decl.startswith("std::f64::") or decl.startswith("std::f32::") or decl.startswith("core::f64") or decl.startswith("f64::")):
            return simplify(("op", name, tuple(args)))
        if name in ("min", "max") and len(args) == 2:
            return simplify(("op", name, tuple(args)))
        if name in ("saturating_add", "saturating_sub", "saturating_mul") and len(args) == 2 and decl.split("::")[0] in ("usize", "u64"):
            # 64-bit bookkeeping arithmetic made saturating: equal to the exact operation on every input on which the exact operation
            # did not overflow (a 64-bit counter of events does not; an underflowing `-` panicked or wrapped before)
            return simplify(("op", {"saturating_add": "Add", "saturating_sub": "Sub", "saturating_mul": "Mul"}[name], tuple(args)))
        if name in INT_METHODS and (decl.startswith("core::num::") or decl.startswith("std::num::") or decl.split("::")[0] in ("usize", "u64", "u32", "u8", "u16", "i32", "i64", "isize")):
            return simplify(("op", name, tuple(args)))
        if name == "size_of":
            return ("call", "size_of", (("unknown", str(term.func.get("args"))),))
        # operators on overloaded types
        if decl == "std::ops::Index::index" or decl == "std::ops::IndexMut::index_mut":
            if args[1] == ("enum_idx", args[0]):
                return ("elem", args[0])      # v[i] with i the index of the current item of v
            return ("index", args[0], args[1])
        if decl == "std::ops::BitOr::bitor":
            return simplify(("op", "BitOr", tuple(args)))
        if decl == "std::ops::BitAnd::bitand":
            return simplify(("op", "BitAnd", tuple(args)))
        if decl == "std::ops::BitXor::bitxor":
            return simplify(("op", "BitXor", tuple(args)))
        if decl == "std::ops::Add::add":
            return simplify(("op", "Add", tuple(args)))
        if decl == "std::cmp::PartialEq::eq":
            return simplify(("op", "Eq", tuple(args)))
        if decl == "std::cmp::PartialEq::ne":
            return simplify(("op", "Ne", tuple(args)))
        if decl == "std::cmp::PartialOrd::lt":
            return simplify(("op", "Lt", tuple(args)))
        if decl == "std::cmp::PartialOrd::le":
            return simplify(("op", "Le", tuple(args)))
        if decl == "std::cmp::PartialOrd::gt":
            return simplify(("op", "Gt", tuple(args)))
        if decl == "std::cmp::PartialOrd::ge":
            return simplify(("op", "Ge", tuple(args)))
        # streams
        if decl == "std::iter::Iterator::map" and len(args) == 2:
            return ("map", args[0], args[1])
        if decl == "std::iter::Iterator::enumerate":
            return ("enumerate", args[0])
        if decl == "std::iter::Iterator::zip":
            return ("zip", args[0], args[1])
        if decl == "std::iter::Iterator::filter":
            return ("filter", args[0], args[1])
        if decl == "std::iter::Iterator::rev":
            return ("rev", args[0])
        if decl == "std::iter::Iterator::chain":
            return ("chain", args[0], args[1])
        if decl == "std::iter::Iterator::next" and len(args) == 1:
            # Option<Item>: model as Some(elem); the iterator local of a `for` loop is the
            # loop-carried state of the stream, so its items are the items of its initial value
            if args[0][0] == "loopvar":
                args = [self.loop_init(args[0][1], args[0][2])]
            return ("adt", "std::option::Option", "Some", (("0", elem_of(args[0])),))
        if decl in ("[T]::split_first", "core::slice::<impl [T]>::split_first", "std::slice::<impl [T]>::split_first") and len(args) == 1:
            # Some((&v[0], &v[1..])) for a non-empty slice (emptiness is the None arm of the caller's match)
            rest_ = ("index", args[0], ("adt", "std::ops::RangeFrom", "RangeFrom", (("start", const(1)),)))
            return ("adt", "std::option::Option", "Some", (("0", ("tuple", (("index", args[0], const(0)), rest_))),))
        if decl == "std::collections::BTreeSet::first" and len(args) == 1:
            return ("adt", "std::option::Option", "Some", (("0", elem_of(args[0])),))     # the smallest element == iter().next()
        # first / last element of a slice
        if decl in ("[T]::first", "core::slice::<impl [T]>::first", "std::slice::<impl [T]>::first") and len(args) == 1:
            return ("adt", "std::option::Option", "Some", (("0", ("index", args[0], const(0))),))
        if decl in ("[T]::last", "core::slice::<impl [T]>::last", "std::slice::<impl [T]>::last") and len(args) == 1:
            return ("adt", "std::option::Option", "Some", (("0", ("index", args[0], simplify(("op", "Sub", (("call", "std::vec::Vec::len", (args[0],)), const(1)))))),))
        # calling a closure value: f(a, b) is Fn::call(&f, (a, b))
        if decl in ("std::ops::Fn::call", "std::ops::FnMut::call_mut", "std::ops::FnOnce::call_once") and len(args) == 2 and args[0][0] == "closure" and args[1][0] == "tuple":
            r = apply_closure(args[0], args[1][1])
            if not (r[0] == "call" and r[1] == "<apply>"):
                return r
        # crate-local straight-line pure helpers (getters, tiny arithmetic helpers) are inlined
        r = self._inline_local(term, callee, args)
        if r is not None:
            return r
        return ("call", callee, tuple(args))

    def _inline_local(self, term, callee, args):
        if self.depth >= 3 or self.prog is None or not term.callee_is_local():
            return None
        cf = self.prog.fn(callee)
        if cf is None or cf.kind == "Closure":
            return None
        key = ("inl", callee)
        ok = _INLINE_OK.get(key)
        if ok is None:
            nb = [b for b in cf.blocks if not b.cleanup]
            def no_param_stores():
                for b in nb:
                    for st in b.stmts:
                        if st.k == "assign" and st.place.proj and st.place.proj[0]["k"] == "deref" and 1 <= st.place.local <= cf.arg_count:
                            return False
                return True
            # straight-line helpers without stores through their parameters whose calls are all external library calls
            # (they stay uninterpreted symbols of the term) or in the table of local getters: crate-local functions that the
            # rule templates name explicitly (start, iter_for, scan, count, ...) are NOT inlined
            safe = INLINE_SAFE_CALLEES | FLOAT_METHODS | INT_METHODS | RNG_DRAWS
            PANICS = ("core::panicking::", "std::rt::panic_fmt", "std::rt::begin_panic", "std::fmt::Arguments::", "core::fmt::rt::Argument::")
            def diverging_or_fmt(b):
                d = b.term.callee_decl() or ""
                return d.startswith(PANICS)
            # straight-line helpers, or validating helpers whose only branches lead to a panic (the term of the single return is
            # checked to be branch-free below)
            ok = (len(nb) <= 40 and not cf.loop_heads() and len(cf.exits()) == 1
                  and all(b.term.k in ("return", "goto", "call", "assert", "drop", "switch", "unreachable") for b in nb)
                  and no_param_stores()
                  and cf.name not in NO_INLINE
                  and all((not b.term.k == "call") or (b.term.callee_name() in safe) or diverging_or_fmt(b)
                          or (not b.term.callee_is_local() and b.term.callee_name() in INLINE_SAFE_EXTERNAL)
                          or (b.term.dest is not None and b.term.dest.is_local() and cf.local_ty(b.term.dest.local) == "()")   # a call made for its effect only
                          for b in nb))
            _INLINE_OK[key] = ok
        if not ok:
            return None
        subst = {i + 1: a for i, a in enumerate(args)}
        tb = TermBuilder(cf, self.prog, subst, self.depth + 1)
        r = tb.return_term()
        _closure_hook[0] = self._apply_closure_hook
        diverges = any(b.term.k == "call" and (b.term.j.get("target") is None) for b in cf.blocks if not b.cleanup)
        branching = any(b.term.k == "switch" for b in cf.blocks if not b.cleanup)
        if branching and any(x[0] in ("unknown", "rec", "clobber", "phi") for x in subterms(r)) and (diverges or cf.local_ty(0) != "bool"):
            # a validating helper (one that can panic) is only inlined when every return yields one and the same term; a pure
            # branching helper only when it is a predicate (`a[p] || b[p]` reads the same inline or out of line) — numeric ones keep
            # their call term, whose value is taken path by path where it matters (intervals)
            return None
        if any(x[0] in ("unknown", "rec", "clobber") for x in subterms(r)):
            return None
        return r


IN_PLACE_PERMUTATIONS = {"sort", "sort_by", "sort_by_key", "sort_unstable", "sort_unstable_by", "sort_unstable_by_key", "sort_by_cached_key"}
_INLINE_OK = {}
INLINE_SAFE_EXTERNAL = {"from_elem", "zero", "one", "max", "min", "index", "get", "len", "is_empty", "checked_mul", "checked_add", "checked_sub", "unwrap", "expect", "new", "with_capacity",
                        "default", "with_fill", "block_with_fill", "size_of"}
NO_INLINE = {"start", "fingerprint", "hash", "iter_for", "h_i", "scan", "count", "sum", "calc_quotient_remainder", "insert_internal",
             "at_start_of_run", "has_run", "all_zero_intvector", "with_registers_and_hash", "with_params_and_hash", "with_params_and_hasher", "f", "fuse"}
INLINE_SAFE_CALLEES = {"len", "element_bits", "deref", "borrow", "deref_mut", "borrow_mut", "clone", "as_ref", "is_empty", "m", "k", "buildhasher", "bits_remainder",
                       "is_some", "is_none", "mean", "delta", "f", "f_inv", "interpolate", "x", "z"}


def term_at_call_arg(tb, fn, bb, argi):
    t = fn.blocks[bb].term
    return tb.operand(t.args[argi], bb, len(fn.blocks[bb].stmts))
