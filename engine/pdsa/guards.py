"""Guard dominance: which branch conditions hold on every path to a program point."""
from .terms import TermBuilder, fmt, simplify, mk, const

PANIC_CALLEES = ("core::panicking::panic", "std::rt::panic_fmt", "core::panicking::panic_fmt", "core::panicking::assert_failed",
                 "std::rt::begin_panic", "core::panicking::panic_display", "core::panicking::unreachable_display",
                 "core::panicking::panic_explicit", "std::process::abort", "core::panicking::panic_nounwind")
PANICKY_METHODS = {"unwrap", "expect", "unwrap_err", "expect_err"}


def reach_without(fn, start, target, avoid):
    seen = set()
    st = [start]
    while st:
        b = st.pop()
        if b in seen or b == avoid:
            continue
        seen.add(b)
        if b == target:
            return True
        st.extend(fn.succs(b))
    return False


def _through_flag_def(fn, prog, tb, discr, sw_bb, truth, depth):
    if discr.place is None or not discr.place.is_local():
        return []
    l = discr.place.local
    neg = False
    for _ in range(4):      # follow copies / negations inside the switch block
        ds = [x for x in fn.defs().get(l, []) if x[2] == "stmt"]
        if len(ds) == 1 and ds[0][0] == sw_bb and ds[0][3].rv.k == "use" and ds[0][3].rv.ops[0].place is not None and ds[0][3].rv.ops[0].place.is_local():
            l = ds[0][3].rv.ops[0].place.local
        elif len(ds) == 1 and ds[0][0] == sw_bb and ds[0][3].rv.k == "unop" and ds[0][3].rv.j.get("op") == "Not" and ds[0][3].rv.ops[0].place is not None and ds[0][3].rv.ops[0].place.is_local():
            l = ds[0][3].rv.ops[0].place.local
            neg = not neg
        else:
            break
    want = truth != neg
    ds = [x for x in fn.defs().get(l, []) if x[2] == "stmt"]
    if len(ds) < 2 or len(ds) != len(fn.defs().get(l, [])) or l in tb.clobbers():
        return []
    live = []
    for (b, i, kind, st) in ds:
        o = st.rv.ops[0] if st.rv.k == "use" and st.rv.ops else None
        if o is not None and o.k == "const" and isinstance(o.value(), bool) and o.value() != want:
            continue
        live.append((b, i, st))
    if len(live) != 1:
        return []
    b, i, st = live[0]
    if not fn.dominates(b, sw_bb) and not reach_without(fn, b, sw_bb, -1):
        return []
    out = [(c, tr, dd) for c, tr, dd in facts_at(fn, prog, b, tb, depth + 1)]
    out.append((tb.rvalue(st.rv, b, i), want, b))
    return out


_POST_CACHE = {}


def _postcondition(prog, t, tb, d, fn, depth):
    from .terms import subst_term, _closure_hook
    g = prog.fn(t.callee())
    if g.kind == "Closure" or g.loop_heads() or len(g.blocks) > 40 or not any(k in ("panic", "assert", "assert_eq", "assert_ne", "unreachable") for (_, k, _, _) in panic_sites(g)):
        return []
    key = (prog.path, prog.nonce, g.key)
    if key not in _POST_CACHE:
        tbg = TermBuilder(g, prog)
        common = None
        for e in g.exits():
            fs = {}
            for c, tr, _ in facts_at(g, prog, e, tbg, depth + 1):
                for c2, tr2 in decompose(c, tr, prog):
                    fs[repr(c2)] = (c2, tr2)
            common = fs if common is None else {k: v for k, v in common.items() if k in fs and fs[k][1] == v[1]}
        _POST_CACHE[key] = list((common or {}).values())
        _closure_hook[0] = tb._apply_closure_hook
    post = _POST_CACHE[key]
    if not post:
        return []
    args = [tb.operand(a, d, len(fn.blocks[d].stmts)) for a in t.args]
    m = {("param", i + 1, g.local_name(i + 1)): a for i, a in enumerate(args) if i + 1 <= g.arg_count}
    return [(subst_term(c, m), tr) for c, tr in post]


def facts_at(fn, prog, bb, tb=None, _depth=0):
    """[(cond_term, truth, switch_bb)] for bool switches whose outcome is fixed on every path to bb"""
    tb = tb or TermBuilder(fn, prog)
    dom = fn.dominators().get(bb, set())
    out = []
    for d in sorted(dom):
        if d == bb:
            continue
        t = fn.blocks[d].term
        if t.k == "call" and _depth < 2 and prog is not None and t.callee_is_local() and prog.fn(t.callee()) is not None:
            # a validating helper (`fn check(b) -> usize { if b < 4 || 18 < b { panic!() } 1 << b }`): what holds at each of its
            # returns holds after the call, with its parameters read as the arguments
            out += [(c, tr, d) for c, tr in _postcondition(prog, t, tb, d, fn, _depth)]
            continue
        if t.k != "switch":
            continue
        succs = list(dict.fromkeys(fn.succs(d)))
        can = [s for s in succs if reach_without(fn, s, bb, d)]
        if len(can) != 1:
            continue
        s = can[0]
        # value of the discriminant on that edge
        arms = [(int(v), b) for v, b in t.j["arms"]]
        vals = [v for v, b in arms if b == s]
        other = t.j["otherwise"]
        dty = t.j.get("discr_ty")
        cond = tb.operand(t.discr, d, len(fn.blocks[d].stmts))
        if dty == "bool":
            n0 = len(out)
            if vals == [0] and other != s:
                out.append((cond, False, d))
            elif not vals and other == s and [v for v, _ in arms] == [0]:
                out.append((cond, True, d))
            elif vals == [1]:
                out.append((cond, True, d))
            if len(out) > n0 and cond[0] == "phi" and _depth < 3:
                # a flag assembled on several branches (`let ok = a && b;`, `let mut found = false; if .. { found = x }`): if all
                # definitions but one are the opposite constant, control came through that one — its own guards hold as well
                out += _through_flag_def(fn, prog, tb, t.discr, d, out[-1][1], _depth)
        else:
            if len(vals) == 1 and other != s:
                out.append((mk("Eq", cond, const(vals[0])), True, d))
            elif not vals and other == s:
                # the `otherwise` edge of an integer switch: the discriminant equals none of the listed values
                for v, _ in arms:
                    out.append((mk("Eq", cond, const(v)), False, d))
    return out


def checked_outcome(cond, truth):
    """`x.checked_sub(c)` is None exactly when x < c (x == 0 for c = 1), `checked_add/mul` outcomes say nothing usable: a test of
    the Option's discriminant is restated as the comparison it stands for. Returns (term, truth) or None."""
    if cond[0] == "op" and cond[1] in ("Eq", "Ne") and len(cond[2]) == 2:
        a, b = cond[2]
        if b[0] == "call" and b[1] == "discriminant":
            a, b = b, a
        if a[0] == "call" and a[1] == "discriminant" and b[0] == "const" and b[1] in (0, 1) and a[2][0][0] == "call" and a[2][0][1] == "checked":
            inner = a[2][0][2][0]
            if inner[0] == "op" and inner[1] == "Sub" and len(inner[2]) == 2:
                is_none = (b[1] == 0) == ((cond[1] == "Eq") == bool(truth))
                x, c = inner[2]
                if c == const(1):
                    return (mk("Eq", x, const(0)), is_none)
                return (mk("Lt", x, c), is_none)
        # `if let Some(slot) = v.get_mut(j)` / `v.get(j)`: Some exactly when j < v.len()
        if a[0] == "call" and a[1] == "discriminant" and b[0] == "const" and b[1] in (0, 1) and a[2][0][0] == "call" \
                and a[2][0][1].endswith(("::get_mut", "::get")) and ("Vec" in a[2][0][1] or "slice" in a[2][0][1] or a[2][0][1].startswith("[T]::")) and len(a[2][0][2]) == 2:
            v_, j_ = a[2][0][2]
            is_some = (b[1] == 1) == ((cond[1] == "Eq") == bool(truth))
            return (mk("Lt", j_, ("call", "std::vec::Vec::len", (v_,))), is_some)
        # `match a.cmp(&b) { Equal => .., Greater => .., Less => .. }`: a test of the Ordering's discriminant is the comparison
        if a[0] == "call" and a[1] == "discriminant" and b[0] == "const" and type(b[1]) is int and a[2][0][0] == "call" and a[2][0][1].endswith("::cmp") \
                and "Ord" in a[2][0][1] and len(a[2][0][2]) == 2:
            x, y = a[2][0][2]
            tr = (cond[1] == "Eq") == bool(truth)
            if b[1] == 0:
                return (mk("Eq", x, y), tr)
            if b[1] == 1:
                return (mk("Lt", y, x), tr)
            return (mk("Lt", x, y), tr)
    if cond[0] == "call" and cond[1].endswith(("::is_some", "::is_none")) and len(cond[2]) == 1 and cond[2][0][0] == "call" and cond[2][0][1] == "checked":
        inner = cond[2][0][2][0]
        if inner[0] == "op" and inner[1] == "Sub" and len(inner[2]) == 2:
            is_none = cond[1].endswith("is_none") == bool(truth)
            x, c = inner[2]
            return (mk("Eq", x, const(0)), is_none) if c == const(1) else (mk("Lt", x, c), is_none)
    return None


def decompose(cond, truth, prog=None, depth=0):
    """split conjunctions/disjunctions/negations into atomic (term, truth) facts"""
    co = checked_outcome(cond, truth)
    if co is not None:
        return [co]
    if cond[0] == "op":
        name, args = cond[1], cond[2]
        if name == "Not":
            return decompose(args[0], not truth, prog, depth)
        if name in ("BitAnd", "And") and truth:
            out = []
            for a in args:
                out += decompose(a, True, prog, depth)
            return out
        if name in ("BitOr", "Or") and not truth:
            out = []
            for a in args:
                out += decompose(a, False, prog, depth)
            return out
    if cond[0] == "call" and prog is not None and depth < 3:
        f = prog.fn(cond[1])
        if f is not None and not f.loop_heads() and f.local_ty(0) == "bool":
            subst = {i + 1: a for i, a in enumerate(cond[2])}
            r = TermBuilder(f, prog, subst, depth=1).return_term()
            if r[0] != "phi":
                return decompose(r, truth, prog, depth + 1)
    return [(cond, truth)]


def atomic_facts(fn, prog, bb, tb=None):
    out = []
    for cond, truth, d in facts_at(fn, prog, bb, tb):
        out += decompose(cond, truth, prog)
    return remember_facts(out)


def int_bounds(facts, x, unsigned=True):
    """(lo, hi) implied for integer term x by atomic facts (None = unbounded); with unsigned=True `x != 0` gives x >= 1"""
    lo, hi = None, None

    def upd_lo(v):
        nonlocal lo
        lo = v if lo is None else max(lo, v)

    def upd_hi(v):
        nonlocal hi
        hi = v if hi is None else min(hi, v)

    for t, truth in facts:
        if t[0] == "call" and t[1].endswith("RangeInclusive::contains") and len(t[2]) == 2 and t[2][1] == x and truth:
            r = t[2][0]
            if r[0] == "call" and r[1].endswith("RangeInclusive::new") and all(a[0] == "const" for a in r[2][:2]):
                upd_lo(r[2][0][1])
                upd_hi(r[2][1][1])
            elif r[0] == "adt" and r[1].endswith("RangeInclusive"):
                d = dict(r[3])
                if d.get("start", ("x",))[0] == "const" and d.get("end", ("x",))[0] == "const":
                    upd_lo(d["start"][1])
                    upd_hi(d["end"][1])
        if t[0] == "call" and t[1].endswith("Range::contains") and len(t[2]) == 2 and t[2][1] == x and truth:
            r = t[2][0]
            if r[0] == "adt":
                d = dict(r[3])
                if d.get("start", ("x",))[0] == "const" and d.get("end", ("x",))[0] == "const":
                    upd_lo(d["start"][1])
                    upd_hi(d["end"][1] - 1)
        if t[0] == "op" and t[1] in ("Lt", "Le") and len(t[2]) == 2:
            a, b = t[2]
            strict = t[1] == "Lt"
            if a == x and b[0] == "const":      # x < c / x <= c
                c = b[1]
                if truth:
                    upd_hi(c - 1 if strict else c)
                else:
                    upd_lo(c if strict else c + 1)
            elif b == x and a[0] == "const":    # c < x / c <= x
                c = a[1]
                if truth:
                    upd_lo(c + 1 if strict else c)
                else:
                    upd_hi(c if strict else c - 1)
        # the single unsigned compare for a closed range: `x.wrapping_sub(c) <= d`  <=>  c <= x <= c + d
        if unsigned and t[0] == "op" and t[1] in ("Lt", "Le") and len(t[2]) == 2:
            a, b = t[2]
            ws = None
            if a[0] == "op" and a[1] == "wrapping_sub" and len(a[2]) == 2 and a[2][0] == x and a[2][1][0] == "const" and b[0] == "const":
                # wrapping_sub(x, c) < / <= d
                c_, d_ = a[2][1][1], (b[1] - 1 if t[1] == "Lt" else b[1])
                if truth:
                    ws = (c_, c_ + d_)
            elif b[0] == "op" and b[1] == "wrapping_sub" and len(b[2]) == 2 and b[2][0] == x and b[2][1][0] == "const" and a[0] == "const":
                # d < / <= wrapping_sub(x, c)   is false
                c_, d_ = b[2][1][1], (a[1] if t[1] == "Lt" else a[1] - 1)
                if not truth:
                    ws = (c_, c_ + d_)
            if ws is not None and ws[1] >= ws[0]:
                upd_lo(ws[0]); upd_hi(ws[1])
        if unsigned and t[0] == "op" and t[1] in ("Ne", "Eq") and len(t[2]) == 2 and x in t[2] and const(0) in t[2] and truth == (t[1] == "Ne"):
            upd_lo(1)
        if t[0] == "op" and t[1] == "Eq" and len(t[2]) == 2 and truth:
            a, b = t[2]
            if a == x and b[0] == "const":
                upd_lo(b[1]); upd_hi(b[1])
            if b == x and a[0] == "const":
                upd_lo(a[1]); upd_hi(a[1])
    return lo, hi


def has_eq_fact(facts, a, b):
    want = mk("Eq", a, b)
    wantn = mk("Ne", a, b)
    for t, truth in facts:
        if t == want and truth:
            return True
        if t == wantn and not truth:
            return True
    # n == 1 << k written as a shift and a mask: (n >> k) == 1 and (n & ((1 << k) - 1)) == 0
    for p2, n in ((a, b), (b, a)):
        if p2[0] == "op" and p2[1] == "Shl" and len(p2[2]) == 2 and p2[2][0] == const(1):
            k = p2[2][1]
            hi_ok = has_eq_fact_plain(facts, mk("Shr", n, k), const(1))
            lo_ok = has_eq_fact_plain(facts, mk("BitAnd", n, mk("Sub", mk("Shl", const(1), k), const(1))), const(0))
            if hi_ok and lo_ok:
                return True
    return False


def has_eq_fact_plain(facts, a, b):
    want, wantn = mk("Eq", a, b), mk("Ne", a, b)
    return any((t == want and truth) or (t == wantn and not truth) for t, truth in facts)


def panic_sites(fn):
    """explicit may-panic sites of one body: [(bb, kind, detail, span)]"""
    out = []
    for bi, blk in enumerate(fn.blocks):
        if blk.cleanup:
            continue
        t = blk.term
        if t.k == "call":
            c = t.callee_decl() or ""
            nm = t.callee_name()
            if c.startswith(PANIC_CALLEES) or c in PANIC_CALLEES:
                macros = t.span.get("macros", [])
                kind = "panic"
                for m in ("debug_assert_eq", "debug_assert_ne", "debug_assert", "assert_eq", "assert_ne", "assert", "unreachable", "unimplemented", "todo", "panic"):
                    if m in macros:
                        kind = m
                        break
                out.append((bi, kind, c, t.span))
            elif nm in PANICKY_METHODS and (c.startswith("std::option::Option::") or c.startswith("std::result::Result::")):
                out.append((bi, nm, c, t.span))
        elif t.k == "assert":
            out.append((bi, "Assert:" + t.j["kind"], None, t.span))
    return out


_LIN_CACHE = {}
_FACT_TERMS = {}      # repr -> term for Eq/Ne facts seen by atomic_facts / path_facts (fv receives only reprs)


def remember_facts(facts):
    for c, tr in facts:
        if c[0] == "op" and c[1] in ("Eq", "Ne") and len(c[2]) == 2:
            _FACT_TERMS.setdefault(repr(c), c)
    return facts


def fv(d, cond):
    """truth value of `cond` in a dict repr(term) -> bool of branch facts, using integer dualities:
    a < b  <=>  !(b <= a);   a == b  <=>  !(a != b);   Not(x)  <=>  !x"""
    r = repr(cond)
    if r in d:
        return d[r]
    if cond[0] == "op":
        n, a = cond[1], cond[2]
        if n == "Not" and len(a) == 1:
            v = fv(d, a[0])
            return None if v is None else (not v)
        if n in ("Lt", "Le") and len(a) == 2:
            dual = ("op", "Le" if n == "Lt" else "Lt", (a[1], a[0]))
            if repr(dual) in d:
                return not d[repr(dual)]
            if n == "Lt" and a[0] == const(0):      # unsigned: 0 < x  <=>  x != 0
                for nm, flip in (("Ne", False), ("Eq", True)):
                    r2 = repr(mk(nm, a[1], const(0)))
                    if r2 in d:
                        return (not d[r2]) if flip else d[r2]
        if n in ("Eq", "Ne") and len(a) == 2:
            dual = mk("Ne" if n == "Eq" else "Eq", a[0], a[1])
            if repr(dual) in d:
                return not d[repr(dual)]
            # the same equation written differently: pos == len - 1  <=>  pos + 1 == len
            lin = _LIN_CACHE.get(("goal", r))
            if lin is None:
                from .terms import linear
                la, ca = linear(mk("Sub", a[0], a[1]))
                lin = _LIN_CACHE[("goal", r)] = ({k: v[1] for k, v in la.items()}, ca)
            if lin[0]:
                for k_, tr in d.items():
                    if not (k_.startswith("('op', 'Eq'") or k_.startswith("('op', 'Ne'")):
                        continue
                    f_ = _FACT_TERMS.get(k_)
                    if f_ is None:
                        continue
                    fl = _LIN_CACHE.get(("fact", k_))
                    if fl is None:
                        from .terms import linear
                        lf, cf_ = linear(mk("Sub", f_[2][0], f_[2][1]))
                        fl = _LIN_CACHE[("fact", k_)] = ({kk: v[1] for kk, v in lf.items()}, cf_)
                    same = fl == lin or (({kk: -v for kk, v in fl[0].items()}, -fl[1]) == lin)
                    if same:
                        eq_holds = tr if f_[1] == "Eq" else (not tr)
                        return eq_holds if n == "Eq" else (not eq_holds)
            # unsigned: x != 0  <=>  0 < x
            if const(0) in a:
                x = [y for y in a if y != const(0)]
                if len(x) == 1:
                    pos = ("op", "Lt", (const(0), x[0]))
                    if repr(pos) in d:
                        return d[repr(pos)] if n == "Ne" else (not d[repr(pos)])
    return None


def entails_ge0(facts, goal, unsigned=True):
    """True when one of the branch facts alone implies `goal >= 0` over the integers: each ordering fact gives a linear form F >= 0
    (a < b: b - a - 1, a <= b: b - a, x != 0 on an unsigned x: x - 1, and their negations); the goal follows if goal - F is a
    non-negative constant. (One fact at a time: enough for index guards, and never unsound.)"""
    from .terms import linear, mk, const
    ga, gc = linear(goal)
    g = {r: v[1] for r, v in ga.items()}
    if not g and gc >= 0:
        return True
    forms = []
    for c, tr in facts:
        if not (c[0] == "op" and len(c[2]) == 2):
            continue
        a, b = c[2]
        o = c[1]
        if o in ("Gt", "Ge"):
            a, b, o = b, a, {"Gt": "Lt", "Ge": "Le"}[o]
        if o == "Lt":
            forms.append(mk("Sub", mk("Sub", b, a), const(1)) if tr else mk("Sub", a, b))
        elif o == "Le":
            forms.append(mk("Sub", b, a) if tr else mk("Sub", mk("Sub", a, b), const(1)))
        elif o in ("Ne", "Eq") and unsigned and const(0) in (a, b):
            x = b if a == const(0) else a
            if (o == "Ne") == bool(tr):
                forms.append(mk("Sub", x, const(1)))
        elif o == "Eq" and tr:
            forms.append(mk("Sub", a, b))
            forms.append(mk("Sub", b, a))
    for f in forms:
        fa, fc = linear(f)
        fd = {r: v[1] for r, v in fa.items()}
        if fd == g and gc - fc >= 0:
            return True
    return False


def discharged_by_facts(fn, prog, bi, tb):
    """A may-panic site whose failure condition is refuted by one dominating branch fact (index < len, no overflow of x + 1 under
    x < T, x - c with x >= c, unwrap() of an Option just tested with is_some()). Returns a short reason or None."""
    from .terms import mk, const
    blk = fn.blocks[bi]
    t = blk.term
    facts = atomic_facts(fn, prog, bi, tb)
    if t.k == "assert" and t.cond is not None and t.cond.place is not None and t.cond.place.is_local():
        cl = t.cond.place.local
        kind = t.j["kind"]
        for si in range(len(blk.stmts) - 1, -1, -1):
            st = blk.stmts[si]
            if st.k != "assign" or not st.place.is_local():
                continue
            if kind == "BoundsCheck" and st.place.local == cl and st.rv.k == "binop" and st.rv.j["op"] == "Lt":
                a, b = (tb.operand(o, bi, si) for o in st.rv.ops)
                if entails_ge0(facts, mk("Sub", mk("Sub", b, a), const(1))):
                    return "index < len by a dominating test"
                return None
            if kind in ("Overflow:Add", "Overflow:Sub") and st.place.local == cl and st.rv.k in ("binop", "checked_binop", "binop_overflow"):
                break
        # overflow asserts test field .1 of the checked pair: find the pair's definition
        if kind in ("Overflow:Add", "Overflow:Sub"):
            for si in range(len(blk.stmts) - 1, -1, -1):
                st = blk.stmts[si]
                if st.k == "assign" and st.place.is_local() and st.place.local == cl and st.rv.k == "binop" and st.rv.j["op"] in ("AddWithOverflow", "SubWithOverflow"):
                    a, b = (tb.operand(o, bi, si) for o in st.rv.ops)
                    if st.rv.j["op"] == "SubWithOverflow":
                        return "x - c with x >= c by a dominating test" if entails_ge0(facts, mk("Sub", a, b)) else None
                    if b == const(1):
                        # x + 1 cannot wrap when some fact gives x < T for a usize T
                        for c, tr in facts:
                            if c[0] == "op" and len(c[2]) == 2:
                                o, (l, r) = c[1], c[2]
                                if (o == "Lt" and tr and l == a) or (o == "Gt" and tr and r == a) or (o == "Le" and not tr and r == a) or (o == "Ge" and not tr and l == a):
                                    return "x + 1 with x < T by a dominating test"
                    return None
    if t.k == "call" and t.callee_name() in ("unwrap", "expect") and t.args:
        arg = tb.operand(t.args[0], bi, len(blk.stmts))
        for c, tr in facts:
            if tr and c[0] == "call" and c[1].endswith("::is_some") and c[2] and c[2][0] == arg:
                return "unwrap() after is_some()"
            if tr and c[0] == "op" and c[1] == "Eq" and ("call", "discriminant", (arg,)) in c[2] and const(1) in c[2]:
                return "unwrap() in the Some arm"
    return None


def resolve_phi(t, facts):
    """a two-valued join whose selecting test is known (terms.PHI_GUARD) is the value the facts select; `facts` is the usual
    {repr(cond): truth} dict. Anything else is returned unchanged."""
    from .terms import PHI_GUARD
    for _ in range(3):
        g = PHI_GUARD.get(repr(t)) if t and t[0] == "phi" else None
        if g is None:
            return t
        v = fv(facts, g[0])
        if v is True:
            t = g[1]
        elif v is False:
            t = g[2]
        else:
            return t
    return t
