"""Guard dominance: which branch conditions hold on every path to a program point."""
from .terms import TermBuilder, fmt, simplify, mk, const

PANIC_CALLEES = ("core::panicking::panic", "std::rt::panic_fmt", "core::panicking::panic_fmt", "core::panicking::assert_failed",
                 "std::rt::begin_panic", "core::panicking::panic_display", "core::panicking::unreachable_display",
                 "core::panicking::panic_explicit", "std::process::abort", "core::panicking::panic_nounwind")
PANICKY_METHODS = {"unwrap", "expect", "unwrap_err", "expect_err"}


def reach_without(fn, start, target, avoid):
    seen = set()
    st = [start]
    while st:
        b = st.pop()
        if b in seen or b == avoid:
            continue
        seen.add(b)
        if b == target:
            return True
        st.extend(fn.succs(b))
    return False


def facts_at(fn, prog, bb, tb=None):
    """[(cond_term, truth, switch_bb)] for bool switches whose outcome is fixed on every path to bb"""
    tb = tb or TermBuilder(fn, prog)
    dom = fn.dominators().get(bb, set())
    out = []
    for d in sorted(dom):
        if d == bb:
            continue
        t = fn.blocks[d].term
        if t.k != "switch":
            continue
        succs = list(dict.fromkeys(fn.succs(d)))
        can = [s for s in succs if reach_without(fn, s, bb, d)]
        if len(can) != 1:
            continue
        s = can[0]
        # value of the discriminant on that edge
        arms = [(int(v), b) for v, b in t.j["arms"]]
        vals = [v for v, b in arms if b == s]
        other = t.j["otherwise"]
        dty = t.j.get("discr_ty")
        cond = tb.operand(t.discr, d, len(fn.blocks[d].stmts))
        if dty == "bool":
            if vals == [0] and other != s:
                out.append((cond, False, d))
            elif not vals and other == s and [v for v, _ in arms] == [0]:
                out.append((cond, True, d))
            elif vals == [1]:
                out.append((cond, True, d))
        else:
            if len(vals) == 1 and other != s:
                out.append((mk("Eq", cond, const(vals[0])), True, d))
            elif not vals and other == s:
                # the `otherwise` edge of an integer switch: the discriminant equals none of the listed values
                for v, _ in arms:
                    out.append((mk("Eq", cond, const(v)), False, d))
    return out


def decompose(cond, truth, prog=None, depth=0):
    """split conjunctions/disjunctions/negations into atomic (term, truth) facts"""
    if cond[0] == "op":
        name, args = cond[1], cond[2]
        if name == "Not":
            return decompose(args[0], not truth, prog, depth)
        if name in ("BitAnd", "And") and truth:
            out = []
            for a in args:
                out += decompose(a, True, prog, depth)
            return out
        if name in ("BitOr", "Or") and not truth:
            out = []
            for a in args:
                out += decompose(a, False, prog, depth)
            return out
    if cond[0] == "call" and prog is not None and depth < 3:
        f = prog.fn(cond[1])
        if f is not None and not f.loop_heads() and f.local_ty(0) == "bool":
            subst = {i + 1: a for i, a in enumerate(cond[2])}
            r = TermBuilder(f, prog, subst, depth=1).return_term()
            if r[0] != "phi":
                return decompose(r, truth, prog, depth + 1)
    return [(cond, truth)]


def atomic_facts(fn, prog, bb, tb=None):
    out = []
    for cond, truth, d in facts_at(fn, prog, bb, tb):
        out += decompose(cond, truth, prog)
    return out


def int_bounds(facts, x, unsigned=True):
    """(lo, hi) implied for integer term x by atomic facts (None = unbounded); with unsigned=True `x != 0` gives x >= 1"""
    lo, hi = None, None

    def upd_lo(v):
        nonlocal lo
        lo = v if lo is None else max(lo, v)

    def upd_hi(v):
        nonlocal hi
        hi = v if hi is None else min(hi, v)

    for t, truth in facts:
        if t[0] == "call" and t[1].endswith("RangeInclusive::contains") and len(t[2]) == 2 and t[2][1] == x and truth:
            r = t[2][0]
            if r[0] == "call" and r[1].endswith("RangeInclusive::new") and all(a[0] == "const" for a in r[2][:2]):
                upd_lo(r[2][0][1])
                upd_hi(r[2][1][1])
            elif r[0] == "adt" and r[1].endswith("RangeInclusive"):
                d = dict(r[3])
                if d.get("start", ("x",))[0] == "const" and d.get("end", ("x",))[0] == "const":
                    upd_lo(d["start"][1])
                    upd_hi(d["end"][1])
        if t[0] == "call" and t[1].endswith("Range::contains") and len(t[2]) == 2 and t[2][1] == x and truth:
            r = t[2][0]
            if r[0] == "adt":
                d = dict(r[3])
                if d.get("start", ("x",))[0] == "const" and d.get("end", ("x",))[0] == "const":
                    upd_lo(d["start"][1])
                    upd_hi(d["end"][1] - 1)
        if t[0] == "op" and t[1] in ("Lt", "Le") and len(t[2]) == 2:
            a, b = t[2]
            strict = t[1] == "Lt"
            if a == x and b[0] == "const":      # x < c / x <= c
                c = b[1]
                if truth:
                    upd_hi(c - 1 if strict else c)
                else:
                    upd_lo(c if strict else c + 1)
            elif b == x and a[0] == "const":    # c < x / c <= x
                c = a[1]
                if truth:
                    upd_lo(c + 1 if strict else c)
                else:
                    upd_hi(c if strict else c - 1)
        if unsigned and t[0] == "op" and t[1] in ("Ne", "Eq") and len(t[2]) == 2 and x in t[2] and const(0) in t[2] and truth == (t[1] == "Ne"):
            upd_lo(1)
        if t[0] == "op" and t[1] == "Eq" and len(t[2]) == 2 and truth:
            a, b = t[2]
            if a == x and b[0] == "const":
                upd_lo(b[1]); upd_hi(b[1])
            if b == x and a[0] == "const":
                upd_lo(a[1]); upd_hi(a[1])
    return lo, hi


def has_eq_fact(facts, a, b):
    want = mk("Eq", a, b)
    wantn = mk("Ne", a, b)
    for t, truth in facts:
        if t == want and truth:
            return True
        if t == wantn and not truth:
            return True
    return False


def panic_sites(fn):
    """explicit may-panic sites of one body: [(bb, kind, detail, span)]"""
    out = []
    for bi, blk in enumerate(fn.blocks):
        if blk.cleanup:
            continue
        t = blk.term
        if t.k == "call":
            c = t.callee_decl() or ""
            nm = t.callee_name()
            if c.startswith(PANIC_CALLEES) or c in PANIC_CALLEES:
                macros = t.span.get("macros", [])
                kind = "panic"
                for m in ("debug_assert_eq", "debug_assert_ne", "debug_assert", "assert_eq", "assert_ne", "assert", "unreachable", "unimplemented", "todo", "panic"):
                    if m in macros:
                        kind = m
                        break
                out.append((bi, kind, c, t.span))
            elif nm in PANICKY_METHODS and (c.startswith("std::option::Option::") or c.startswith("std::result::Result::")):
                out.append((bi, nm, c, t.span))
        elif t.k == "assert":
            out.append((bi, "Assert:" + t.j["kind"], None, t.span))
    return out


def fv(d, cond):
    """truth value of `cond` in a dict repr(term) -> bool of branch facts, using integer dualities:
    a < b  <=>  !(b <= a);   a == b  <=>  !(a != b);   Not(x)  <=>  !x"""
    r = repr(cond)
    if r in d:
        return d[r]
    if cond[0] == "op":
        n, a = cond[1], cond[2]
        if n == "Not" and len(a) == 1:
            v = fv(d, a[0])
            return None if v is None else (not v)
        if n in ("Lt", "Le") and len(a) == 2:
            dual = ("op", "Le" if n == "Lt" else "Lt", (a[1], a[0]))
            if repr(dual) in d:
                return not d[repr(dual)]
            if n == "Lt" and a[0] == const(0):      # unsigned: 0 < x  <=>  x != 0
                for nm, flip in (("Ne", False), ("Eq", True)):
                    r2 = repr(mk(nm, a[1], const(0)))
                    if r2 in d:
                        return (not d[r2]) if flip else d[r2]
        if n in ("Eq", "Ne") and len(a) == 2:
            dual = mk("Ne" if n == "Eq" else "Eq", a[0], a[1])
            if repr(dual) in d:
                return not d[repr(dual)]
            # unsigned: x != 0  <=>  0 < x
            if const(0) in a:
                x = [y for y in a if y != const(0)]
                if len(x) == 1:
                    pos = ("op", "Lt", (const(0), x[0]))
                    if repr(pos) in d:
                        return d[repr(pos)] if n == "Ne" else (not d[repr(pos)])
    return None
