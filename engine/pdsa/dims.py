"""Dimension (units-of-measure) inference over integer terms (DESIGN 2.6).

A dimension is a dict base -> integer exponent; {} is dimensionless. Literals adopt the
dimension of the other side of + - comparisons; `*` adds, `/` subtracts exponents."""
from .terms import fmt


class DimError(Exception):
    def __init__(self, msg, term):
        Exception.__init__(self, msg)
        self.term = term


def dmul(a, b, sign=1):
    out = dict(a)
    for k, v in b.items():
        out[k] = out.get(k, 0) + sign * v
        if out[k] == 0:
            del out[k]
    return out


def dfmt(d):
    if d is None:
        return "literal"
    if not d:
        return "1"
    num = [k if v == 1 else "%s^%d" % (k, v) for k, v in sorted(d.items()) if v > 0]
    den = [k if v == -1 else "%s^%d" % (k, -v) for k, v in sorted(d.items()) if v < 0]
    return ("·".join(num) or "1") + ("/" + "·".join(den) if den else "")


class Dims:
    def __init__(self, seed):
        """seed(term) -> dimension dict or None (not seeded)"""
        self.seed = seed

    def of(self, t):
        """dimension of t; None for a bare literal (adopts)"""
        s = self.seed(t)
        if s is not None:
            return s
        k = t[0]
        if k == "const":
            return None
        if k == "cast":
            if t[2][0] == "op" and t[2][1] in ("Eq", "Ne", "Lt", "Le", "Not"):
                return None   # `(cond) as usize`: a 0/1 literal, adopts the other side's dimension
            return self.of(t[2])
        if k == "call" and t[1] == "checked":
            return self.of(t[2][0])
        if k == "phi":
            return self._same([self.of(a) for a in t[1]], t, "join")
        if k == "op":
            n, a = t[1], t[2]
            if n == "Mul":
                # `size_of::<T>() * 8` converts bytes to bits
                ds = [self.of(x) for x in a]
                out = {}
                for x, d in zip(a, ds):
                    if d is None:
                        continue
                    out = dmul(out, d)
                if "byte" in out and any(x == ("const", 8) for x in a):
                    v = out.pop("byte")
                    out["bit"] = out.get("bit", 0) + v
                    if out["bit"] == 0:
                        del out["bit"]
                return out
            if n in ("Div", "div_ceil"):
                # the rounding-up idiom (a + w - 1) / w adds the divisor to the dividend: treat as div_ceil(a, w)
                if n == "Div":
                    from .terms import linear, simplify
                    la, ca = linear(a[0])
                    lb, cb = linear(a[1])
                    if ca - cb == -1 and lb and all(r in la and la[r][1] >= v[1] for r, v in lb.items()):
                        rest = []
                        for r, (atom, c) in la.items():
                            c2 = c - (lb[r][1] if r in lb else 0)
                            if c2 == 0:
                                continue
                            rest.append(atom if c2 == 1 else ("op", "Mul", (("const", c2), atom)))
                        if rest:
                            rt = rest[0] if len(rest) == 1 else simplify(("op", "Add", tuple(rest)))
                            return dmul(self.of(rt) or {}, self.of(a[1]) or {}, -1)
                da, db = self.of(a[0]), self.of(a[1])
                return dmul(da or {}, db or {}, -1)
            if n == "Rem":
                return self.of(a[0])
            if n in ("Add", "Sub", "min", "max"):
                # a comparison used as a summand (`usize::from(r > 0)`, `(r != 0) as usize`) is a 0/1 literal of the other side's unit;
                # its own operands must still agree
                ds = []
                for x in a:
                    if x[0] == "op" and x[1] in ("Lt", "Le", "Eq", "Ne", "Not") and n in ("Add", "Sub"):
                        self.of(x)
                        ds.append(None)
                    else:
                        ds.append(self.of(x))
                return self._same(ds, t, n)
            if n in ("Shl",):
                # 1 << bits: a count; dimension must be seeded by the rule (slots = 1 << quotient bits)
                return {}
            if n in ("next_power_of_two",):
                return self.of(a[0])
            if n in ("Lt", "Le", "Eq", "Ne"):
                self._same([self.of(x) for x in a], t, n)
                return {}
        raise DimError("no dimension rule for %s" % fmt(t), t)

    def _same(self, ds, t, what):
        known = [d for d in ds if d is not None]
        if not known:
            return None
        for d in known[1:]:
            if d != known[0]:
                raise DimError("operands of %s have different dimensions: %s" % (what, " vs ".join(dfmt(x) for x in known)), t)
        return known[0]
