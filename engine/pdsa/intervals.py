"""Interval analysis over terms (DESIGN 2.5): intervals over the extended reals with open/closed ends,
usize saturation for float->int casts, real-number semantics (float rounding ignored)."""
import math
from .terms import fmt, simplify

INF = float("inf")
USIZE_MAX = float(2 ** 64 - 1)


class Iv:
    __slots__ = ("lo", "hi", "lc", "hc")

    def __init__(self, lo, hi, lc=True, hc=True):
        self.lo, self.hi = float(lo), float(hi)
        self.lc = lc and not math.isinf(self.lo)
        self.hc = hc and not math.isinf(self.hi)

    @staticmethod
    def top():
        return Iv(-INF, INF, False, False)

    @staticmethod
    def point(v):
        return Iv(v, v)

    def __repr__(self):
        return "%s%g, %g%s" % ("[" if self.lc else "(", self.lo, self.hi, "]" if self.hc else ")")

    def ge(self, v):
        """every value >= v ?"""
        return self.lo > v or (self.lo == v)

    def gt(self, v):
        return self.lo > v or (self.lo == v and not self.lc)

    def le(self, v):
        return self.hi < v or self.hi == v

    def lt(self, v):
        return self.hi < v or (self.hi == v and not self.hc)


def _lo(a):
    return (a.lo, a.lc)


def _hi(a):
    return (a.hi, a.hc)


def add(a, b):
    return Iv(a.lo + b.lo if not (math.isinf(a.lo) or math.isinf(b.lo)) else -INF,
              a.hi + b.hi if not (math.isinf(a.hi) or math.isinf(b.hi)) else INF, a.lc and b.lc, a.hc and b.hc)


def neg(a):
    return Iv(-a.hi, -a.lo, a.hc, a.lc)


def sub(a, b):
    return add(a, neg(b))


def _mulv(x, y):
    if (x == 0 and math.isinf(y)) or (y == 0 and math.isinf(x)):
        return 0.0
    return x * y


def mul(a, b):
    cands = []
    for (x, xc) in ((a.lo, a.lc), (a.hi, a.hc)):
        for (y, yc) in ((b.lo, b.lc), (b.hi, b.hc)):
            v = _mulv(x, y)
            # an end point is attained only if both factors attain theirs (or one is an attained 0)
            c = (xc and yc) or (xc and x == 0) or (yc and y == 0)
            cands.append((v, c))
    lo = min(v for v, _ in cands)
    hi = max(v for v, _ in cands)
    lc = any(c for v, c in cands if v == lo)
    hc = any(c for v, c in cands if v == hi)
    return Iv(lo, hi, lc, hc)


def recip(b):
    # 1/b for b not containing 0 in its interior
    if b.gt(0) or (b.lo == 0 and not b.lc):
        lo = 0.0 if math.isinf(b.hi) else 1.0 / b.hi
        hi = INF if b.lo == 0 else 1.0 / b.lo
        return Iv(lo, hi, b.hc and not math.isinf(b.hi), b.lc)
    if b.lt(0) or (b.hi == 0 and not b.hc):
        return neg(recip(neg(b)))
    if b.lo >= 0:
        # [0, hi]: division by zero possible -> +inf
        lo = 0.0 if math.isinf(b.hi) else 1.0 / b.hi
        return Iv(lo, INF, b.hc, False)
    return Iv.top()


def div(a, b):
    return mul(a, recip(b))


def mono_inc(f, a, dom_lo=-INF):
    def ap(v):
        if v == INF:
            return INF
        if v == -INF or v < dom_lo:
            return f(dom_lo) if dom_lo != -INF else -INF
        return f(v)
    return Iv(ap(a.lo), ap(a.hi), a.lc, a.hc)


def _log(base):
    def f(v):
        if v <= 0:
            return -INF
        return math.log(v, base) if base else math.log(v)
    return f


def ln(a):
    return mono_inc(_log(None), Iv(max(a.lo, 0.0), a.hi, a.lc if a.lo >= 0 else False, a.hc), 0.0)


def log2(a):
    return mono_inc(lambda v: -INF if v <= 0 else math.log2(v), Iv(max(a.lo, 0.0), a.hi, a.lc if a.lo >= 0 else False, a.hc), 0.0)


def exp(a):
    return mono_inc(lambda v: math.exp(v) if v < 700 else INF, a)


def ceil(a):
    lo = a.lo
    if not math.isinf(lo):
        lo = math.floor(lo) + 1 if (not a.lc and lo == math.floor(lo)) else math.ceil(lo)
    hi = a.hi if math.isinf(a.hi) else math.ceil(a.hi)
    return Iv(lo, hi, True, True)


def floor(a):
    lo = a.lo if math.isinf(a.lo) else math.floor(a.lo)
    hi = a.hi
    if not math.isinf(hi):
        hi = math.ceil(hi) - 1 if (not a.hc and hi == math.ceil(hi)) else math.floor(hi)
    return Iv(lo, hi, True, True)


def to_usize(a):
    """`x as usize` for float x: truncation toward zero, saturating, NaN -> 0"""
    t = floor(Iv(max(a.lo, 0.0), max(a.hi, 0.0), a.lc or a.lo < 0, a.hc or a.hi < 0))
    return Iv(min(max(t.lo, 0.0), USIZE_MAX), min(max(t.hi, 0.0), USIZE_MAX), True, True)


def imax(a, b):
    lo, lc = max(_lo(a), _lo(b), key=lambda x: (x[0], not x[1]))
    lo = max(a.lo, b.lo)
    lc = (a.lc if a.lo == lo else True) and (b.lc if b.lo == lo else True) if a.lo == b.lo else (a.lc if a.lo > b.lo else b.lc)
    hi = max(a.hi, b.hi)
    hc = (a.hc if a.hi >= b.hi else b.hc) or (a.hi == b.hi and (a.hc or b.hc))
    return Iv(lo, hi, lc, hc)


def imin(a, b):
    return neg(imax(neg(a), neg(b)))


def npot(a):
    def f(v):
        if math.isinf(v):
            return v
        v = max(int(v), 1)
        return float(1 << (v - 1).bit_length())
    return Iv(f(a.lo), f(a.hi), True, True)


def hull(xs):
    lo = min(x.lo for x in xs)
    hi = max(x.hi for x in xs)
    return Iv(lo, hi, any(x.lc for x in xs if x.lo == lo), any(x.hc for x in xs if x.hi == hi))


# ---- product normal form: cancel common factors before intervals lose the correlation ----------

def cancel_products(t):
    """rewrite nested Mul/Div of floats as Div(Mul(num...), Mul(den...)) with common atoms cancelled"""
    if not isinstance(t, tuple) or not t:
        return t
    k = t[0]
    if k == "op" and t[1] in ("Mul", "Div"):
        num, den = [], []
        _collect(t, num, den, True)
        num = [cancel_products(x) for x in num]
        den = [cancel_products(x) for x in den]
        changed = True
        while changed:
            changed = False
            for x in list(num):
                if x in den:
                    num.remove(x)
                    den.remove(x)
                    changed = True
                    break
        n = simplify(("op", "Mul", tuple(num))) if len(num) > 1 else (num[0] if num else ("const", 1.0))
        if not den:
            return n
        d = simplify(("op", "Mul", tuple(den))) if len(den) > 1 else den[0]
        return ("op", "Div", (n, d))
    if k == "op":
        return ("op", t[1], tuple(cancel_products(x) for x in t[2]))
    if k == "cast":
        return ("cast", t[1], cancel_products(t[2]))
    if k == "phi":
        return ("phi", tuple(cancel_products(x) for x in t[1]))
    if k == "call":
        return ("call", t[1], tuple(cancel_products(x) for x in t[2]))
    return t


def _collect(t, num, den, pos):
    if t[0] == "op" and t[1] == "Mul":
        for a in t[2]:
            _collect(a, num if pos else den, den if pos else num, True) if False else _collect2(a, num, den, pos)
        return
    if t[0] == "op" and t[1] == "Div" and len(t[2]) == 2:
        _collect2(t[2][0], num, den, pos)
        _collect2(t[2][1], num, den, not pos)
        return
    (num if pos else den).append(t)


def _collect2(t, num, den, pos):
    if t[0] == "op" and t[1] in ("Mul", "Div"):
        _collect(t, num, den, pos)
    else:
        (num if pos else den).append(t)


# ---- evaluation -----------------------------------------------------------------------------------

class Unknown(Exception):
    pass


def ieval(t, env, strict=False):
    """interval of term t; env: repr(term) -> Iv for seeded atoms"""
    r = repr(t)
    if r in env:
        return env[r]
    k = t[0]
    if k == "const":
        v = t[1]
        if isinstance(v, bool):
            return Iv.point(1.0 if v else 0.0)
        if isinstance(v, (int, float)):
            return Iv.point(float(v))
        return Iv.top()
    if k == "cast":
        a = ieval(t[2], env, strict)
        if t[1] in ("usize", "u64", "u32", "u8", "u16"):
            # float -> int truncates; int -> int (narrowing ignored here)
            return to_usize(a)
        return a
    if k == "phi":
        return hull([ieval(x, env, strict) for x in t[1]])
    if k == "call" and t[1] == "checked":
        return ieval(t[2][0], env, strict)
    if k == "op":
        n, a = t[1], t[2]
        xs = [ieval(x, env, strict) for x in a]
        if n == "Add":
            out = xs[0]
            for x in xs[1:]:
                out = add(out, x)
            return out
        if n == "Sub":
            return sub(xs[0], xs[1])
        if n == "Mul":
            out = xs[0]
            for x in xs[1:]:
                out = mul(out, x)
            return out
        if n == "Div":
            return div(xs[0], xs[1])
        if n == "Neg":
            return neg(xs[0])
        if n == "ln":
            return ln(xs[0])
        if n == "log2":
            return log2(xs[0])
        if n == "exp":
            return exp(xs[0])
        if n == "ceil":
            return ceil(xs[0])
        if n == "floor":
            return floor(xs[0])
        if n == "max":
            out = xs[0]
            for x in xs[1:]:
                out = imax(out, x)
            return out
        if n == "min":
            out = xs[0]
            for x in xs[1:]:
                out = imin(out, x)
            return out
        if n == "next_power_of_two":
            return npot(xs[0])
        if n == "sqrt":
            return mono_inc(lambda v: math.sqrt(v) if v >= 0 else 0.0, Iv(max(xs[0].lo, 0.0), max(xs[0].hi, 0.0), True, True))
        if n == "Rem" and len(xs) == 2 and xs[1].gt(0):
            return Iv(0.0, xs[1].hi - 1 if not math.isinf(xs[1].hi) else INF, True, True)
        if n == "Shl" and len(xs) == 2 and xs[0].lo == xs[0].hi == 1.0:
            return Iv(2.0 ** min(xs[1].lo, 1023), 2.0 ** min(xs[1].hi, 1023) if not math.isinf(xs[1].hi) else INF, True, True)
        if n == "clamp" and len(xs) == 3:
            return imin(imax(xs[0], xs[1]), xs[2])
    if k == "call" and "__call__" in env:
        r_ = env["__call__"](t[1], t[2], env)
        if r_ is not None:
            return r_
    if strict:
        raise Unknown(fmt(t))
    return Iv.top()


def float_facts_to_env(facts, env=None):
    """refine intervals of atoms compared with constants: facts are (term, truth) atomic comparisons"""
    env = dict(env or {})

    def refine(x, lo=None, lo_c=True, hi=None, hi_c=True):
        r = repr(x)
        cur = env.get(r, Iv.top())
        nlo, nlc, nhi, nhc = cur.lo, cur.lc, cur.hi, cur.hc
        if lo is not None and (lo > nlo or (lo == nlo and not lo_c)):
            nlo, nlc = lo, lo_c
        if hi is not None and (hi < nhi or (hi == nhi and not hi_c)):
            nhi, nhc = hi, hi_c
        env[r] = Iv(nlo, nhi, nlc, nhc)

    for t, truth in facts:
        if t[0] != "op" or t[1] not in ("Lt", "Le") or len(t[2]) != 2:
            continue
        a, b = t[2]
        strict = t[1] == "Lt"
        if b[0] == "const" and isinstance(b[1], (int, float)) and not isinstance(b[1], bool):
            c = float(b[1])
            if truth:      # a < c  /  a <= c
                refine(a, hi=c, hi_c=not strict)
            else:          # a >= c / a > c   (NaN ignored: asserts on floats reject NaN on the true branch only)
                refine(a, lo=c, lo_c=strict)
        elif a[0] == "const" and isinstance(a[1], (int, float)) and not isinstance(a[1], bool):
            c = float(a[1])
            if truth:      # c < b / c <= b
                refine(b, lo=c, lo_c=not strict)
            else:
                refine(b, hi=c, hi_c=strict)
    return env
