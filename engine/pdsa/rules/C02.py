"""C02 — CountMinSketch never underestimates and never exceeds the stream total (cell agreement, stride, checked arithmetic)."""
from ..paths import PathEnumerator
from ..guards import fv
from ..terms import TermBuilder, fmt, mk, const, subterms, elem_of, erase_param_names
from ..terms import callee_is as _nm
from .common import SELF, self_field, methods_of, has_self_receiver, all_writes, symmetric_guards, fields_mentioned, loop_exits_only_on_exhaustion

EXPLANATION = (
    "R02-cell-agreement: add_n writes and query_point reads self.table at the same normalised index term i*self.w + pos with "
    "(i,pos) from enumerate(iter_for(self.builder, obj)) (closures inlined, so the for-loop and the iterator pipeline compare "
    "equal). R02-stride: in the constructor the value stored in field w is the one passed as m to HashIterBuilder::new, d the one "
    "passed as k, and the table length is w*d — so the stride is the number of columns and x < w*d. R02-every-row-updated: the "
    "add loop runs to exhaustion, stores checked(old+n) into the same cell it read on every iteration, folds with min (first row "
    "seeds), returns checked(min + n). R02-checked-only: every arithmetic operation on the counter type in the module is "
    "CheckedAdd::checked_add followed by unwrap (no +, wrapping, saturating). R02-merge: see C06 (cell-wise +, guards on d, w, hasher)."
    ' R02-return-min additionally requires that the un-folded alternative (seeding the minimum with the cell itself) sits under the fact `row == 0`. R02-is-empty: is_empty is `every cell is zero` over the whole table. R02-merge: every returning path of merge performs the cell-wise addition.'
)
from .common import NEW_WRITERS_NOTE as _NWN
EXPLANATION = EXPLANATION + _NWN % "02"
NOT_DECIDED = "the numeric bounds themselves (they follow from the decided premises plus monotonicity of + on unsigned counters)"
ASSUMPTIONS = ["HashIter yields exactly k values in [0,m) (R01-hashiter-range, C01)", "Ord::min on counters is the minimum"]

CMS = "countminsketch::CountMinSketch"


def run(ctx):
    from .common import check_new_writers
    check_new_writers(ctx, "R02-new-writers", ['countminsketch::CountMinSketch'])
    prog = ctx.prog
    add_n = ctx.anchor(CMS + "::add_n")
    qp = ctx.anchor(CMS + "::query_point")
    ctor = ctx.anchor(CMS + "::with_params_and_hasher")
    if None in (add_n, qp, ctor):
        return
    selfp = ("param", 1, "self")
    tb = TermBuilder(add_n, prog)
    S = ("call", "hash_utils::HashIterBuilder::iter_for", (("field", selfp, "builder"), ("param", 2, add_n.local_name(2))))
    want = mk("Add", ("elem", S), mk("Mul", ("enum_idx", S), ("field", selfp, "w")))
    # indexes used on self.table in add_n
    idx_r, idx_w = [], []
    for bi, t in add_n.calls():
        if t.callee_name() in ("index", "index_mut"):
            a = [tb.operand(x, bi, len(add_n.blocks[bi].stmts)) for x in t.args]
            if a[0] == ("field", selfp, "table") and not (a[1][0] == "adt" and a[1][1] == "std::ops::RangeFull"):     # `&mut self.table[..]` is a view, not a cell
                (idx_w if t.callee_name() == "index_mut" else idx_r).append(a[1])
    # a slice view of the table (`let table = self.table.as_mut_slice()`) is indexed by a built-in place projection, not a call
    for bi, blk in enumerate(add_n.blocks):
        if blk.cleanup:
            continue
        for si, st in enumerate(blk.stmts):
            if st.k != "assign":
                continue
            for pl in ([st.rv.place] if st.rv.place is not None else []) + [o.place for o in st.rv.ops if o.place is not None] + [st.place]:
                ix = [pr for pr in pl.proj if pr["k"] == "index"]
                if not ix:
                    continue
                base = tb.local(pl.local, bi, si)
                if base == ("field", selfp, "table"):
                    it_ = tb.local(ix[0]["local"], bi, si)
                    (idx_w if (st.rv.k == "ref" and st.rv.j.get("bk") == "mut") or pl is st.place else idx_r).append(it_)
    # (a cell looked up once with `&mut self.table[x]` is read and written through that one reference: no separate read index;
    # that the stored value is the old value of the same cell + n is R02-every-row-updated)
    okw = bool(idx_w) and all(x == want for x in idx_w + idx_r)
    ctx.check(okw, "R02-cell-agreement", add_n.key, add_n, "add_n reads and writes table[%s]" % fmt(want),
              "add_n addresses the table at %s (expected row*self.w + column of the same hash iterator)" % [fmt(x) for x in (idx_w + idx_r)][:2])
    # query_point
    tbq = TermBuilder(qp, prog)
    r = tbq.return_term()
    Sq = ("call", "hash_utils::HashIterBuilder::iter_for", (("field", selfp, "builder"), ("param", 2, qp.local_name(2))))
    wantq = ("index", ("field", selfp, "table"), mk("Add", ("elem", Sq), mk("Mul", ("enum_idx", Sq), ("field", selfp, "w"))))
    okq = False
    cell = None
    if r[0] == "call" and _nm(r[1], "unwrap") or True:
        mins = [s for s in subterms(r) if s[0] == "call" and _nm(s[1], "Iterator::min")]
        if len(mins) == 1:
            cell = elem_of(mins[0][2][0])
            okq = cell == wantq
        elif r[0] == "call" and r[1].endswith("::fold") and len(r[2]) == 3 and r[2][2][0] == "closure":
            # `let first = it.next().unwrap(); it.fold(first, |best, c| best.min(c))`: the minimum over every item of the stream
            from ..terms import apply_closure
            st, seed, clo = r[2]
            a_, b_ = ("acc",), ("item",)
            body = apply_closure(clo, (a_, b_))
            if seed == elem_of(st) and body == mk("min", a_, b_):
                cell = elem_of(st)
                okq = cell == wantq
    ctx.check(okq, "R02-cell-agreement", qp.key, qp, "query_point takes the minimum over table[%s]" % fmt(wantq[2]),
              "query_point reads %s — not the cells add_n updates, or not their minimum" % (fmt(cell) if cell else fmt(r)))
    ctx.check(erase_obj(want) == erase_obj(wantq[2]), "R02-cell-agreement", CMS + ":writer==reader", add_n, "writer and reader index terms are identical up to the name of the element parameter", "writer/reader index mismatch")

    # ---- stride ---------------------------------------------------------------------------------
    rt = TermBuilder(ctor, prog).return_term()
    oks = False
    desc = fmt(rt)
    if rt[0] == "adt":
        d = dict(rt[3])
        b = d.get("builder")
        tl = d.get("table")
        if b and b[0] == "call" and _nm(b[1], "HashIterBuilder::new") and tl and tl[0] == "call" and _nm(tl[1], "from_elem"):
            oks = d["w"] == b[2][0] and d["d"] == b[2][1] and tl[2][1] == mk("Mul", d["w"], d["d"]) and d["w"] != d["d"]
    ctx.check(oks, "R02-stride", ctor.key, ctor, "field w == m of the hash iterator, field d == k, table length == w*d",
              "constructor wiring broken (w must be the iterator's m, d its k, table length w*d): %s" % desc[:260])

    # ---- every row updated ------------------------------------------------------------------------------
    heads = add_n.loop_heads()
    okl = len(heads) == 1 and loop_exits_only_on_exhaustion(add_n, heads[0])
    pe = PathEnumerator(add_n, prog, ctx.summ, max_back=1)
    probs = []
    npaths = 0
    for p in pe.paths():
        if p.exit_kind != "return":
            continue
        npaths += 1
        from .common import iterations_on_path
        iters = iterations_on_path(add_n, heads[0], p) if okl else 0
        stores = [e for e in p.events if e["kind"] == "write" and self_field(e) == "table" and e["how"] == "store"]
        if iters != len(stores):
            probs.append("a path runs %d iterations but stores %d cells" % (iters, len(stores)))
        for e in stores:
            if e["value"] != mk("Add", ("index", ("field", selfp, "table"), want), ("param", 3, add_n.local_name(3))):
                probs.append("stored value is %s, expected old + n" % fmt(e["value"]))
    ctx.check(okl and not probs and npaths >= 2, "R02-every-row-updated", add_n.key, add_n, "loop runs to exhaustion; each iteration stores table[x] = checked(old + n) (%d paths)" % npaths,
              "; ".join(sorted(set(probs))[:2]) or "add_n's loop can exit early")
    # fold is min, result is min + n
    ret = tb.return_term()
    okr = False
    why_seed = ""
    lv = [s for s in subterms(ret) if s[0] == "loopvar"]
    if ret[0] == "op" and ret[1] == "Add" and lv:
        upd = tb.loop_update(lv[0][1], lv[0][2])
        cellt = ("index", ("field", selfp, "table"), want)
        alts = set(map(repr, upd[1])) if upd[0] == "phi" else {repr(upd)}
        okr = alts <= {repr(cellt), repr(mk("min", cellt, lv[0]))} and repr(mk("min", cellt, lv[0])) in alts and set(map(repr, ret[2])) == {repr(lv[0]), repr(("param", 3, add_n.local_name(3)))}
        # the un-folded alternative (seeding the minimum with the cell itself) is only sound for the first row:
        # it must sit under the fact `row index == 0`, and the min alternative under its negation
        if okr and repr(cellt) in alts:
            from ..guards import atomic_facts
            first_row = mk("Eq", ("enum_idx", S), const(0))
            seeds_ok = True
            h = lv[0][2]
            body = add_n.natural_loop(h)
            # walk the value flowing into the loop-carried local back through plain copies to the defining blocks
            def origins(l, seen):
                out = []
                for (b, i, kind, obj) in add_n.defs().get(l, []):
                    if b not in body or (l, b, i) in seen:
                        continue
                    seen.add((l, b, i))
                    if kind == "stmt" and obj.rv.k == "use" and obj.rv.ops[0].place is not None and obj.rv.ops[0].place.is_local():
                        sub = origins(obj.rv.ops[0].place.local, seen)
                        out += sub if sub else [(b, tb._def_term(l, (b, i, kind, obj)))]
                    else:
                        out.append((b, tb._def_term(l, (b, i, kind, obj))))
                return out
            for (b, t_def) in origins(lv[0][1], set()):
                facts = {repr(c): tr for c, tr in atomic_facts(add_n, prog, b, tb)}
                fr = fv(facts, first_row)
                if t_def == cellt and fr is not True:
                    seeds_ok = False
                if t_def == mk("min", cellt, lv[0]) and fr is not False:
                    seeds_ok = False
            okr = seeds_ok
            if not seeds_ok:
                why_seed = "the running minimum is re-seeded with the current cell on a condition other than `row == 0`, so an earlier smaller row can be forgotten"
    if not okr and ret[0] == "op" and ret[1] == "Add" and len(ret[2]) == 2:
        # the running minimum kept in an Option: None before the first row, Some(min so far) afterwards
        #   lowest = match lowest { None => Some(cell), Some(m) => Some(m.min(cell)) };  ..  lowest.unwrap_or_else(zero) + n
        from ..guards import atomic_facts
        accs = [x for x in ret[2] if x[0] == "call" and x[1].rsplit("::", 1)[-1] in ("unwrap_or_else", "unwrap_or", "unwrap", "unwrap_or_default", "expect") and x[2] and x[2][0][0] == "loopvar"]
        other = [x for x in ret[2] if x not in accs]
        if len(accs) == 1 and other == [("param", 3, add_n.local_name(3))]:
            opt = accs[0][2][0]
            cellt = ("index", ("field", selfp, "table"), want)
            payload = ("field", ("variant", opt, "Some"), "0")
            some = lambda v_: ("adt", "std::option::Option", "Some", (("0", v_),))
            seed, fold = some(cellt), some(mk("min", cellt, payload))
            init, upd = tb.loop_init(opt[1], opt[2]), tb.loop_update(opt[1], opt[2])
            alts = set(map(repr, upd[1])) if upd[0] == "phi" else {repr(upd)}
            shape = init[0] == "adt" and init[2] == "None" and alts == {repr(seed), repr(fold)}
            sel_ok = shape
            if shape:
                is_none = mk("Eq", ("call", "discriminant", (opt,)), const(0))
                for bi_, blk_ in enumerate(add_n.blocks):
                    for si_, st_ in enumerate(blk_.stmts):
                        if st_.k == "assign" and st_.rv.k == "aggregate" and st_.rv.j.get("variant") == "Some" and bi_ in add_n.natural_loop(opt[2]):
                            v_ = tb.rvalue(st_.rv, bi_, si_)
                            fs_ = {repr(c_): tr_ for c_, tr_ in atomic_facts(add_n, prog, bi_, tb)}
                            if v_ == seed and fv(fs_, is_none) is not True:
                                sel_ok = False
                            if v_ == fold and fv(fs_, is_none) is not False and fv(fs_, mk("Eq", ("call", "discriminant", (opt,)), const(1))) is not True:
                                sel_ok = False
            okr = shape and sel_ok
            if shape and not sel_ok:
                why_seed = "the Option-kept minimum is re-seeded with the current cell although a minimum is already held"
    ctx.check(okr, "R02-return-min", add_n.key, add_n, "add_n returns checked(min over the rows of the old cells + n); the fold is seeded by the first row only",
              (why_seed + "; " if why_seed else "") + "add_n's return value is %s with fold %s" % (fmt(ret), fmt(tb.loop_update(lv[0][1], lv[0][2])) if lv else "?"))

    # ---- checked only ---------------------------------------------------------------------------------------
    n_checked = 0
    for f in prog.fns.values():
        if not f.key.startswith("countminsketch::") and not (f.impl_self == CMS):
            continue
        ctx.analysed_fns.add(f.key)
        tbf = None
        for bi, t in f.calls():
            decl = t.callee_decl() or ""
            nm = t.callee_name()
            sty = t.func.get("self_ty")
            argtys = [f.local_ty(a.place.local) for a in t.args if a.place is not None and a.place.is_local()]
            on_counter = sty == "C" or any(x in ("C", "&C") for x in argtys)
            if nm == "checked_add" and on_counter:
                n_checked += 1
                # result must flow into unwrap/expect
                dest = t.dest.local
                used = False
                for bj, t2 in f.calls():
                    if t2.callee_name() in ("unwrap", "expect") and t2.args and t2.args[0].place is not None and t2.args[0].place.local == dest:
                        used = True
                ctx.check(used, "R02-checked-only", "%s:checked_add@%d" % (f.key, n_checked), t.span, "checked_add result is unwrapped (overflow panics, never wraps)",
                          "checked_add result is not unwrapped: an overflow would be silently dropped")
            elif on_counter and (decl.startswith("std::ops::") and nm in ("add", "sub", "mul", "add_assign", "sub_assign") or nm.startswith(("wrapping_", "saturating_", "overflowing_"))):
                ctx.fail("R02-checked-only", "%s:%s" % (f.key, nm), t.span, "unchecked counter arithmetic `%s` on the counter type: counts can wrap or saturate silently" % decl)
    ctx.floor("R02-checked-only", n_checked, 3, "checked_add sites on the counter type")

    # ---- is_empty: every cell is zero -------------------------------------------------------------------------
    ie = ctx.anchor(CMS + "::is_empty")
    if ie is not None:
        r = TermBuilder(ie, prog).return_term()
        okie = r[0] == "call" and r[1].endswith("::all") and r[2][0] == ("field", selfp, "table")
        if okie:
            from ..terms import apply_closure
            pred = apply_closure(r[2][1], (("elem", ("dummy",)),))
            okie = pred[0] == "call" and _nm(pred[1], "is_zero") and pred[2] == (("elem", ("dummy",)),)
        else:
            from .common import bool_loop_form
            bl = bool_loop_form(ctx, ie)      # `for x in &self.table { if !x.is_zero() { return false } } true`
            if bl is not None and bl[0] == "all" and bl[1] == ("field", selfp, "table"):
                pred = bl[2]
                okie = pred[0] == "call" and _nm(pred[1], "is_zero") and pred[2] == (("elem", ("field", selfp, "table")),)
        ctx.check(okie, "R02-is-empty", ie.key, ie, "is_empty == table.iter().all(is_zero) over the whole table", "is_empty is %s — not `every cell of the table is zero`" % fmt(r)[:200])
    # ---- merge guards (shared with C06) ----------------------------------------------------------------------
    mg = ctx.anchor(CMS + "::merge")
    if mg is not None:
        wbs, guards = symmetric_guards(ctx, mg)
        cov = set()
        for g in guards or []:
            cov |= fields_mentioned(g)
        ctx.check({"w", "d", "builder"} <= cov, "R02-merge", mg.key, mg, "merge asserts equal d, w and hasher before adding tables", "merge lacks a compatibility assert (covered: %s)" % sorted(cov))
        pem = PathEnumerator(mg, prog, ctx.summ)
        nm = sk = 0
        # the sum may be written cell by cell in place (`for (a, b) in self.table.iter_mut().zip(&other.table) { *a = a + b }`): then
        # "adds the tables" means the path runs that loop (to exhaustion, storing in every iteration: common.cellwise_merge)
        from .common import cellwise_merge
        cm_ = cellwise_merge(ctx, mg, "table")
        inplace_heads = set(mg.loop_heads()) if cm_.get("form") == "in-place" and len(mg.loop_heads()) == 1 else set()
        for p in pem.paths():
            if p.exit_kind != "return":
                continue
            nm += 1
            if inplace_heads & set(p.blocks):
                continue
            if not [e for e in p.events if e["kind"] == "write" and self_field(e) == "table" and e["how"] == "store"]:
                sk += 1
        ctx.check(nm >= 1 and sk == 0, "R02-merge", mg.key + ":always-adds", mg, "every returning path of merge replaces the table by the cell-wise sum",
                  "merge returns without adding the tables on %d of %d paths (a shortcut that drops other's counts)" % (sk, nm))


def erase_obj(t):
    if not isinstance(t, tuple) or not t:
        return t
    if t[0] == "param":
        return ("param", t[1], None)
    return tuple(erase_obj(x) if isinstance(x, tuple) else x for x in t)
