"""C01 — filters never report a false negative (writer/reader agreement, cuckoo home-bucket typestate)."""
from ..paths import PathEnumerator
from ..guards import fv
from ..terms import TermBuilder, fmt, mk, const, subterms
from ..terms import callee_is as _nm
from ..guards import atomic_facts
from .common import SELF, self_field, loop_exits_only_on_exhaustion, all_writes

EXPLANATION = (
    "R01-bloom-same-positions: BloomFilter::insert sets and ::query tests self.bs at the unmodified items of the same stream "
    "iter_for(self.builder, obj); insert's loop runs to exhaustion and sets a bit on every iteration; query returns false only "
    "under a negated bit test at such a position and true otherwise. R01-hashiter-range: HashIter::next yields (..) % builder.m "
    "under the guard i < builder.k and increments i exactly once per item (exactly k positions in [0,m)). R01-cuckoo-home "
    "(typestate over the kick loop): start() returns (f, i1, i1 ^ hash(f)); inside the loop with carried (f, i): the slot x is "
    "i*bucketsize + e with e drawn from 0..bucketsize, the victim is read from x BEFORE f is written to x, the log gets (x, victim), "
    "new f = victim, new i = i ^ hash(new f), and write_to_bucket receives exactly (new i, new f) — by XOR involution a fingerprint "
    "only ever sits in one of its two buckets, which is what query/delete look at. R01-cuckoo-siblings / R01-quotient-shared-scan: "
    "query, insert and delete take their coordinates from the same start()/calc_quotient_remainder(). R01-compat: the HashSet "
    "impl maps insert/query/union to HashSet::insert(clone)/contains/extend(cloned). Survival across failed operations is C12."
    " Also applied here (their violation is a false negative): C12's restore rules for every fallible insert/union, C14's delete accounting (exactly one copy removed), R01-bucket-range (hash() reduced modulo the power-of-two n_buckets), and for the quotient filter C13's structural rules (ring arithmetic, swap chain incl. its initial triple, placement flags, scan loop facts). C19's clear rules are run for the three filters: metadata surviving clear() (a continuation bit, a stored fingerprint) misplaces or hides elements of the next fill."
)
from .common import NEW_WRITERS_NOTE as _NWN
EXPLANATION = EXPLANATION + _NWN % "01"
NOT_DECIDED = ("that scan/insert_internal of the quotient filter keep runs sorted and clusters intact under shifting and wrap-around "
               "(an inductive heap-shape invariant), and anything depending on actual hash values")
ASSUMPTIONS = ["FixedBitSet::put(i) sets bit i and bs[i] reads it", "x ^ h ^ h == x"]

BLOOM = "filters::bloomfilter::BloomFilter"
CF = "filters::cuckoofilter::CuckooFilter"
QF = "filters::quotientfilter::QuotientFilter"
HS = "std::collections::HashSet"


def run(ctx):
    from .common import check_new_writers
    def _only_sets_bits(adt_, fld_, w_):
        # a Bloom filter bit that is only ever OR-ed in can never turn a stored element into a false negative
        if adt_ == "filters::bloomfilter::BloomFilter" and fld_ == "bs":
            from .C06 import classify_write
            return classify_write(adt_, fld_, w_, ctx)[0] == "or"
        return False
    check_new_writers(ctx, "R01-new-writers", ['filters::bloomfilter::BloomFilter', 'filters::cuckoofilter::CuckooFilter', 'filters::quotientfilter::QuotientFilter'], harmless=_only_sets_bits)
    prog = ctx.prog
    selfp = ("param", 1, "self")

    # ---- Bloom -------------------------------------------------------------------------------
    ins = ctx.anchor("<%s as filters::Filter[T]>::insert" % BLOOM)
    qry = ctx.anchor("<%s as filters::Filter[T]>::query" % BLOOM)
    if ins is not None and qry is not None:
        def positions(f, name):
            tb = TermBuilder(f, prog)
            out = []
            for bi, t in f.calls():
                if t.callee_name() == name:
                    a = [tb.operand(x, bi, len(f.blocks[bi].stmts)) for x in t.args]
                    if a[0] == ("field", selfp, "bs"):
                        out.append((bi, a[1]))
            return out
        S = lambda f: ("elem", ("call", "hash_utils::HashIterBuilder::iter_for", (("field", selfp, "builder"), ("param", 2, f.local_name(2)))))
        pi, pq = positions(ins, "put"), positions(qry, "index")
        oki = len(pi) == 1 and pi[0][1] == S(ins)
        heads = ins.loop_heads()
        oki = oki and len(heads) == 1 and loop_exits_only_on_exhaustion(ins, heads[0]) and pi[0][0] in ins.natural_loop(heads[0])
        # the put is executed on every iteration: it dominates every back edge source
        if oki:
            oki = all(ins.dominates(pi[0][0], b) for b, h in ins.back_edges())
        if not pi and not heads:
            # iterator form: iter_for(..).fold(.., |acc, pos| acc & bs.put(pos)) / for_each(|pos| bs.put(pos)): the closure runs for
            # EVERY item (fold and for_each do not short-circuit; all/any/find would stop at the first false/true)
            ws = [w for w in all_writes(ctx, ins) if w["root"] == SELF and w["path"][:1] == ("bs",) and w["how"] != "borrow"]
            oki = len(ws) == 1 and ws[0].get("name") == "put" and ws[0].get("hof") in ("fold", "for_each") and len(ws[0]["args"]) == 2 and ws[0]["args"][1] == S(ins)
            pi = [(w["bb"], w["args"][1]) for w in ws if len(w.get("args", [])) == 2]
            if oki:
                # ... and the closure itself puts on each of its paths
                cfn = prog.fn(ws[0]["closure"])
                ctx.analysed_fns.add(cfn.key)
                pc = PathEnumerator(cfn, prog, ctx.summ)
                oki = all(any(e["kind"] == "call" and e["name"] == "put" for e in p.events) for p in pc.paths() if p.exit_kind == "return")
        ctx.check(oki, "R01-bloom-same-positions", ins.key, ins, "insert sets bs[pos] for every pos of iter_for(builder, obj)",
                  "insert does not set exactly the positions of iter_for(self.builder, obj) (positions: %s)" % [fmt(p[1]) for p in pi])
        okq = len(pq) == 1 and pq[0][1] == S(qry)
        probs = []
        all_form = False
        if not pq:
            # iterator form: iter_for(..).all(|pos| self.bs[pos])
            from ..terms import apply_closure
            r = TermBuilder(qry, prog).return_term()
            if r[0] == "call" and r[1].endswith("::all") and len(r[2]) == 2 and ("elem", r[2][0]) == S(qry):
                body = apply_closure(r[2][1], (("elem", ("dummy",)),))
                all_form = body == ("index", ("field", selfp, "bs"), ("elem", ("dummy",)))
            okq = all_form
        if okq and not all_form:
            pe = PathEnumerator(qry, prog, ctx.summ)
            bit = ("index", ("field", selfp, "bs"), S(qry))
            for p in pe.paths():
                if p.exit_kind != "return":
                    continue
                facts = pe.path_facts(p)
                if p.ret == "false":
                    if not facts or facts[-1] != (bit, False):
                        probs.append("`false` is returned without a failed bit test")
                elif p.ret == "true":
                    if any(c == bit and not t for c, t in facts):
                        probs.append("`true` is returned although a bit test failed")
                    # fall-through: loop exhausted
                else:
                    probs.append("untracked return value")
            heads = qry.loop_heads()
            if not (len(heads) == 1):
                probs.append("query has %d loops" % len(heads))
        ctx.check(okq and not probs, "R01-bloom-same-positions", qry.key, qry, "query tests bs[pos] at the same positions; false only on a cleared bit, true after exhaustion",
                  "; ".join(sorted(set(probs))) or "query reads positions %s" % [fmt(p[1]) for p in pq])

    nxt = ctx.anchor("<hash_utils::HashIter as std::iter::Iterator>::next")
    itf = ctx.anchor("hash_utils::HashIterBuilder::iter_for")
    if nxt is not None:
        tb = TermBuilder(nxt, prog)
        r = tb.return_term()
        m = ("field", ("field", selfp, "builder"), "m")
        alts = r[1] if r[0] == "phi" else (r,)
        some = [a for a in alts if a[0] == "adt" and a[2] == "Some"]
        okn = len(some) == 1 and some[0][3][0][1][0] == "op" and some[0][3][0][1][1] == "Rem" and some[0][3][0][1][2][1] == m
        pe = PathEnumerator(nxt, prog, ctx.summ)
        guard = mk("Lt", ("field", selfp, "i"), ("field", ("field", selfp, "builder"), "k"))
        probs = []
        for p in pe.paths():
            if p.exit_kind != "return":
                continue
            facts = {repr(c): t for c, t in pe.path_facts(p)}
            iw = [e for e in p.events if e["kind"] == "write" and self_field(e) == "i"]
            if p.ret == "Some":
                if fv(facts, guard) is not True:
                    probs.append("an item is produced without the guard i < k")
                if not (len(iw) == 1 and iw[0]["value"] == mk("Add", ("field", selfp, "i"), const(1))):
                    probs.append("i is not incremented exactly once per item")
            elif p.ret == "None":
                if fv(facts, guard) is not False or iw:
                    probs.append("None is returned while i < k, or i changes on exhaustion")
        ctx.check(okn and not probs, "R01-hashiter-range", nxt.key, nxt, "next(): Some(.. %% builder.m) under i < builder.k, i += 1; None otherwise",
                  "; ".join(sorted(set(probs))) or "next() returns %s" % fmt(r)[:200])
    if itf is not None:
        r = TermBuilder(itf, prog).return_term()
        d = dict(r[3]) if r[0] == "adt" else {}
        ctx.check(d.get("builder", ("x",))[:2] == ("param", 1) and d.get("i") == const(0), "R01-hashiter-range", itf.key, itf, "iter_for starts the iterator at i = 0 on this builder", "iter_for builds %s" % fmt(r)[:200])

    # ---- Cuckoo home buckets ----------------------------------------------------------------------
    st = ctx.anchor(CF + "::start")
    ii = ctx.anchor(CF + "::insert_internal")
    if st is not None:
        r = TermBuilder(st, prog).return_term()
        t_p = ("param", 2, st.local_name(2))
        f_t = ("call", CF + "::fingerprint", (selfp, t_p))
        if prog.fn(CF + "::fingerprint") is None and r[0] == "tuple" and len(r[1]) == 3:
            # fingerprint() merged into start(): f is whatever the first component is (its range is R07-fingerprint-nonzero's
            # business); what matters here is that the SAME f is hashed for the alternate bucket, and that it depends on t only
            f_t = r[1][0]
            if not any(x == t_p for x in subterms(f_t)) or any(x[0] in ("unknown", "rec", "clobber", "loopvar") for x in subterms(f_t)):
                f_t = ("unknown", "fingerprint is not a function of the element")
        i1 = ("call", CF + "::hash", (selfp, t_p))
        want = ("tuple", (f_t, i1, mk("BitXor", i1, ("call", CF + "::hash", (selfp, f_t)))))
        ctx.check(r == want, "R01-cuckoo-home", st.key, st, "start(t) = (f, i1, i1 ^ hash(f))", "start returns %s" % fmt(r))
    if ii is not None:
        kick_loop(ctx, ii)
    # bucket indexes stay inside the table: hash() reduces to [0, n_buckets) and n_buckets is a power of two (so x ^ hash < n_buckets)
    hf = ctx.anchor(CF + "::hash")
    ctor = ctx.anchor(CF + "::with_params_and_hash")
    if hf is not None and ctor is not None:
        r = TermBuilder(hf, prog).return_term()
        nb = ("field", selfp, "n_buckets")
        okh = r[0] == "op" and ((r[1] == "BitAnd" and mk("Sub", nb, const(1)) in r[2]) or (r[1] == "Rem" and r[2][1] == nb))
        from .common import construction_blocks
        agg = construction_blocks(ctx, ctor, CF)
        pot = False
        if agg:
            fs = atomic_facts(ctor, prog, agg[0])
            pot = any(tr and c[0] == "op" and c[1] == "is_power_of_two" and c[2][0][:2] == ("param", 3) for c, tr in fs)
        ctx.check(okh and pot, "R01-bucket-range", hf.key, hf, "hash() is reduced modulo n_buckets and the constructor asserts n_buckets is a power of two (i ^ hash stays in range)",
                  "bucket index %s / constructor power-of-two assert = %s: a candidate bucket can fall outside the table" % (fmt(r)[:120], pot))
    # delete removes exactly one copy (an element inserted more often than deleted is still found)
    dele = ctx.anchor(CF + "::delete")
    if dele is not None:
        from .C14 import delete_rules
        delete_rules(ctx, dele)
    # callers pass start()'s triple
    for nm in ("insert", "query"):
        f = ctx.anchor("<%s as filters::Filter[T]>::%s" % (CF, nm))
        if f is None:
            continue
        tb = TermBuilder(f, prog)
        stt = ("call", CF + "::start", (selfp, ("param", 2, f.local_name(2))))
        okc = True
        n = 0
        for bi, t in f.calls():
            if t.callee_name() == "insert_internal":
                n += 1
                a = [tb.operand(x, bi, len(f.blocks[bi].stmts)) for x in t.args]
                okc = okc and a[1:4] == [("tfield", stt, 0), ("tfield", stt, 1), ("tfield", stt, 2)]
            if t.callee_name() == "has_in_bucket":
                n += 1
                a = [tb.operand(x, bi, len(f.blocks[bi].stmts)) for x in t.args]
                okc = okc and a[2] == ("tfield", stt, 0) and a[1] in (("tfield", stt, 1), ("tfield", stt, 2))
        ctx.check(okc and n >= 1, "R01-cuckoo-siblings", f.key, f, "%s takes (f, i1, i2) from start(obj)" % nm, "%s does not use the triple of start(obj)" % nm)

    # ---- quotient: shared scan ---------------------------------------------------------------------------
    for nm, inner, flag in (("insert", "insert_internal", None), ("query", "scan", False)):
        f = ctx.anchor("<%s as filters::Filter[T]>::%s" % (QF, nm))
        if f is None:
            continue
        tb = TermBuilder(f, prog)
        cq = ("call", QF + "::calc_quotient_remainder", (selfp, ("param", 2, f.local_name(2))))
        okc = False
        for bi, t in f.calls():
            if t.callee_name() == inner:
                a = [tb.operand(x, bi, len(f.blocks[bi].stmts)) for x in t.args]
                okc = a[1:3] == [("tfield", cq, 0), ("tfield", cq, 1)] and (flag is None or a[3] == const(flag))
        ctx.check(okc, "R01-quotient-shared-scan", f.key, f, "%s locates the element with %s(calc_quotient_remainder(obj))" % (nm, inner), "%s does not pass calc_quotient_remainder(obj) to %s" % (nm, inner))
    iiq = ctx.anchor(QF + "::insert_internal")
    if iiq is not None:
        # the quotient filter finds an element again only if the slot bookkeeping is kept: C13's structural rules
        from .C13 import ring_rules, swap_chain_rules, scan_rules
        ring_rules(ctx)
        swap_chain_rules(ctx, iiq)
        scan_rules(ctx)
        tb = TermBuilder(iiq, prog)
        sc = [(bi, t) for bi, t in iiq.calls() if t.callee_name() == "scan"]
        oks = len(sc) == 1 and [tb.operand(x, sc[0][0], len(iiq.blocks[sc[0][0]].stmts)) for x in sc[0][1].args][1:] == [("param", 2, "quotient"), ("param", 3, "remainder"), const(True)]
        ctx.check(oks, "R01-quotient-shared-scan", iiq.key, iiq, "insert_internal uses scan(quotient, remainder, true)", "insert_internal does not locate the slot through scan(quotient, remainder, true)")

    # ---- a filter that is cleared and refilled: metadata surviving clear() (a stale continuation / shifted bit, a stale fingerprint)
    # misplaces or hides elements inserted afterwards — C19's clear rules for the three filters
    from .C19 import run_clear_rules
    for adt_ in (BLOOM, CF, QF):
        run_clear_rules(ctx, only_adt=adt_, floor=1)

    # ---- survival across failed insert / union: the C12 rule set, applied here because a fingerprint lost by a botched
    # rollback is a false negative for an element inserted earlier
    # "after a.union(&b) returns Ok, every element present in a or in b is reported present by a": the transfer loops of the cuckoo
    # and quotient unions must carry every stored fingerprint over, under its own bucket / quotient (C06's transfer rules)
    from .C06 import union_transfer_rules
    union_transfer_rules(ctx)
    from .C12 import run_restore_rules
    run_restore_rules(ctx)

    # ---- compat --------------------------------------------------------------------------------------------
    hi = ctx.anchor("<%s as filters::Filter[T]>::insert" % HS)
    hq = ctx.anchor("<%s as filters::Filter[T]>::query" % HS)
    hu = ctx.anchor("<%s as filters::Filter[T]>::union" % HS)
    if hi is not None:
        r = TermBuilder(hi, prog).return_term()
        ctx.check(r == ("adt", "std::result::Result", "Ok", (("0", ("call", HS + "::insert", (selfp, ("param", 2, "obj")))),)), "R01-compat", hi.key, hi, "insert == Ok(HashSet::insert(obj.clone()))", "HashSet insert is %s" % fmt(r))
    if hq is not None:
        r = TermBuilder(hq, prog).return_term()
        ctx.check(r == ("call", HS + "::contains", (selfp, ("param", 2, "obj"))), "R01-compat", hq.key, hq, "query == contains(obj)", "HashSet query is %s" % fmt(r))
    if hu is not None:
        tb = TermBuilder(hu, prog)
        ex = [(bi, t) for bi, t in hu.calls() if t.callee_name() == "extend"]
        oku = len(ex) == 1 and [tb.operand(x, ex[0][0], len(hu.blocks[ex[0][0]].stmts)) for x in ex[0][1].args] == [selfp, ("param", 2, "other")]
        ctx.check(oku, "R01-compat", hu.key, hu, "union == extend(other.iter().cloned())", "HashSet union does not extend self with other's elements")


def kick_loop(ctx, ii):
    prog = ctx.prog
    selfp = ("param", 1, "self")
    tb = TermBuilder(ii, prog)
    heads = ii.loop_heads()
    # the kick loop is the loop that overwrites table slots
    kheads = [hh for hh in heads if any(t.callee_name() == "set" and bi in ii.natural_loop(hh) for bi, t in ii.calls())]
    if len(kheads) != 1:
        ctx.shape("R01-cuckoo-home", ii.key, ii, "insert_internal has %d loops that overwrite slots, expected the one kick loop" % len(kheads))
        return
    h = kheads[0]
    body = ii.natural_loop(h)
    bsz = ("field", selfp, "bucketsize")
    tbl = ("field", selfp, "table")
    sets = [(bi, t) for bi, t in ii.calls() if t.callee_name() == "set" and bi in body]
    gets = [(bi, t) for bi, t in ii.calls() if t.callee_name() == "get" and bi in body]
    pushes = [(bi, t) for bi, t in ii.calls() if t.callee_name() == "push" and bi in body]
    wtb = [(bi, t) for bi, t in ii.calls() if t.callee_name() == "write_to_bucket" and bi in body]
    probs = []
    if not (len(sets) == 1 and len(gets) == 1 and len(pushes) == 1 and len(wtb) == 1):
        ctx.shape("R01-cuckoo-home", ii.key + ":loop", ii, "kick loop has %d set / %d get / %d push / %d write_to_bucket calls, expected one each" % (len(sets), len(gets), len(pushes), len(wtb)))
        return
    A = lambda bi, t: [tb.operand(x, bi, len(ii.blocks[bi].stmts)) for x in t.args]
    a_set, a_get, a_push, a_w = A(*sets[0]), A(*gets[0]), A(*pushes[0]), A(*wtb[0])
    x = a_set[1]
    # carried variables
    f_lv = a_set[2]
    if f_lv[0] != "loopvar":
        probs.append("the value written into the victim slot is %s, not the carried fingerprint" % fmt(f_lv))
    i_lvs = [s for s in subterms(x) if s[0] == "loopvar"]
    if len(i_lvs) != 1:
        probs.append("slot index %s does not depend on exactly one carried bucket index" % fmt(x))
    else:
        i_lv = i_lvs[0]
        es = [s for s in subterms(x) if s[0] == "call" and _nm(s[1], "gen_range")]
        ok_e = len(es) == 1 and es[0][2][1] == ("adt", "std::ops::Range", "Range", (("start", const(0)), ("end", bsz)))
        if not (ok_e and x == mk("Add", es[0], mk("Mul", bsz, i_lv))):
            probs.append("victim slot is %s, expected i*bucketsize + e with e drawn from 0..bucketsize (a slot of bucket i)" % fmt(x))
        victim = ("call", gets[0][1].callee(), (tbl, x))
        if a_get != [tbl, x]:
            probs.append("the victim is read from %s, not from the slot that is overwritten" % fmt(a_get[1]))
        if not (ii.dominates(gets[0][0], sets[0][0]) and gets[0][0] != sets[0][0] or gets[0][0] == sets[0][0]):
            probs.append("the victim is not read before the slot is overwritten")
        if ii.dominates(sets[0][0], gets[0][0]) and sets[0][0] != gets[0][0]:
            probs.append("the slot is overwritten before the victim is read (the victim is lost)")
        if a_push[1] != ("tuple", (x, victim)):
            probs.append("undo log records %s, expected (slot, victim)" % fmt(a_push[1]))
        if not (ii.dominates(pushes[0][0], sets[0][0]) or ii.dominates(sets[0][0], pushes[0][0])):
            probs.append("the undo-log entry is not pushed on every iteration that overwrites a slot")
        if f_lv[0] == "loopvar":
            f_upd = tb.loop_update(f_lv[1], h)
            f_init = tb.loop_init(f_lv[1], h)
            if f_upd != victim:
                probs.append("carried fingerprint becomes %s, expected the victim read from the slot" % fmt(f_upd))
            if f_init[:2] != ("param", 2):
                probs.append("carried fingerprint starts as %s" % fmt(f_init))
            i_upd = tb.loop_update(i_lv[1], h)
            i_init = tb.loop_init(i_lv[1], h)
            want_i = mk("BitXor", i_lv, ("call", CF + "::hash", (selfp, victim)))
            if i_upd != want_i:
                probs.append("carried bucket becomes %s, expected i ^ hash(victim)" % fmt(i_upd))
            init_alts = set(map(repr, i_init[1])) if i_init[0] == "phi" else {repr(i_init)}
            if not init_alts <= {repr(("param", 3, "i1")), repr(("param", 4, "i2"))}:
                probs.append("the first kicked bucket is %s, not i1 or i2" % fmt(i_init))
            if a_w[1:] != [want_i, victim]:
                probs.append("write_to_bucket gets (%s, %s), expected (i ^ hash(victim), victim)" % (fmt(a_w[1])[:80], fmt(a_w[2])[:60]))
    ctx.check(not probs, "R01-cuckoo-home", ii.key + ":kick-loop", ii, "kick loop keeps `fingerprint sits in one of its two buckets`: slot in bucket i, victim read before overwrite, i' = i ^ hash(victim), placement at (i', victim)",
              "; ".join(probs[:3]))
    # before the loop: the two direct placements use (i1, f) and (i2, f)
    pre = [(bi, t) for bi, t in ii.calls() if t.callee_name() == "write_to_bucket" and bi not in body]
    args = [A(bi, t)[1:] for bi, t in pre]
    i1p, i2p, fp_ = ("param", 3, "i1"), ("param", 4, "i2"), ("param", 2, "f")
    ok_direct = sorted(map(repr, args)) == sorted(map(repr, [[i1p, fp_], [i2p, fp_]]))
    if not ok_direct and len(pre) == 1 and args[0] == [("elem", ("array", (i1p, i2p))), fp_]:
        # `for &candidate in &[i1, i2] { if self.write_to_bucket(candidate, f) { .. return Ok(true) } }`: both buckets are tried
        # provided the only way from this loop on to the kick loop is the exhaustion of the two candidates
        from ..guards import reach_without
        ch = [hh for hh in heads if pre[0][0] in ii.natural_loop(hh) and hh != h]
        if len(ch) == 1:
            cbody = ii.natural_loop(ch[0])
            ok_direct = True
            for b in cbody:
                for sx in ii.succs(b):
                    if sx in cbody or not reach_without(ii, sx, h, -1):
                        continue
                    blk = ii.blocks[b]
                    if not (blk.term.none_some_targets()[0] == sx and blk.stmts and blk.stmts[-1].k == "assign" and blk.stmts[-1].rv.k == "discr"):
                        ok_direct = False
    ctx.check(ok_direct, "R01-cuckoo-home", ii.key + ":direct", ii,
              "direct placements try (i1, f) then (i2, f)", "direct placements use %s" % [[fmt(y) for y in a] for a in args])
