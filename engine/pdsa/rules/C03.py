"""C03 — HyperLogLog: count() returns normally for any register contents; the tables the estimator reads agree in shape."""
import math
from ..terms import TermBuilder, fmt, mk, const, subterms
from ..terms import callee_is as _nm
from ..guards import atomic_facts, int_bounds, panic_sites, entails_ge0, discharged_by_facts

EXPLANATION = (
    "Only the last sentence of C03 is decided (count() returns normally for any register contents) plus the table agreement the "
    "estimator relies on. R03-pow2-index: the only index into POW2MINX is a u8 widened to usize and the array has >= 256 entries "
    "(type-level). R03-table-shape: THRESHOLD/RAW_ESTIMATE/BIAS tables each have hi - lo + 1 rows where [lo,hi] is the range "
    "asserted by with_registers_and_hash, the three *_OFFSET consts equal lo, len(RAW[r]) == len(BIAS[r]) >= K for every row, all "
    "entries finite; POW2MINX[i] == 2^-i > 0 (so z is finite and partial_cmp never sees NaN). Sortedness of the raw-estimate rows is "
    "deliberately not required (the published table for b = 6 has two inversions). R03-panic-census: the may-panic sites reachable "
    "from count inside the crate are exactly the allow-listed ones, each with its discharge."
    ' R03-threshold-window: 0 < THRESHOLD[b] <= 2*2^b, increasing — linear counting must not be used beyond the hand-over window the property tolerates. R03-table-index: the three tables are indexed with self.b - lo.'
)
from .common import NEW_WRITERS_NOTE as _NWN
EXPLANATION = EXPLANATION + _NWN % "03"
NOT_DECIDED = "table entries perturbed by less than one standard error of the estimator; " + ("every statistical clause of C03 — RMS error, bias, tail frequency, the linear-counting hand-over bump, small-range exactness: "
               "statements about a distribution over hash streams whose determining constants (alpha, ~3000 table values) have no code-shape oracle")
ASSUMPTIONS = ["registers.len() == 2^b and lo <= b <= hi for every HyperLogLog value (C20 R20-guarded-construction)", "bytecount::count does not panic"]

HLL = "hyperloglog::HyperLogLog"
D = "hyperloglog::data::"


def run(ctx):
    from .common import check_new_writers
    check_new_writers(ctx, "R03-new-writers", ['hyperloglog::HyperLogLog'])
    prog = ctx.prog
    ctor = ctx.anchor(HLL + "::with_registers_and_hash")
    count = ctx.anchor(HLL + "::count")
    if ctor is None or count is None:
        return
    # [lo, hi] from the constructor
    from .common import construction_blocks
    agg = construction_blocks(ctx, ctor, HLL)
    lo = hi = None
    if agg:
        lo, hi = int_bounds(atomic_facts(ctor, prog, agg[0]), ("param", 1, "b"))
    if lo is None or hi is None:
        ctx.fail("anchor-missing", "R03:ctor-range", ctor, "constructor does not establish a closed range for b")
        return
    rows = hi - lo + 1
    thr = prog.const_value(D + "THRESHOLD_DATA_VEC")
    raw = prog.const_value(D + "RAW_ESTIMATE_DATA_VEC")
    bias = prog.const_value(D + "BIAS_DATA_VEC")
    pow2 = prog.const_value(D + "POW2MINX")
    offs = {n: prog.const_value(D + n) for n in ("THRESHOLD_DATA_OFFSET", "RAW_ESTIMATE_DATA_OFFSET", "BIAS_DATA_OFFSET")}
    K = prog.const_value(HLL + "::estimate_bias::K")
    if None in (thr, raw, bias, pow2, K) or None in offs.values():
        ctx.fail("anchor-missing", "R03:tables", None, "a table or offset constant of hyperloglog::data was not found (%s)" % [k for k, v in (("THRESHOLD", thr), ("RAW", raw), ("BIAS", bias), ("POW2MINX", pow2), ("K", K)) if v is None])
        return
    for name, tbl in (("THRESHOLD_DATA_VEC", thr), ("RAW_ESTIMATE_DATA_VEC", raw), ("BIAS_DATA_VEC", bias)):
        ctx.check(len(tbl) == rows, "R03-table-shape", D + name + ":rows", prog.consts[D + name]["span"],
                  "%s has %d rows == hi - lo + 1 for b in [%d, %d]" % (name, len(tbl), lo, hi),
                  "%s has %d rows but the constructor admits b in [%d, %d] (%d precisions): count() would index out of bounds or use the wrong row" % (name, len(tbl), lo, hi, rows))
    for n, v in sorted(offs.items()):
        ctx.check(v == lo, "R03-table-shape", D + n, prog.consts[D + n]["span"], "%s == %d (smallest admitted b)" % (n, lo), "%s is %s but the smallest admitted b is %d" % (n, v, lo))
    # linear counting m*ln(m/V) is only usable while n is of the order of m: the property tolerates its hand-over bump for n in
    # [0.5 m, 2 m] only, so a threshold above 2 m keeps linear counting beyond the tolerated window (and 0 would disable it)
    offwin = [(lo + r, v) for r, v in enumerate(thr) if not (isinstance(v, int) and 0 < v <= 2 * (1 << (lo + r)))]
    mono = all(thr[r] < thr[r + 1] for r in range(len(thr) - 1))
    ctx.check(not offwin and mono, "R03-threshold-window", D + "THRESHOLD_DATA_VEC:window", prog.consts[D + "THRESHOLD_DATA_VEC"]["span"],
              "0 < THRESHOLD[b] <= 2 * 2^b for every b, increasing with b",
              "linear-counting thresholds outside (0, 2 * 2^b] or not increasing: %s — linear counting would be used beyond the hand-over window the property tolerates" % (offwin[:3] or "not monotone"))
    bad = [r for r in range(min(len(raw), len(bias))) if len(raw[r]) != len(bias[r]) or len(raw[r]) < K]
    ctx.check(not bad, "R03-table-shape", D + "RAW==BIAS", prog.consts[D + "BIAS_DATA_VEC"]["span"],
              "every row: len(RAW[r]) == len(BIAS[r]) >= K = %d (%d rows, %d values)" % (K, len(raw), sum(map(len, raw))),
              "rows %s: raw-estimate and bias rows differ in length or are shorter than K = %d" % (bad[:5], K))
    # R03-bias-outlier: count() subtracts the mean of the K nearest bias entries, so ONE entry that sits d away from the line through
    # its two neighbours shifts the estimate by about d / K. The accuracy clause budgets one standard error 1.04/sqrt(m) (relative,
    # the rule takes the cardinality at the grid point as raw - bias): an isolated entry costing more than that alone breaks it.
    # The threshold is the property's own error budget, not a number fitted to the tables (today's worst entry uses half of it).
    if not bad:
        outl = []
        worst = 0.0
        for r, (R_, B_) in enumerate(zip(raw, bias)):
            sigma = 1.04 / math.sqrt(1 << (lo + r))
            for i in range(1, len(B_) - 1):
                x0, x1, x2 = R_[i - 1], R_[i], R_[i + 1]
                if not all(isinstance(v, (int, float)) and math.isfinite(v) for v in (x0, x1, x2, B_[i - 1], B_[i], B_[i + 1])) or x2 == x0:
                    continue
                line = B_[i - 1] + (B_[i + 1] - B_[i - 1]) * (x1 - x0) / (x2 - x0)
                card = max(R_[i] - B_[i], 1.0)
                cost = abs(B_[i] - line) / K / (sigma * card)
                worst = max(worst, cost)
                if cost > 1.0:
                    outl.append((lo + r, i, B_[i], round(cost, 2)))
        ctx.check(not outl, "R03-bias-outlier", D + "BIAS_DATA_VEC:outliers", prog.consts[D + "BIAS_DATA_VEC"]["span"],
                  "no bias entry deviates from the line through its neighbours by more than K standard errors of the estimator (worst: %.2f of the budget)" % worst,
                  "bias entries (b, index, value, cost in standard errors) %s deviate from their neighbours by more than the whole error budget of count(): a mistyped table entry" % outl[:4])
    nonfinite = [(r, i) for tbl in (raw, bias) for r, row in enumerate(tbl) for i, v in enumerate(row) if not isinstance(v, (int, float)) or not math.isfinite(v)]
    ctx.check(not nonfinite and all(isinstance(v, int) and v >= 0 for v in thr), "R03-table-shape", D + "finite", None, "all table entries are finite numbers", "non-finite table entries at %s" % nonfinite[:3])
    okp = len(pow2) >= 256 and all(isinstance(v, float) and v > 0 and math.isfinite(v) for v in pow2)
    exact = okp and all(pow2[i] == 2.0 ** -i for i in range(len(pow2)))
    ctx.check(okp, "R03-table-shape", D + "POW2MINX:positive", prog.consts[D + "POW2MINX"]["span"], "POW2MINX has %d finite positive entries" % len(pow2), "POW2MINX has %d entries or a non-positive/non-finite one" % len(pow2))
    ctx.check(exact, "R03-table-shape", D + "POW2MINX:values", prog.consts[D + "POW2MINX"]["span"], "POW2MINX[i] == 2^-i for all i", "POW2MINX deviates from 2^-i at index %s" % [i for i in range(len(pow2)) if pow2[i] != 2.0 ** -i][:3])

    # ---- pow2 index --------------------------------------------------------------------------------------
    n_idx = 0
    for f in prog.fns.values():
        for bi, blk in enumerate(f.blocks):
            if blk.cleanup:
                continue
            for si, st in enumerate(blk.stmts):
                if st.k != "assign":
                    continue
                places = ([st.rv.place] if st.rv.place is not None else []) + [o.place for o in st.rv.ops if o.place is not None]
                for pl in places:
                    idx = [p for p in pl.proj if p["k"] == "index"]
                    if idx and f.local_ty(pl.local).startswith("[f64; "):
                        # is this local a copy of POW2MINX ?
                        defs = f.defs().get(pl.local, [])
                        if not (len(defs) == 1 and defs[0][2] == "stmt" and "POW2MINX" in str(defs[0][3].rv)):
                            continue
                        n_idx += 1
                        ctx.analysed_fns.add(f.key)
                        n = int(f.local_ty(pl.local)[6:-1])
                        il = idx[0]["local"]
                        src_ty = None
                        idefs = f.defs().get(il, [])
                        if len(idefs) == 1 and idefs[0][2] == "stmt" and idefs[0][3].rv.k == "cast" and idefs[0][3].rv.ops[0].place is not None:
                            src_ty = f.local_ty(idefs[0][3].rv.ops[0].place.local)
                        width = {"u8": 256, "bool": 2}.get(src_ty)
                        ctx.check(width is not None and width <= n, "R03-pow2-index", "%s:POW2MINX[..]" % f.key, st.span,
                                  "index is a %s widened to usize; array has %d entries" % (src_ty, n),
                                  "POW2MINX is indexed with a value of type %s (range not bounded by the array length %d): count() can panic on register contents" % (src_ty, n))
    ctx.floor("R03-pow2-index", n_idx, 1, "index sites into POW2MINX")

    # ---- panic census ----------------------------------------------------------------------------------------
    reach = {count.key}
    work = [count.key]
    while work:
        k = work.pop()
        f = prog.fn(k)
        for c in prog.closures_of(k):
            if c.key not in reach:
                reach.add(c.key)
                work.append(c.key)
        for bi, t in f.calls():
            c = t.callee()
            if t.callee_is_local() and c in prog.fns and c not in reach:
                reach.add(c)
                work.append(c)
    allow = {
        (HLL + "::count", "Assert:BoundsCheck"): (1, "POW2MINX[u8]: R03-pow2-index"),
        (HLL + "::estimate_bias", "Assert:Overflow:Sub"): (4, "b - OFFSET (OFFSET == lo <= b), len - 1 (len >= K >= 1), idx - 1 under idx > 0"),
        (HLL + "::estimate_bias", "Assert:Overflow:Add"): (1, "idx + 1 under idx < len - 1"),
        (HLL + "::estimate_bias", "Assert:BoundsCheck"): (5, "table rows by b - lo < rows (R03-table-shape); neighbours within [0, len) by the search invariants; bias_data[i], i < len(RAW[r]) == len(BIAS[r]) (R03-table-shape)"),
        (HLL + "::estimate_bias", "assert"): (1, "assert!(len >= K): every row has >= K entries (R03-table-shape)"),
        (HLL + "::estimate_bias", "panic"): (1, "`neighborhood search failed`: both cursors None needs len < K, excluded by R03-table-shape"),
        (HLL + "::threshold", "Assert:Overflow:Sub"): (1, "b - OFFSET, OFFSET == lo <= b"),
        (HLL + "::threshold", "Assert:BoundsCheck"): (1, "THRESHOLD[b - lo], rows == hi - lo + 1"),
        (HLL + "::neighbor_search_startpoints", "Assert:Overflow:Sub"): (2, "i - 1 on the branches where i != 0"),
        (HLL + "::neighbor_search_startpoints", "unwrap"): (1, "partial_cmp on finite table entries and finite e (POW2MINX > 0 => z finite)"),
    }
    found = {}
    n_local = 0
    for k in sorted(reach):
        f = prog.fn(k)
        ctx.analysed_fns.add(k)
        tbk = TermBuilder(f, prog)
        sites_k = panic_sites(f)
        safe_unwraps = set()
        if any(kind in ("unwrap", "expect") for (_, kind, _, _) in sites_k):
            # unwrap() of an Option whose variant every path has already established (a `match (left, right)` on the cursors
            # followed by `left.unwrap()` on the arms where left is Some)
            from ..paths import PathEnumerator
            seen_v = {}
            for pth in PathEnumerator(f, prog, ctx.summ, max_back=1, limit=4000).paths():
                for e in pth.events:
                    if e["kind"] == "call" and e["name"] in ("unwrap", "expect") and e.get("origin_fn") == f.key:
                        seen_v.setdefault(e["bb"], set()).add(e.get("arg_variant"))
            safe_unwraps = {b for b, vs in seen_v.items() if vs <= {"Some", "Ok"}}
        for (bi, kind, detail, span) in sites_k:
            # sites refuted by a dominating test of the same function need no entry in the table below
            why = discharged_by_facts(f, prog, bi, tbk)
            if why is None and bi in safe_unwraps:
                why = "unwrap() of a value every path has matched as Some"
            if why is None and kind == "Assert:Overflow:Add" and k == HLL + "::estimate_bias":
                # cursor payload + 1: the payload is a valid row index (R03-neighbour-bounds), so it is < len(row) <= isize::MAX
                blk = f.blocks[bi]
                for si in range(len(blk.stmts) - 1, -1, -1):
                    st = blk.stmts[si]
                    if st.k == "assign" and st.rv.k == "binop" and st.rv.j["op"] == "AddWithOverflow":
                        a0 = tbk.operand(st.rv.ops[0], bi, si)
                        def payload_of(x):
                            if x[0] == "call" and x[1].endswith("::unwrap"):
                                return x[2][0]
                            if x[0] == "field" and x[1][0] == "variant":
                                return x[1][1]
                            return None
                        pays = [payload_of(x) for x in (a0[1] if a0[0] == "phi" else (a0,))]
                        if pays and all(pp is not None and pp[0] == "loopvar" and isinstance(pp[1], int) and f.local_ty(pp[1]).startswith("std::option::Option<usize") for pp in pays) \
                                and tbk.operand(st.rv.ops[1], bi, si) == const(1):
                            why = "cursor payload + 1 (valid row index)"
                        break
            if why is None and kind in ("assert", "debug_assert") and k == HLL + "::estimate_bias":
                why = cursor_assert_discharge(f, prog, tbk, bi)
            if why is not None:
                n_local += 1
                continue
            # counted per kind over everything count() can reach: helpers get inlined, extracted and renamed (threshold() may live
            # inside count()), closures renumbered
            found.setdefault(("count() and callees", kind), []).append(span)
    budget = {}
    for (fk_, kind_), (n_, why_) in allow.items():
        b0 = budget.setdefault(kind_, [0, []])
        b0[0] += n_
        b0[1].append(why_)
    for key, spans in sorted(found.items()):
        kind_ = key[1]
        if kind_ in budget and len(spans) <= budget[kind_][0]:
            ctx.ok("R03-panic-census", "%s:%s" % key, "%d site(s) not refuted by a local test, each covered by: %s" % (len(spans), "; ".join(budget[kind_][1])[:300]))
        else:
            ctx.fail("R03-panic-census", "%s:%s" % key, spans[-1], "count() can reach %d may-panic site(s) of kind %s that no dominating test refutes; the table of argued sites covers %s — an undischarged panic on register contents"
                     % (len(spans), kind_, budget.get(kind_, (0,))[0]))
    ctx.floor("R03-panic-census", len(found), 4, "kinds of may-panic sites reachable from count")
    neighbour_bounds(ctx)
    # the table index terms are b - OFFSET
    for fk, tname in ((HLL + "::threshold", "THRESHOLD_DATA_VEC"), (HLL + "::estimate_bias", "RAW_ESTIMATE_DATA_VEC"), (HLL + "::estimate_bias", "BIAS_DATA_VEC")):
        f = prog.fn(fk)
        if f is None:
            continue
        tb = TermBuilder(f, prog)
        hit = False
        for bi, blk in enumerate(f.blocks):
            if blk.cleanup:
                continue
            for si, st in enumerate(blk.stmts):
                if st.k == "assign" and tname in str(st.rv):
                    # the indexed read follows: find statements indexing this local
                    l = st.place.local
                    for bj, blk2 in enumerate(f.blocks):
                        for sj, st2 in enumerate(blk2.stmts):
                            if st2.k == "assign":
                                for pl in ([st2.rv.place] if st2.rv.place is not None else []) + [o.place for o in st2.rv.ops if o.place is not None]:
                                    if pl.local == l and any(p["k"] == "index" for p in pl.proj):
                                        it = tb.local([p for p in pl.proj if p["k"] == "index"][0]["local"], bj, sj)
                                        want = mk("Sub", ("field", ("param", 1, "self"), "b"), const(lo))
                                        hit = True
                                        # a clamp of the INDEX to the table (`min(b - lo, len - 1)`) is never active: b <= hi and the table has
                                        # hi - lo + 1 rows (R03-table-shape); a clamp of b itself is a different index and stays reported
                                        if it != want and it[0] == "op" and it[1] == "min" and len(it[2]) == 2 and want in it[2]:
                                            cap_ = [z_ for z_ in it[2] if z_ != want][0]
                                            if cap_ == const(hi - lo) or (cap_[0] == "op" and cap_[1] == "Sub" and cap_[2][1] == const(1) and cap_[2][0][0] == "call"
                                                                          and cap_[2][0][1].rsplit("::", 1)[-1] == "len" and tname in fmt(cap_[2][0])):
                                                it = want
                                        ctx.check(it == want, "R03-table-index", "%s:%s" % (fk, tname), st2.span, "%s is indexed with self.b - %d" % (tname, lo), "%s is indexed with %s, expected self.b - %d" % (tname, fmt(it), lo))
        if not hit:
            ctx.fail("anchor-missing", "R03-table-index:%s:%s" % (fk, tname), f, "no indexed read of %s found in %s" % (tname, fk))


def cursor_assert_discharge(f, prog, tb, bi):
    """An assertion whose failure would need a cursor payload at or beyond len(row): the payloads of the two cursors are valid row
    indices (the invariant R03-neighbour-bounds establishes: seeded by neighbor_search_startpoints, every update tested)."""
    facts = atomic_facts(f, prog, bi, tb)
    if not facts:
        return None
    c, tr = facts[-1]

    def payload_of(x):
        if x[0] == "call" and x[1].endswith("::unwrap"):
            return x[2][0]
        if x[0] == "field" and x[1][0] == "variant":
            return x[1][1]
        return None

    def is_cursor(pp):
        if not (pp is not None and pp[0] == "loopvar" and isinstance(pp[1], int) and f.local_ty(pp[1]).startswith("std::option::Option<usize")):
            return None
        init = tb.loop_init(pp[1], pp[2])
        seeds = [s_ for s_ in subterms(init) if s_[0] == "call" and _nm(s_[1], "neighbor_search_startpoints")]
        return seeds[0][2][0] if seeds else None

    phis = [s_ for s_ in subterms(c) if s_[0] == "phi"]
    cands = [s_ for s_ in subterms(c) if payload_of(s_) is not None]
    alts = list(phis[0][1]) if len(phis) == 1 else (cands[:1] if len(cands) == 1 and not phis else [])
    if not alts:
        return None
    whole = phis[0] if len(phis) == 1 else cands[0]

    def subst(t):
        if t == whole:
            return x
        if isinstance(t, tuple):
            return tuple(subst(y) for y in t)
        return t
    for x in alts:
        row = is_cursor(payload_of(x))
        if row is None:
            return None
        ci = subst(c)
        ln = [s_ for s_ in subterms(ci) if s_[0] == "call" and s_[1].endswith("::len") and s_[2][0] == row]
        if not ln or not entails_ge0([(ci, tr)], mk("Sub", x, ln[0])):
            return None
    return "the assertion fails only for a cursor payload >= len(row), excluded by the cursor invariant (R03-neighbour-bounds)"


def neighbour_bounds(ctx):
    """R03-neighbour-bounds: the two cursors of the nearest-neighbour walk in estimate_bias (Option<usize>, seeded by
    neighbor_search_startpoints, each later used to index the row) only ever advance to an index that the dominating test proves
    to be inside the row: `Some(idx + c)` needs a fact giving idx + c < len(row), `Some(idx - c)` a fact giving idx >= c;
    `Some(idx + 1).filter(|n| n < len)` and `idx.checked_sub(1)` carry their own test. The cursor that is not moved keeps its value."""
    from ..terms import apply_closure, linear
    prog = ctx.prog
    f = ctx.anchor(HLL + "::estimate_bias")
    if f is None:
        return
    tb = TermBuilder(f, prog)
    n = 0
    for h in f.loop_heads():
        for l in range(len(f.locals)):
            if not (tb.defined_in_loop(l, h) and f.local_ty(l).startswith("std::option::Option<usize")):
                continue
            init = tb.loop_init(l, h)
            seeds = [s_ for s_ in subterms(init) if s_[0] == "call" and _nm(s_[1], "neighbor_search_startpoints")]
            if not seeds:
                continue
            row = seeds[0][2][0]
            ln = ("call", "core::slice::<impl [T]>::len", (row,))
            lv = ("loopvar", l, h)
            upd = tb.loop_update(l, h)
            for alt in (upd[1] if upd[0] == "phi" else (upd,)):
                n += 1
                name = f.local_name(l) or "_%d" % l
                key = "%s:%s" % (f.key, name)
                if alt == lv or (alt[0] == "adt" and alt[2] == "None"):
                    ctx.ok("R03-neighbour-bounds", key, "cursor kept / exhausted")
                    continue
                inner, own_test = alt, None
                if alt[0] == "call" and _nm(alt[1], "Option::filter") and len(alt[2]) == 2 and alt[2][1][0] == "closure":
                    inner = alt[2][0]
                    own_test = apply_closure(alt[2][1], (("elem", ("dummy",)),))
                if alt[0] == "call" and alt[1] == "bool::then_some" and len(alt[2]) == 2:
                    # `(idx + 1 < len).then_some(idx + 1)`: Some(x) exactly under the test, None otherwise
                    own_c, x = alt[2]
                    atoms, c = linear(x)
                    lens = [s_ for s_ in subterms(own_c) if s_[0] == "call" and s_[1].endswith("::len")]
                    if c > 0:
                        okf = bool(lens) and lens[0][2][0] == row and entails_ge0([(own_c, True)], mk("Sub", mk("Sub", lens[0], x), const(1)))
                    else:
                        okf = entails_ge0([(own_c, True)], x)
                    ctx.check(okf, "R03-neighbour-bounds", key, f, "(test).then_some(idx %+d) with a test that keeps it inside the row" % c,
                              "cursor %s: the test %s of then_some does not keep %s inside the row" % (name, fmt(own_c)[:120], fmt(x)[:80]))
                    continue
                if inner[0] == "call" and inner[1] == "checked" and inner[2][0][0] == "op" and inner[2][0][1] == "Sub":
                    ctx.ok("R03-neighbour-bounds", key, "checked_sub: None below 0")
                    continue
                if not (inner[0] == "adt" and inner[2] == "Some"):
                    ctx.shape("R03-neighbour-bounds", key, f, "cursor update %s is not understood" % fmt(alt)[:160])
                    continue
                x = inner[3][0][1]
                atoms, c = linear(x)
                if own_test is not None:
                    d = ("elem", ("dummy",))
                    lens = [s_ for s_ in subterms(own_test) if s_[0] == "call" and s_[1].endswith("::len")]
                    okf = bool(lens) and lens[0][2][0] == row and entails_ge0([(own_test, True)], mk("Sub", mk("Sub", lens[0], d), const(1)))
                    ctx.check(okf and c > 0, "R03-neighbour-bounds", key, f, "Some(idx + %d).filter(n < len(row))" % c, "cursor %s: the filter %s does not keep it below len(row)" % (name, fmt(own_test)[:120]))
                    continue
                # the aggregate's block and the facts that dominate it
                sites = [bi for bi, blk in enumerate(f.blocks) if bi in f.natural_loop(h) for si, st in enumerate(blk.stmts)
                         if st.k == "assign" and st.rv.k == "aggregate" and st.rv.j.get("variant") == "Some" and tb.rvalue(st.rv, bi, si) == inner]
                if not sites:
                    ctx.shape("R03-neighbour-bounds", key, f, "cannot locate the construction of %s" % fmt(inner)[:120])
                    continue
                okf = True
                for bi in sites:
                    facts = atomic_facts(f, prog, bi, tb)
                    lens = [s_ for c_, _ in facts for s_ in subterms(c_) if s_[0] == "call" and s_[1].endswith("::len") and s_[2][0] == row]
                    if c > 0:
                        okf = okf and bool(lens) and entails_ge0(facts, mk("Sub", mk("Sub", lens[0], x), const(1)))
                    else:
                        okf = okf and entails_ge0(facts, x)
                ctx.check(okf, "R03-neighbour-bounds", key, f, "Some(idx %+d) under a test that keeps it inside the row" % c,
                          "cursor %s is advanced to %s without a dominating test that keeps it %s: the next iteration indexes the row out of bounds and count() panics"
                          % (name, fmt(x)[:100], "below len(row)" if c > 0 else "at or above 0"))
    ctx.floor("R03-neighbour-bounds", n, 4, "cursor updates in the neighbour walk")
