"""C19 — clear() restores a fresh structure; clone() is an independent copy."""
from ..paths import PathEnumerator
from ..terms import TermBuilder, fmt, subterms
from ..terms import callee_is as _nm
from .common import SELF, self_field, methods_of, has_self_receiver, all_writes, rng_fields

EXPLANATION = (
    "R19-clear-covers-state: for every type with a `clear` method, Mut(S) = access paths below self written by any method "
    "other than constructors and clear (effect summaries over all paths, callees inlined) must be covered by Reset(S) = paths "
    "definitely reset on EVERY path of clear (store of a value not computed from the field's old contents, or a nested "
    "clear()/re-allocation); RNG-typed fields exempt. Constants stored by clear equal those stored by the constructor. "
    "R19-clone: Clone is derived (or a field-wise hand-written aggregate) and no field's type tree combines sharing (Rc/Arc/&) "
    "with interior mutability; external types must be in the table of value-like containers. R19-is-empty: is_empty reads only "
    "fields in Reset(S)."
    ' R19-is-empty-exact: is_empty is computed without any float-to-integer estimate. R19-clear-keeps-config: a field no other method writes may only be stored back unchanged by clear (whole-`*self` stores are expanded through the constructor).'
)
from .common import NEW_WRITERS_NOTE as _NWN
EXPLANATION = EXPLANATION + _NWN % "19"
NOT_DECIDED = "`same answers after any further identical operation sequence` as such — follows if all behaviour-influencing state is reset, which is what is decided, assuming configuration fields never change (checked)."
ASSUMPTIONS = [
    "external containers in the table (Vec, HashMap, BTreeSet, VecDeque, FixedBitSet, IntVector) are value-like: clear()/re-allocation empties them, Clone deep-copies",
    "Rc<T> keys in CMSHeap are immutable (T is only reached through Hash/Eq/Ord/Clone)",
]

VALUE_LIKE = {"std::vec::Vec", "std::collections::HashMap", "std::collections::BTreeSet", "std::collections::VecDeque",
              "std::collections::HashSet", "std::collections::BTreeMap", "fixedbitset::FixedBitSet", "succinct::IntVector",
              "std::marker::PhantomData", "std::alloc::Global", "std::hash::RandomState", "std::hash::BuildHasherDefault",
              "std::hash::DefaultHasher", "std::option::Option", "std::string::String", "std::any::TypeId"}
SHARING = {"std::rc::Rc", "std::sync::Arc", "&", "&mut", "*const", "*mut", "std::rc::Weak", "std::sync::Weak"}
INTERIOR = {"std::cell::RefCell", "std::cell::Cell", "std::cell::UnsafeCell", "std::sync::Mutex", "std::sync::RwLock", "std::cell::OnceCell"}
RESET_CALLS = {"clear", "truncate"}
SIZE_ONLY_CALLS = {"len", "element_bits", "capacity", "block_len"}


def norm_path(p):
    p = tuple(x for x in p if x not in ("[]", "*"))
    return p


def depends_on_old_contents(value, field_path):
    """does the stored value read the field's old contents (other than its size)?"""
    if value is None:
        return False
    bad = [False]

    def walk(t, under_size):
        if not isinstance(t, tuple) or not t:
            return
        k = t[0]
        if k == "field":
            # build path
            path = []
            cur = t
            while cur[0] == "field":
                path.append(cur[2])
                cur = cur[1]
            path.reverse()
            if cur[0] == "param" and cur[1] == 1 and tuple(path[:len(field_path)]) == tuple(field_path) and not under_size:
                bad[0] = True
            return
        if k == "call":
            nm = t[1].split("::")[-1]
            for a in t[2]:
                walk(a, under_size or nm in SIZE_ONLY_CALLS)
            return
        if k in ("op",):
            for a in t[2]:
                walk(a, under_size)
        elif k in ("cast",):
            walk(t[2], under_size)
        elif k in ("tuple", "phi"):
            for a in t[1]:
                walk(a, under_size)
        elif k == "adt":
            for _, a in t[3]:
                walk(a, under_size)
        elif k in ("index", ):
            walk(t[1], under_size)
            walk(t[2], under_size)
        elif k in ("tfield", "variant", "elem"):
            walk(t[1], under_size)
    walk(value, False)
    return bad[0]


def clear_methods(ctx):
    out = []
    for f in ctx.prog.fns.values():
        if f.name == "clear" and f.kind == "AssocFn" and has_self_receiver(f) and f.impl_self in ctx.prog.adts:
            out.append(f)
    return sorted(out, key=lambda f: f.key)


def reset_paths(ctx, clr):
    """(definite reset set, per-path list) for a clear method"""
    pe = PathEnumerator(clr, ctx.prog, ctx.summ)
    per_path = []
    const_stores = {}
    for p in pe.paths():
        if p.exit_kind != "return":
            continue
        rs = set()
        for e in p.events:
            if e["kind"] != "write" or e["root"] != SELF:
                continue
            path = norm_path(e["path"])
            if not path:
                continue
            if e["how"] == "store":
                if len(e["path"]) == len(path) and not depends_on_old_contents(e["value"], path):
                    rs.add(path)
                    if e["value"] is not None and e["value"][0] == "const":
                        const_stores.setdefault(path, set()).add(e["value"][1])
            elif e["how"] == "call" and e.get("name") in RESET_CALLS and len(e["path"]) == len(path):
                rs.add(path)
        # a container the path has just found empty needs no reset on that path (`if self.known.is_empty() { return; }`)
        from ..guards import fv as _fv
        from ..terms import mk as _mk, const as _const
        fd_ = {repr(c_): t_ for c_, t_ in pe.path_facts(p)}
        for (c_, t_) in pe.path_facts(p):
            for x_ in subterms(c_):
                if x_[0] == "call" and x_[1].rsplit("::", 1)[-1] in ("is_empty", "len") and len(x_[2]) == 1 and x_[2][0][0] == "field" and x_[2][0][1][:2] == ("param", 1):
                    empty = _fv(fd_, x_) is True if _nm(x_[1], "is_empty") else _fv(fd_, _mk("Eq", x_, _const(0))) is True
                    if empty:
                        rs.add((x_[2][0][2],))
            # a scalar the path has just found equal to a constant holds that constant without a store (`if .. && self.n == 0 { return; }`)
            if c_[0] == "op" and c_[1] in ("Eq", "Ne") and len(c_[2]) == 2 and t_ is (c_[1] == "Eq"):
                for a_, b_ in (c_[2], c_[2][::-1]):
                    if a_[0] == "field" and a_[1][:2] == ("param", 1) and b_[0] == "const" and (a_[2],) not in rs:
                        rs.add((a_[2],))
                        const_stores.setdefault((a_[2],), set()).add(b_[1])
        per_path.append(rs)
    if not per_path:
        return None, [], const_stores
    definite = set.intersection(*per_path)
    # in-place zero fill of a container field counts as a reset of that field
    from .common import elementwise_reset
    adt = ctx.prog.adts.get(clr.impl_self)
    if adt is not None:
        for fl in adt["variants"][0]["fields"]:
            if (fl["name"],) not in definite and elementwise_reset(ctx, clr, fl["name"]):
                definite.add((fl["name"],))
    return definite, per_path, const_stores


def float_estimate_sites(ctx, fn, depth=0, seen=None):
    """FloatToInt casts in fn and in the crate-local functions it calls"""
    seen = seen if seen is not None else set()
    if fn.key in seen or depth > 4:
        return []
    seen.add(fn.key)
    out = []
    for bi, blk in enumerate(fn.blocks):
        if blk.cleanup:
            continue
        for st in blk.stmts:
            if st.k == "assign" and st.rv.k == "cast" and st.rv.j["ck"] == "FloatToInt":
                out.append("%s:%d" % (fn.key.split("::")[-1], st.span["line"]))
        t = blk.term
        if t.k == "call" and t.callee_is_local():
            g = ctx.prog.fn(t.callee())
            if g is not None:
                out += float_estimate_sites(ctx, g, depth + 1, seen)
    for c in ctx.prog.closures_of(fn.key):
        out += float_estimate_sites(ctx, c, depth + 1, seen)
    return out


def nested_clear_prefixes(ctx, clr, clear_keys):
    """access-path prefixes on which a nested clear() is invoked on every returning path of clr"""
    pe = PathEnumerator(clr, ctx.prog, ctx.summ)
    per = []
    for p in pe.paths():
        if p.exit_kind != "return":
            continue
        here = set()
        for e in p.events:
            if e["kind"] == "call" and e["callee"] in clear_keys and e["callee"] != clr.key:
                pa = e["ptr_args"]
                if pa and pa[0] is not None and pa[0][1] is not None and pa[0][1].root == SELF:
                    here.add(norm_path(pa[0][1].path))
        per.append(here)
    return set.intersection(*per) if per else set()


def covered(path, resets):
    return any(path[:len(r)] == r for r in resets)


def constructor_field_terms(ctx, adt):
    """field -> set of terms stored by aggregates of `adt` in functions without self receiver"""
    out = {}
    for f in ctx.prog.fns.values():
        if f.impl_self != adt or has_self_receiver(f) or f.impl_derived:
            continue
        tb = TermBuilder(f, ctx.prog)
        # what the constructor RETURNS (fields may be finished by a helper after the literal: `let mut s = Self {..}; s.reset(); s`)
        r = tb.return_term()
        rets = [a for a in (r[1] if r[0] == "phi" else (r,)) if a[0] == "adt" and a[1] == adt]
        if rets:
            for t in rets:
                for name, ft in t[3]:
                    out.setdefault(name, set()).add(ft)
            continue
        for bi, blk in enumerate(f.blocks):
            if blk.cleanup:
                continue
            for si, st in enumerate(blk.stmts):
                if st.k == "assign" and st.rv.k == "aggregate" and st.rv.j.get("adt") == adt:
                    t = tb.rvalue(st.rv, bi, si)
                    for name, ft in t[3]:
                        out.setdefault(name, set()).add(ft)
    return out


def rebuilt_like_constructor(ctx, adt, fld, v):
    """clear() may rebuild a configuration field the way the constructor built it, from the configuration it still holds:
    `*self = Self::with_params(self.w, self.d, hasher.clone())` stores builder = new(self.w, self.d, self.builder.buildhasher).
    True iff v is the constructor's term for `fld` with every constructor parameter replaced by a term that still holds that
    parameter's value: self.g where the constructor stores exactly that parameter into g, or the part of the old `fld` into which
    the (crate-local) function that built it stores exactly that argument."""
    selfp_ = ("param", 1, "self")
    ctor = constructor_field_terms(ctx, adt)

    def unify(pat, t, m):
        if pat[0] == "param":
            k = pat[1]
            if k in m and m[k] != t:
                return False
            m[k] = t
            return True
        if not isinstance(pat, tuple) or not isinstance(t, tuple) or len(pat) != len(t):
            return pat == t
        for a, b in zip(pat, t):
            if isinstance(a, tuple) and isinstance(b, tuple):
                if not unify(a, b, m):
                    return False
            elif a != b:
                return False
        return True
    for ct in ctor.get(fld, ()):
        m = {}
        if not unify(ct, v, m):
            continue
        ok = True
        for k, t in m.items():
            held = False
            # self.g with the constructor storing parameter k into g
            if t[0] == "field" and t[1] == selfp_ and any(x[0] == "param" and x[1] == k for x in ctor.get(t[2], ())):
                held = True
            # a part of the old value of this very field: ct = f(.., param k at position i, ..) and f stores its i-th parameter there
            if not held and t[0] == "field" and t[1] == ("field", selfp_, fld) and ct[0] == "call" and ctx.prog.fn(ct[1]) is not None:
                pos = [i for i, x in enumerate(ct[2]) if x[0] == "param" and x[1] == k]
                g = ctx.prog.fn(ct[1])
                rg = TermBuilder(g, ctx.prog).return_term()
                if len(pos) == 1 and rg[0] == "adt":
                    inner = dict(rg[3]).get(t[2])
                    held = inner is not None and inner[0] == "param" and inner[1] == pos[0] + 1
            ok = ok and held
        if ok and m:
            return True
    return False


def run(ctx):
    from .common import check_new_writers
    check_new_writers(ctx, "R19-new-writers", ['filters::bloomfilter::BloomFilter', 'filters::cuckoofilter::CuckooFilter', 'filters::quotientfilter::QuotientFilter', 'countminsketch::CountMinSketch', 'hyperloglog::HyperLogLog', 'tdigest::TDigest', 'tdigest::TDigestInner', 'reservoirsampling::ReservoirSampling', 'topk::lossycounter::LossyCounter', 'topk::cmsheap::CMSHeap'])
    structures = run_clear_rules(ctx)
    run_clone_rules(ctx, structures)


def run_clear_rules(ctx, only_adt=None, floor=10):
    """R19-clear-covers-state / -constants / -is-empty; other properties re-use it for their structure (a sampler or sketch
    that keeps state across clear() violates their guarantees for the next stream)"""
    prog = ctx.prog
    clears = clear_methods(ctx)
    all_clear_keys = {c.key for c in clears}
    if only_adt is not None:
        clears = [c for c in clears if c.impl_self == only_adt]
    ctx.floor("R19-clear-covers-state", len(clears), floor, "types with a clear() method (9 public structures + TDigestInner)")
    structures = []
    for clr in clears:
        adt = clr.impl_self
        structures.append(adt)
        ctx.analysed_fns.add(clr.key)
        exempt = rng_fields(prog, adt)
        # Mut(S)
        mut = {}
        for m in methods_of(prog, adt):
            if not has_self_receiver(m) or m.name == "clear" or m.impl_derived:
                continue
            ctx.analysed_fns.add(m.key)
            for w in all_writes(ctx, m):
                if w["root"] != SELF or w["how"] == "borrow":
                    continue
                path = norm_path(w["path"])
                if not path or path[0] in exempt:
                    continue
                mut.setdefault(path, []).append((m, w))
        definite, per_path, const_stores = reset_paths(ctx, clr)
        if definite is None:
            ctx.fail("R19-clear-covers-state", adt + ":<no-return-path>", clr, "clear() has no returning path")
            continue
        short = adt.split("::")[-1]
        nested_cleared = nested_clear_prefixes(ctx, clr, all_clear_keys)
        for path in sorted(mut):
            m, w = mut[path][0]
            pstr = ".".join(path)
            if any(path[:len(pre)] == pre and len(path) > len(pre) for pre in nested_cleared):
                ctx.ok("R19-clear-covers-state", "%s:%s" % (adt, pstr), "`%s` belongs to a nested structure whose own clear() is called on every path (decided at that type)" % pstr, nontrivial=False)
                continue
            writers = sorted({mm.name for mm, _ in mut[path]})
            ctx.check(covered(path, definite), "R19-clear-covers-state", "%s:%s" % (adt, pstr), clr,
                      "`%s` (written by %s) is reset on every path of clear()" % (pstr, ",".join(writers)),
                      "%s::clear() does not reset `%s`, which is modified by %s (%s:%d) — a cleared %s differs from a fresh one"
                      % (short, pstr, ",".join(writers), w["span"]["file"], w["span"]["line"], short))
        # clear() must not change the configuration: a field that no other method writes may only be stored back unchanged
        selfp_ = ("param", 1, "self")
        for w in all_writes(ctx, clr):
            if w["root"] != SELF or w["how"] != "store" or len(w["path"]) != 1 or w.get("via"):
                continue
            fld = w["path"][0]
            if (fld,) in {p[:1] for p in mut} or fld in exempt or fld == "phantom":
                continue
            v = w.get("value")
            same = v is not None and (v == ("field", selfp_, fld) or (v[0] == "adt" and not v[3]))
            if not same and v is not None:
                same = rebuilt_like_constructor(ctx, adt, fld, v)
            ctx.check(same, "R19-clear-keeps-config", "%s:%s" % (adt, fld), w["span"],
                      "clear() stores `%s` back unchanged" % fld,
                      "%s::clear() overwrites the configuration field `%s` with %s: the cleared structure no longer has the configuration it was built with"
                      % (short, fld, fmt(v)[:160] if v else "?"))
        # constants agree with the constructor
        ctor = constructor_field_terms(ctx, adt)
        for path, vals in sorted(const_stores.items()):
            if len(path) != 1 or path not in definite:
                continue
            cvals = {t[1] for t in ctor.get(path[0], ()) if t[0] == "const"}
            if not cvals:
                continue
            same = all(repr(v) in {repr(c) for c in cvals} for v in vals)
            ctx.check(same, "R19-clear-constants", "%s:%s" % (adt, path[0]), clr,
                      "clear() stores %s into `%s`, as the constructor does" % (sorted(map(repr, vals)), path[0]),
                      "clear() stores %s into `%s` but the constructor initialises it with %s" % (sorted(map(repr, vals)), path[0], sorted(map(repr, cvals))))
        # is_empty reads only reset / never-mutated state
        for ie in methods_of(prog, adt):
            if ie.name != "is_empty":
                continue
            ctx.analysed_fns.add(ie.key)
            tb = TermBuilder(ie, prog)
            reads = set()
            for bi, blk in enumerate(ie.blocks):
                if blk.cleanup:
                    continue
                for si, st in enumerate(blk.stmts):
                    if st.k == "assign":
                        for pl in ([st.rv.place] if st.rv.place is not None else []) + [o.place for o in st.rv.ops if o.place is not None]:
                            if pl.local == 1 and pl.proj:
                                fs = pl.fields()
                                if fs:
                                    reads.add(tuple(fs[:1]))
            # a wrapper that only hands its nested structure to that structure's own is_empty is decided there
            delegates = set()
            from ..paths import Origins
            org = Origins(ie)
            for bi, t in ie.calls():
                if t.callee_is_local() and t.callee_name() == "is_empty" and t.args and t.args[0].place is not None and t.args[0].place.is_local():
                    o = org.of_local(t.args[0].place.local)
                    if o is not None and o.root == SELF and o.path:
                        delegates.add(tuple(o.path[:1]))
            # is_empty must be decided exactly from the state: no floating-point estimate (float -> int cast) on the way
            lossy = float_estimate_sites(ctx, ie)
            ctx.check(not lossy, "R19-is-empty-exact", ie.key, ie, "is_empty is computed without any float-to-integer estimate",
                      "is_empty depends on a truncated floating-point estimate (%s): it can be true while elements are present" % ", ".join(lossy[:2]))
            unreset = [r for r in reads if r in {p[:1] for p in mut} and not covered(r, definite) and r not in delegates]
            ctx.check(not unreset, "R19-is-empty", ie.key, ie, "is_empty reads %s — all reset by clear()" % sorted(".".join(r) for r in reads),
                      "is_empty reads `%s`, which clear() does not reset" % ".".join(unreset[0]) if unreset else "")

    return structures


def run_clone_rules(ctx, structures):
    prog = ctx.prog
    # ---- R19-clone ------------------------------------------------------------------
    n_clone = 0
    for adt in sorted(set(structures)):
        a = prog.adts[adt]
        clone_impls = [i for i in prog.impls if i["self"] == adt and i["trait"] == "std::clone::Clone"]
        if adt == "tdigest::TDigestInner" or clone_impls:
            pass
        if not clone_impls:
            ctx.fail("R19-clone", adt + ":impl", None, "%s has no Clone impl" % adt)
            continue
        n_clone += 1
        imp = clone_impls[0]
        if not imp["derived"]:
            ok = handwritten_clone_ok(ctx, adt, imp)
            ctx.check(ok, "R19-clone", adt + ":impl", None, "hand-written Clone builds the aggregate from a clone of every field", "hand-written Clone of %s does not clone every field" % adt)
        else:
            ctx.ok("R19-clone", adt + ":impl", "Clone is #[derive]d (field-wise)", nontrivial=False)
        for fl in a["variants"][0]["fields"]:
            r = set(fl["reach"])
            shared = r & SHARING
            interior = r & INTERIOR
            unknown = {x for x in r if not x.startswith("param:") and x not in VALUE_LIKE and x not in SHARING and x not in INTERIOR and x not in prog.adts}
            cons = "%s:%s" % (adt, fl["name"])
            if unknown:
                ctx.fail("R19-clone", cons, a["span"], "field `%s` contains external type(s) %s not in the table of value-like containers — clone independence cannot be decided" % (fl["name"], sorted(unknown)))
                continue
            if shared and interior:
                ctx.fail("R19-clone", cons, a["span"], "field `%s` combines sharing (%s) with interior mutability (%s): a derived clone would share mutable state" % (fl["name"], sorted(shared), sorted(interior)))
            elif shared:
                # shared but immutable: allowed only for Rc keys
                ctx.check(shared <= {"std::rc::Rc"}, "R19-clone", cons, a["span"],
                          "field `%s` shares Rc<..> keys between clones; no interior mutability reachable, so the shared data is immutable" % fl["name"],
                          "field `%s` holds %s: clones would alias" % (fl["name"], sorted(shared)))
            else:
                ctx.ok("R19-clone", cons, "field `%s` owns its data (%s)" % (fl["name"], ", ".join(sorted(x for x in r if not x.startswith("std::alloc"))) or "plain value"), nontrivial=bool(r))
    ctx.floor("R19-clone", n_clone, 10, "Clone impls of stateful structures")


def handwritten_clone_ok(ctx, adt, imp):
    for it in imp["items"]:
        if it["name"] == "clone":
            f = ctx.prog.fn(it["key"])
            if f is None:
                return False
            tb = TermBuilder(f, ctx.prog)
            r = tb.return_term()
            if r[0] != "adt" or r[1] != adt:
                return False
            want = {fl["name"] for fl in ctx.prog.adts[adt]["variants"][0]["fields"]}
            got = {}
            for name, t in r[3]:
                got[name] = t
            return set(got) == want and all(got[n] == ("field", ("param", 1, "self"), n) for n in want)
    return False
