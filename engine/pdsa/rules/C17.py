"""C17 — HyperLogLog state is a function of the set of distinct hashes."""
from ..terms import TermBuilder, fmt, mk, const, subterms, linear, elem_of, erase_param_names
from ..terms import callee_is as _nm
from .common import SELF, self_field, methods_of, has_self_receiver, all_writes

EXPLANATION = (
    "R17-max-only: the only non-reset writes to `registers` anywhere in the crate are registers[j] = max(registers[j], p) in "
    "add_hashed and the element-wise max in merge (writer census) — a join-semilattice update, so permutations and repetitions of "
    "adds give identical registers. R17-index-rank: j is the low b bits of the hash (accepted forms h-((h>>b)<<b), h&((1<<b)-1), "
    "h%(1<<b)) and p = leading_zeros(h>>b) + 1 - b (linear normal form), narrowed to u8 losslessly (p <= 61 given 4 <= b). "
    "R17-delegation: add(obj) = add_hashed(hash_one(buildhasher, obj)); Extend impls call add per item. R17-roundtrip: the "
    "constructor stores its registers argument unmodified, registers() returns the field, derived PartialEq covers registers, b, buildhasher."
    ' The join is applied on every path of add_hashed — either `cell = max(cell, p)` unconditionally or `if cell < p { cell = p }` (skipped exactly when it is a no-op).'
)
from .common import NEW_WRITERS_NOTE as _NWN
EXPLANATION = EXPLANATION + _NWN % "17"
NOT_DECIDED = "nothing structural; count() accuracy is C03"
ASSUMPTIONS = ["u64::leading_zeros(0) == 64", "cmp::max on u8 is the lattice join"]

HLL = "hyperloglog::HyperLogLog"


def strip_int_casts(t):
    if not isinstance(t, tuple) or not t:
        return t
    if t[0] == "cast" and t[1] in ("u8", "u16", "u32", "u64", "usize", "i32", "i64"):
        return strip_int_casts(t[2])
    return tuple(strip_int_casts(x) if isinstance(x, tuple) else x for x in t)


def low_bits_form(t):
    """(h, b) if t == h mod 2^b in one of the accepted spellings"""
    t = strip_int_casts(t)
    if t[0] != "op":
        return None
    n, a = t[1], t[2]
    if n == "Sub" and len(a) == 2:
        h, r = a
        if r[0] == "op" and r[1] == "Shl" and r[2][0][0] == "op" and r[2][0][1] == "Shr" and r[2][0][2][0] == h and r[2][0][2][1] == r[2][1]:
            return h, r[2][1]
    if n == "BitAnd" and len(a) == 2:
        for h, m in (a, a[::-1]):
            if m[0] == "op" and m[1] == "Sub" and m[2][1] == const(1) and m[2][0][0] == "op" and m[2][0][1] == "Shl" and m[2][0][2][0] == const(1):
                return h, m[2][0][2][1]
    if n == "Rem" and len(a) == 2:
        h, m = a
        if m[0] == "op" and m[1] == "Shl" and m[2][0] == const(1):
            return h, m[2][1]
    return None


def run(ctx):
    from .common import check_new_writers
    check_new_writers(ctx, "R17-new-writers", ['hyperloglog::HyperLogLog'])
    prog = ctx.prog
    ah = ctx.anchor(HLL + "::add_hashed")
    if ah is None:
        return
    selfp = ("param", 1, "self")
    b_f = ("field", selfp, "b")
    h_p = ("param", 2, ah.local_name(2))

    # ---- census -----------------------------------------------------------------------
    from .common import join_store, elementwise_reset
    n = 0
    for m in sorted(methods_of(prog, HLL), key=lambda f: f.key):
        if not has_self_receiver(m) or m.impl_derived:
            continue
        ctx.analysed_fns.add(m.key)
        for w in all_writes(ctx, m):
            if w["root"] != SELF or self_field(w) != "registers" or w["how"] == "borrow" or w.get("via"):
                continue
            n += 1
            v = w.get("value")
            kind = None
            if w["how"] == "store" and v is not None:
                whole = "[]" not in w["path"]
                if whole and v[0] == "call" and _nm(v[1], "from_elem") and v[2][0] == const(0):
                    kind = "reset"
                elif whole and v[0] == "call" and _nm(v[1], "collect"):
                    e = erase_param_names(elem_of(v[2][0]))
                    if e[0] == "op" and e[1] == "max" and {repr(x) for x in e[2]} == {repr(("elem", ("field", ("param", 1, None), "registers"))), repr(("elem", ("field", ("param", 2, None), "registers")))}:
                        kind = "max"
                elif not whole and m.key == ah.key and join_store(ctx, ah, "registers")["form"] is not None:
                    kind = "max"
                elif not whole and elementwise_reset(ctx, m, "registers"):
                    kind = "reset"
                elif not whole and v[0] == "op" and v[1] == "max":
                    # one side must be the old value of the same cell
                    idx = [x for x in w_index_terms(ctx, m)]
                    old = [x for x in v[2] if x[0] == "index" and x[1] == ("field", selfp, "registers")]
                    if old and all(old[0][2] == i for i in idx):
                        kind = "max"
            if kind is None and w["how"] == "call" and w.get("name") == "fill" and elementwise_reset(ctx, m, "registers"):
                kind = "reset"
            if kind is None and w["how"] == "store" and m.arg_count == 2:
                from .common import cellwise_merge
                cm = cellwise_merge(ctx, m, "registers")
                if cm["form"] is not None and cm["elem"][0] == "op" and cm["elem"][1] == "max":
                    kind = "max"
            ctx.check(kind in ("max", "reset"), "R17-max-only", "%s@%s" % (HLL, m.name), w["span"],
                      "%s writes registers with %s" % (m.name, kind),
                      "%s writes `registers` with something other than max(old, new) / zero-fill: %s" % (m.name, fmt(v)[:200] if v else w.get("name")))
    ctx.floor("R17-max-only", n, 3, "writers of registers (add_hashed, merge, clear)")

    # the join must be applied on every call (or skipped exactly when it is a no-op)
    from .common import join_store, elementwise_reset
    js = join_store(ctx, ah, "registers")
    ctx.check(js["form"] is not None, "R17-max-only", ah.key + ":unconditional", js.get("span", ah),
              "registers[j] is joined with the new rank on every path (%s)" % js.get("form"),
              "add_hashed: %s" % js.get("why"))

    # ---- index / rank ------------------------------------------------------------------------
    tb = TermBuilder(ah, prog)
    idxs = w_index_terms(ctx, ah)
    vals = [w["value"] for w in all_writes(ctx, ah) if self_field(w) == "registers" and w["how"] == "store"]
    ok_j = bool(idxs)
    for j in idxs:
        lf = low_bits_form(j)
        if not (lf and lf[0] == h_p and lf[1] == b_f):
            # h & (registers.len() - 1): the same low b bits provided registers.len() == 1 << b is an invariant of the type —
            # every construction site establishes it (the obligation C20 checks) and no writer replaces the vector by one of
            # another length
            jm = strip_int_casts(j)
            lenm1 = mk("Sub", ("call", "[T]::len", (("field", selfp, "registers"),)), const(1))
            lenm1v = mk("Sub", ("call", "std::vec::Vec::len", (("field", selfp, "registers"),)), const(1))
            if jm[0] == "op" and jm[1] == "BitAnd" and len(jm[2]) == 2 and h_p in jm[2] and (lenm1 in jm[2] or lenm1v in jm[2]) and len_is_pow2_b(ctx):
                continue
            ok_j = False
    ctx.check(ok_j, "R17-index-rank", ah.key + ":j", ah, "register index is the low b bits of the hash (%s)" % (fmt(idxs[0]) if idxs else "?"),
              "register index %s is not `hash mod 2^b`" % (fmt(idxs[0]) if idxs else "<none>"))
    ok_p = False
    desc = ""
    js2 = join_store(ctx, ah, "registers")
    if js2["form"] is not None:
        new = [js2["new"]]
        if len(new) == 1:
            p = new[0]
            desc = fmt(p)
            narrow = p[0] == "cast" and p[1] == "u8"
            atoms, c = linear(strip_int_casts(p))
            want_lz = repr(("op", "leading_zeros", (mk("Shr", h_p, b_f),)))
            coeffs = {r: v[1] for r, v in atoms.items()}
            ok_p = narrow and c == 1 and coeffs == {want_lz: 1, repr(b_f): -1}
            if not ok_p and narrow and c == 1 and len(atoms) == 1 and list(coeffs.values()) == [1]:
                # leading_zeros(h >> b) == min(leading_zeros(h) + b, 64), so the rank is also min(leading_zeros(h), 64 - b) + 1
                a_ = list(atoms.values())[0][0]
                if a_[0] == "op" and a_[1] == "min" and len(a_[2]) == 2 and ("op", "leading_zeros", (h_p,)) in a_[2]:
                    cap = [x for x in a_[2] if x != ("op", "leading_zeros", (h_p,))]
                    if len(cap) == 1:
                        at2, c2 = linear(cap[0])
                        ok_p = c2 == 64 and {r: v[1] for r, v in at2.items()} == {repr(b_f): -1}
    ctx.check(ok_p, "R17-index-rank", ah.key + ":p", ah, "rank is leading_zeros(h >> b) + 1 - b, stored as u8 (lossless: <= 61 for b >= 4)",
              "rank term %s is not `leading_zeros(hash >> b) + 1 - b` narrowed to u8" % desc)

    # ---- delegation ----------------------------------------------------------------------------
    add = ctx.anchor(HLL + "::add")
    if add is not None:
        tba = TermBuilder(add, prog)
        calls = [(bi, t) for bi, t in add.calls() if t.callee() == ah.key]
        okd = False
        if len(calls) == 1:
            bi, t = calls[0]
            a = [tba.operand(x, bi, len(add.blocks[bi].stmts)) for x in t.args]
            okd = a[0][:2] == ("param", 1) and a[1] == ("call", "std::hash::BuildHasher::hash_one", (("field", ("param", 1, "self"), "buildhasher"), ("param", 2, add.local_name(2))))
        ctx.check(okd and len(add.exits()) == 1, "R17-delegation", add.key, add, "add(obj) == add_hashed(buildhasher.hash_one(obj))", "add does not delegate to add_hashed(hash_one(self.buildhasher, obj))")
    n_ext = 0
    for f in prog.fns.values():
        if f.impl_self == HLL and f.impl_trait == "std::iter::Extend" and f.name == "extend":
            n_ext += 1
            ctx.analysed_fns.add(f.key)
            tbe = TermBuilder(f, prog)
            calls = [(bi, t) for bi, t in f.calls() if t.callee() == HLL + "::add"]
            oke = False
            if len(calls) == 1:
                bi, t = calls[0]
                a = [tbe.operand(x, bi, len(f.blocks[bi].stmts)) for x in t.args]
                oke = a[1] == ("elem", ("param", 2, f.local_name(2)))
                heads = f.loop_heads()
                from .common import loop_exits_only_on_exhaustion
                oke = oke and len(heads) == 1 and loop_exits_only_on_exhaustion(f, heads[0]) and bi in f.natural_loop(heads[0])
            if not oke and not calls and not f.loop_heads():
                # iter.into_iter().for_each(|x| self.add(x)): for_each visits every item; the closure must call add(self, item) on each path
                from ..paths import PathEnumerator
                fe = [(bi, t) for bi, t in f.calls() if t.callee_decl() == "std::iter::Iterator::for_each"]
                if len(fe) == 1:
                    bi, t = fe[0]
                    a = [tbe.operand(x, bi, len(f.blocks[bi].stmts)) for x in t.args]
                    if a[0] == ("param", 2, f.local_name(2)) and a[1][0] == "closure" and prog.fn(a[1][1]) is not None and a[1][2] and a[1][2][0][:2] == ("param", 1):
                        cf_ = prog.fn(a[1][1])
                        ctx.analysed_fns.add(cf_.key)
                        item = ("param", 2, cf_.local_name(2))
                        ps = [p for p in PathEnumerator(cf_, prog, ctx.summ).paths() if p.exit_kind == "return"]
                        oke = bool(ps) and all(
                            [e["args"][1] for e in p.events if e["kind"] == "call" and e["callee"] == HLL + "::add"] == [item] for p in ps)
            ctx.check(oke, "R17-delegation", f.key, f, "extend calls add for every item of the iterator", "extend does not call add(item) for every item")
    ctx.floor("R17-delegation", n_ext, 2, "Extend impls")

    # ---- round trip ----------------------------------------------------------------------------------
    ctor = ctx.anchor(HLL + "::with_registers_and_hash")
    if ctor is not None:
        r = TermBuilder(ctor, prog).return_term()
        d = dict(r[3]) if r[0] == "adt" else {}
        ctx.check(d.get("registers", ("x",))[:2] == ("param", 2) and d.get("b", ("x",))[:2] == ("param", 1) and d.get("buildhasher", ("x",))[:2] == ("param", 3),
                  "R17-roundtrip", ctor.key, ctor, "constructor stores (b, registers, buildhasher) unmodified", "constructor transforms its arguments: %s" % fmt(r))
    if ctor is not None:
        # R17-ctor-admits: registers().to_vec() of ANY sketch must be accepted back. A register can hold every rank add_hashed can
        # produce: leading_zeros(h >> b) + 1 - b with leading_zeros in [b, 64], i.e. 1 ..= 65 - b (and 0 for an untouched register).
        # Panic sites of the constructor whose condition looks at register VALUES (not at b or the length) must admit all of them.
        from ..guards import panic_sites, atomic_facts, entails_ge0
        from ..terms import apply_closure
        tbc = TermBuilder(ctor, prog)
        regp = ("param", 2, ctor.local_name(2))
        b_p = ("param", 1, ctor.local_name(1))
        n_val = 0
        for (bi, kind, detail, span) in panic_sites(ctor):
            if not (kind in ("assert", "panic", "debug_assert", "assert_eq", "assert_ne") or kind.startswith("Assert:BoundsCheck")):
                continue
            for c, tr in atomic_facts(ctor, prog, bi, tbc):
                looks_at_values = any(s_ in (("elem", regp),) or (s_[0] == "index" and s_[1] == regp) or
                                      (s_[0] == "call" and s_[1].endswith(("::all", "::any", "::max", "::min", "::fold")) and s_[2] and s_[2][0] == regp) for s_ in subterms(c))
                if not looks_at_values:
                    continue
                n_val += 1
                okv, why = False, "the validation %s is not understood" % fmt(c)[:120]
                if c[0] == "call" and c[1].endswith("::all") and len(c[2]) == 2 and c[2][1][0] == "closure" and tr is False:
                    # panics unless every register satisfies the predicate: the predicate must hold for every rank up to 65 - b
                    d_ = ("elem", ("dummy",))
                    pred = apply_closure(c[2][1], (d_,))
                    if pred[0] == "op" and pred[1] in ("Le", "Lt") and len(pred[2]) == 2:
                        lhs, rhs = pred[2]
                        lhs = lhs[2] if lhs[0] == "cast" else lhs
                        if lhs == d_:
                            top = mk("Sub", const(65), b_p)
                            need = mk("Sub", rhs, top) if pred[1] == "Le" else mk("Sub", mk("Sub", rhs, top), const(1))
                            okv = entails_ge0([], need)
                            why = "registers are required to be %s %s, but add_hashed stores ranks up to 64 - b + 1 (hash with no set bit above the address bits)" % ("<=" if pred[1] == "Le" else "<", fmt(rhs))
                ctx.check(okv, "R17-ctor-admits", "%s:value-validation" % ctor.key, span, "the constructor's validation of register values admits every reachable rank",
                          "with_registers_and_hash rejects register contents that add_hashed can produce, so registers().to_vec() does not always round-trip: %s" % why)
        if n_val == 0:
            ctx.ok("R17-ctor-admits", ctor.key, "the constructor does not validate register values (every byte vector of the right length is admitted)", nontrivial=False)
    regs = ctx.anchor(HLL + "::registers")
    if regs is not None:
        r = TermBuilder(regs, prog).return_term()
        ctx.check(r == ("field", ("param", 1, "self"), "registers"), "R17-roundtrip", regs.key, regs, "registers() borrows the field", "registers() is %s" % fmt(r))
    peq = [i for i in prog.impls if i["self"] == HLL and i["trait"] == "std::cmp::PartialEq"]
    okq = False
    if peq and peq[0]["derived"]:
        eqf = prog.fn([it["key"] for it in peq[0]["items"] if it["name"] == "eq"][0])
        ctx.analysed_fns.add(eqf.key)
        tbq = TermBuilder(eqf, prog)
        seen = set()
        for bi, blk in enumerate(eqf.blocks):
            for si, st in enumerate(blk.stmts):
                if st.k == "assign":
                    for pl in ([st.rv.place] if st.rv.place is not None else []) + [o.place for o in st.rv.ops if o.place is not None]:
                        seen |= set(pl.fields())
            if blk.term.k == "call":
                for a in blk.term.args:
                    if a.place is not None:
                        t = tbq.operand(a, bi, len(blk.stmts))
                        for s in subterms(t):
                            if s[0] == "field":
                                seen.add(s[2])
        okq = {"registers", "b", "buildhasher"} <= seen
    ctx.check(okq, "R17-roundtrip", HLL + ":PartialEq", None, "derived PartialEq compares registers, b and buildhasher", "PartialEq for HyperLogLog is not derived over registers, b, buildhasher")


def w_index_terms(ctx, m):
    out = []
    for w in all_writes(ctx, m):
        if self_field(w) == "registers" and w["how"] == "borrow" and w.get("name") == "index_mut" and not (w["args"][1][0] == "adt" and w["args"][1][1] == "std::ops::RangeFull"):
            out.append(w["args"][1])
    return out


def len_is_pow2_b(ctx):
    """registers.len() == 1 << b in every reachable HyperLogLog: each aggregate site either copies an existing value or is dominated by
    the fact len(registers) == 1 << b, and every whole-vector store to the field keeps the length"""
    from .C20 import aggregate_sites, site_obligation
    prog = ctx.prog
    selfp = ("param", 1, "self")
    sites = aggregate_sites(prog, HLL)
    if not sites:
        return False
    for (f, bi, si, st) in sites:
        tb = TermBuilder(f, prog)
        d = dict(tb.rvalue(st.rv, bi, si)[3])
        srcs = {repr(d[n][1]) if d.get(n) is not None and d[n][0] == "field" and d[n][2] == n else None for n in ("registers", "b")}
        if None not in srcs and len(srcs) == 1:
            continue
        if not site_obligation(ctx, f, bi, d["b"], d["registers"], tb)[2]:
            return False
    lens = [("call", n, (("field", selfp, "registers"),)) for n in ("[T]::len", "std::vec::Vec::len")]
    for m in methods_of(prog, HLL):
        if not has_self_receiver(m) or m.impl_derived:
            continue
        for w in all_writes(ctx, m):
            if w["root"] != SELF or self_field(w) != "registers" or w.get("via"):
                continue
            if w["how"] == "borrow":
                continue
            if w["how"] == "store" and "[]" in w["path"]:
                continue
            v = w.get("value")
            if w["how"] == "store" and v is not None and v[0] == "call" and _nm(v[1], "from_elem") and (v[2][1] in lens or v[2][1] == mk("Shl", const(1), ("field", selfp, "b"))):
                continue
            if w["how"] == "store" and v is not None and v[0] == "call" and _nm(v[1], "collect"):
                from .common import cellwise_merge
                if cellwise_merge(ctx, m, "registers")["form"] is not None:
                    continue
            if w["how"] == "call" and w.get("name") in ("fill", "iter_mut", "as_mut_slice", "index_mut"):
                continue
            return False
    return True
