"""C07 — filters built from accuracy targets are usable (sizing intervals) and encode fingerprints correctly."""
from ..terms import TermBuilder, fmt, mk, const, subterms
from ..terms import callee_is as _nm
from ..guards import atomic_facts
from ..intervals import ieval, float_facts_to_env, cancel_products, Iv
from .common import self_field_term

EXPLANATION = (
    "R07-sizing-intervals: in BloomFilter::with_properties_and_hash the parameters are refined by the function's own asserts "
    "(n >= 1, 0 < p < 1), the intervals are pushed through the normalised terms of the two values passed to with_params_and_hash "
    "and must give m >= 1 and k >= 1; likewise CuckooFilter::with_properties_and_hash_n for both instantiations (bucketsize and "
    "load factor read from the callers) must give l_fingerprint >= 2 and n_buckets >= 2, a power of two (common factors are "
    "cancelled before intervals are taken). R07-fingerprint-nonzero: CuckooFilter::fingerprint returns 1 + (h % M) with "
    "M = 2^l - 1 (u64::MAX when l = 64): in [1, 2^l - 1], never the free-slot marker, never wider than a slot. R07-divisor-nonzero: "
    "every % by the iterator's m is listed with its discharge."
    " R07-len-estimator: BloomFilter::len() is -(m/k)*ln(1 - x/m) (compared as an exact rational function over m, k, x and the ln atom)."
    " R07-double-hashing: iter_for reduces both base hashes (IV 0 and 1) modulo m, next() yields (h1 + i*h2 + f(i)) mod m, f has k entries modulo m. The cuckoo `accepts n inserts without Full` clause presupposes relocation to the alternate bucket: C01's kick-loop typestate rule is applied. The quotient filter's bound presupposes a lookup confined to the run of its quotient and an exact q+r-bit split: C13's R13-scan / R13-split rules are applied."
)
from .common import NEW_WRITERS_NOTE as _NWN
EXPLANATION = EXPLANATION + _NWN % "07"
NOT_DECIDED = "every frequency statement (false-positive rates, len() accuracy, cuckoo load without Full): distributions over hashers and keys"
ASSUMPTIONS = ["real-number semantics for f64 (rounding ignored)", "`x as usize` truncates and saturates"]

BLOOM = "filters::bloomfilter::BloomFilter"
CF = "filters::cuckoofilter::CuckooFilter"


def run(ctx):
    from .common import check_new_writers
    check_new_writers(ctx, "R07-new-writers", ['filters::bloomfilter::BloomFilter', 'filters::cuckoofilter::CuckooFilter', 'filters::quotientfilter::QuotientFilter'])
    prog = ctx.prog
    # ---- Bloom ------------------------------------------------------------------------------
    f = ctx.anchor(BLOOM + "::with_properties_and_hash")
    if f is not None:
        tb = TermBuilder(f, prog)
        site = [(bi, t) for bi, t in f.calls() if t.callee_name() == "with_params_and_hash"]
        if len(site) != 1:
            ctx.shape("R07-sizing-intervals", f.key, f, "expected one call of with_params_and_hash, found %d" % len(site))
        else:
            bi, t = site[0]
            a = [cancel_products(tb.operand(x, bi, len(f.blocks[bi].stmts))) for x in t.args]
            facts = atomic_facts(f, prog, bi, tb)
            env = float_facts_to_env(facts)
            # integer parameter n: `0 < n` means n >= 1
            rn = repr(("param", 1, "n"))
            from ..guards import int_bounds
            lo_n, hi_n = int_bounds(facts, ("param", 1, "n"))
            if lo_n is not None:
                env[rn] = Iv(lo_n, hi_n if hi_n is not None else float("inf"), True, hi_n is not None)
            from .common import pure_call_interval
            env["__call__"] = pure_call_interval(ctx)
            for name, term in (("m", a[0]), ("k", a[1])):
                iv = ieval(term, env)
                ctx.check(iv.ge(1), "R07-sizing-intervals", "%s:%s" % (f.key, name), t.span,
                          "%s = %s lies in %r for every n >= 1, 0 < p < 1" % (name, fmt(term)[:120], iv),
                          "with_properties can produce %s = 0: %s ranges over %r under the function's own preconditions (%s)" % (
                              name, fmt(term)[:160], iv,
                              "k = 0 for every p > 0.5: a filter that answers `true` for everything" if name == "k" else "m = 0 for small n and p near 1: the first insert divides by zero"))
    # ---- Cuckoo -------------------------------------------------------------------------------
    g = ctx.anchor(CF + "::with_properties_and_hash_n")
    ctor = ctx.anchor(CF + "::with_params_and_hash")
    if g is not None and ctor is not None:
        tb = TermBuilder(g, prog)
        site = [(bi, t) for bi, t in g.calls() if t.callee() == ctor.key]
        callers = []
        for h in prog.fns.values():
            tbh = None
            for bi, t in h.calls():
                if t.callee() == g.key:
                    tbh = tbh or TermBuilder(h, prog)
                    callers.append((h, [tbh.operand(x, bi, len(h.blocks[bi].stmts)) for x in t.args]))
        ctx.floor("R07-sizing-intervals:cuckoo-callers", len(callers), 2, "instantiations of with_properties_and_hash_n")
        if len(site) == 1:
            bi, t = site[0]
            a = [cancel_products(tb.operand(x, bi, len(g.blocks[bi].stmts))) for x in t.args]
            facts = atomic_facts(g, prog, bi, tb)
            for h, cargs in callers:
                env = float_facts_to_env(facts)
                # integer parameters: an open end `0 < n` is the closed end `1 <= n`
                from ..guards import int_bounds
                for pi in range(1, g.arg_count + 1):
                    pt = ("param", pi, g.local_name(pi))
                    rk = repr(pt)
                    if g.local_ty(pi) in ("usize", "u64", "u32"):
                        lo_, hi_ = int_bounds(facts, pt)      # `0 < n`, `n != 0`, `!(n == 0)`, `n >= 1` all give 1 <= n
                        if lo_ is not None or hi_ is not None:
                            env[rk] = Iv(lo_ if lo_ is not None else 0, hi_ if hi_ is not None else float("inf"), True, hi_ is not None)
                okc = cargs[0][0] == "const" and cargs[1][0] == "const"
                if not okc:
                    ctx.shape("R07-sizing-intervals", h.key, h, "bucketsize / load factor are not constants at this call site")
                    continue
                env[repr(("param", 1, "bucketsize"))] = Iv.point(cargs[0][1])
                env[repr(("param", 2, "load_factor"))] = Iv.point(cargs[1][1])
                nb, lf = a[2], a[3]
                iv_l = ieval(lf, env)
                iv_n = ieval(nb, env)
                pot = nb[0] == "op" and nb[1] == "next_power_of_two"
                ctx.check(iv_l.ge(2), "R07-sizing-intervals", "%s:l_fingerprint" % h.key, t.span, "l_fingerprint in %r (bucketsize %s)" % (iv_l, cargs[0][1]),
                          "l_fingerprint can be < 2 (%r): the constructor would panic for an admissible (p, n)" % iv_l)
                ctx.check(iv_n.ge(2) and pot, "R07-sizing-intervals", "%s:n_buckets" % h.key, t.span, "n_buckets in %r and a power of two (load factor %s)" % (iv_n, cargs[1][1]),
                          "n_buckets can be < 2 or is not rounded to a power of two (%r, %s): the constructor would panic for an admissible (p, n)" % (iv_n, fmt(nb)[:120]))
    # ---- fingerprint ------------------------------------------------------------------------------
    fp = prog.fn(CF + "::fingerprint")
    if fp is not None:
        ctx.analysed_fns.add(fp.key)
        r = TermBuilder(fp, prog).return_term()
    else:
        # the helper may have been merged into its only caller: the fingerprint is then the first component of start()'s triple
        fp = ctx.anchor(CF + "::start")
        r = None
        if fp is not None:
            rs = TermBuilder(fp, prog).return_term()
            r = rs[1][0] if rs[0] == "tuple" and len(rs[1]) == 3 else ("unknown", "start does not return a triple")
    if fp is not None:
        okf = False
        why = fmt(r)
        if r[0] == "op" and r[1] == "Add" and len(r[2]) == 2 and const(1) in r[2]:
            other = [x for x in r[2] if x != const(1)][0]
            if other[0] == "op" and other[1] == "Rem":
                M = other[2][1]
                alts = M[1] if M[0] == "phi" else (M,)
                l = ("field", ("param", 1, "self"), "l_fingerprint")
                want = mk("Sub", mk("Shl", const(1), l), const(1))
                okm = True
                # branch-free spelling of the same mask: u64::MAX >> (64 - l), defined and equal to 2^l - 1 exactly for 1 <= l <= 64 —
                # admitted only if the constructor establishes that range for the field
                def all_ones(x):
                    return (x[0] == "call" and _nm(x[1], "max_value")) or x == const(2 ** 64 - 1) or (x[0] == "namedconst" and _nm(x[1], "MAX"))
                shr = mk("Shr", M[2][0], mk("Sub", const(64), l)) if (M[0] == "op" and M[1] == "Shr" and len(M[2]) == 2) else None
                if shr is not None and M == shr and all_ones(M[2][0]) and ctor is not None:
                    from .common import construction_blocks
                    from ..guards import int_bounds
                    cb = construction_blocks(ctx, ctor, CF)
                    lp = [("param", i, ctor.local_name(i)) for i in range(1, ctor.arg_count + 1) if ctor.local_name(i) == "l_fingerprint"]
                    if cb and lp:
                        lo_, hi_ = int_bounds(atomic_facts(ctor, prog, cb[-1]), lp[0])
                        if lo_ is not None and hi_ is not None and 1 <= lo_ and hi_ <= 64:
                            alts = (want,)
                def nocast(t_):
                    if not isinstance(t_, tuple):
                        return t_
                    if t_ and t_[0] == "cast" and len(t_) == 3:
                        return nocast(t_[2])
                    return tuple(nocast(y_) for y_ in t_)
                alts = tuple(want if nocast(x) == want else x for x in alts)      # `1u64.checked_shl(l as u32)`: the width of the shift amount is immaterial
                for x in alts:
                    if x == want:
                        continue
                    if x[0] == "call" and _nm(x[1], "max_value") or x == const(2 ** 64 - 1) or (x[0] == "namedconst" and _nm(x[1], "MAX")):
                        continue
                    okm = False
                okf = okm and want in alts
                plain_only = M[0] != "phi" and nocast(M) == want
                if okf and plain_only:
                    # `(1 << l) - 1` on every path (no branch for l = 64): the shift overflows unless the constructor keeps l below 64
                    from .common import construction_blocks as _cb
                    from ..guards import int_bounds as _ib
                    hi_l = None
                    if ctor is not None:
                        cb_ = _cb(ctx, ctor, CF)
                        lp_ = [("param", i, ctor.local_name(i)) for i in range(1, ctor.arg_count + 1) if ctor.local_name(i) == "l_fingerprint"]
                        if cb_ and lp_:
                            hi_l = _ib(atomic_facts(ctor, prog, cb_[-1]), lp_[0])[1]
                    if hi_l is None or hi_l > 63:
                        okf = False
                        why = "%s — the modulus (1 << l) - 1 is computed without a case for l = 64, which the constructor admits (l <= %s): the shift overflows and every insert/query/delete on such a filter panics" % (fmt(r)[:120], hi_l)
        ctx.check(okf, "R07-fingerprint-nonzero", fp.key, fp, "fingerprint = 1 + (hash %% (2^l - 1)) in [1, 2^l - 1]: never 0, fits the slot",
                  "fingerprint is %s: it can be 0 (the free-slot marker) or exceed l_fingerprint bits" % why[:200])
        # the l == 64 branch guard
        from ..paths import PathEnumerator
    # ---- Bloom len(): the bit-occupancy estimator ------------------------------------------------------------
    ln_ = ctx.anchor("<%s as filters::Filter[T]>::len" % BLOOM)
    if ln_ is not None:
        from .. import symalg as R
        selfp_ = ("param", 1, "self")
        r_ = TermBuilder(ln_, prog).return_term()
        body_ = r_[2] if r_[0] == "cast" else r_
        bs_ = ("field", selfp_, "bs")
        m_alts = [("call", "fixedbitset::FixedBitSet::len", (bs_,)), ("field", ("field", selfp_, "builder"), "m"), ("call", "hash_utils::HashIterBuilder::m", (("field", selfp_, "builder"),))]
        k_alts = [("field", selfp_, "k"), ("field", ("field", selfp_, "builder"), "k"), ("call", "hash_utils::HashIterBuilder::k", (("field", selfp_, "builder"),))]
        x_alts = [s_ for s_ in subterms(body_) if s_[0] == "call" and (s_[1].endswith("::count") or _nm(s_[1], "count_ones"))]
        atoms_ = {t_: "m" for t_ in m_alts}
        atoms_.update({t_: "k" for t_ in k_alts})
        atoms_.update({t_: "x" for t_ in x_alts})
        okl, why_l = False, fmt(r_)[:200]
        try:
            A_ = R.Algebra(atoms_)
            got_ = A_.of(body_)
            # n ~ -(m/k) * ln(1 - x/m)
            want_ = R.r_mul(R.r_mul(R.r_const(-1), R.r_div(R.r_atom("m"), R.r_atom("k"))), A_.ln(R.r_add(R.r_const(1), R.r_div(R.r_atom("x"), R.r_atom("m")), -1)))
            okl = R.r_eq(got_, want_) and r_[0] == "cast" and bool(x_alts)
        except R.NotAlgebraic as e_:
            why_l = "%s (%s)" % (fmt(r_)[:160], e_)
        ctx.check(okl, "R07-len-estimator", ln_.key, ln_, "len() = -(m/k) * ln(1 - x/m) with x the number of set bits (the occupancy estimator), truncated to usize",
                  "BloomFilter::len() is not the bit-occupancy estimator -(m/k)·ln(1 - x/m): %s" % why_l)
    from .common import double_hashing_rules
    double_hashing_rules(ctx, "R07-double-hashing")
    # `accepts n distinct inserts without reporting Full` presupposes that an evicted fingerprint is re-offered to its
    # ALTERNATE bucket: the relocation premise is C01's kick-loop typestate rule
    ii = ctx.anchor(CF + "::insert_internal")
    if ii is not None:
        from .C01 import kick_loop
        kick_loop(ctx, ii)
    # the quotient filter's bound m * 2^-(q+r) counts fingerprint collisions only: a lookup must compare the remainder against the
    # run of ITS quotient and nothing else, and the fingerprint must be split into exactly q + r bits (C13's scan / split rules)
    from .C13 import scan_rules, split_rules
    scan_rules(ctx)
    split_rules(ctx)
    # ---- divisors ----------------------------------------------------------------------------------------
    n_div = 0
    for h in prog.fns.values():
        if not h.key.startswith("hash_utils::") and not (h.impl_self or "").startswith("hash_utils::"):
            continue
        tbh = TermBuilder(h, prog)
        for bi, blk in enumerate(h.blocks):
            if blk.cleanup:
                continue
            for si, st in enumerate(blk.stmts):
                if st.k == "assign" and st.rv.k == "binop" and st.rv.j["op"] in ("Rem", "Div"):
                    d = tbh.operand(st.rv.ops[1], bi, si)
                    names = {s[2] for s in subterms(d) if s[0] in ("field", "param") and isinstance(s[2], str)}
                    if "m" in names:
                        n_div += 1
                        ctx.analysed_fns.add(h.key)
                        ctx.ok("R07-divisor-nonzero", "%s:%%m@%d" % (h.key, n_div), "`%% m` needs m >= 1: discharged for filters from with_properties by R07-sizing-intervals; with_params(m = 0) is the caller's contract", nontrivial=False)
    ctx.floor("R07-divisor-nonzero", n_div, 2, "remainder operations by the iterator's m (at least the reduction of the base hashes and of the combined index)")
