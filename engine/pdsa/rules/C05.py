"""C05 — reservoir sampling: the index/count calculus of Algorithm R and of gap sampling."""
from ..paths import PathEnumerator
from ..guards import fv
from ..terms import TermBuilder, fmt, mk, const, subterms, linear
from ..terms import callee_is as _nm
from .common import SELF, self_field

EXPLANATION = (
    "With i := self.i at entry of add (0-based index of the current item). R05-phases: the phase guards are i < k, then i < 4k, "
    "then i >= skip_until, in that order. R05-accept-range: in the reservoir phase the acceptance draw is gen_range over an integer "
    "range starting at 0 with cardinality i+1 (0..i+1 or 0..=i), acceptance is `j < k` on that same j, and j is the slot written — "
    "acceptance probability k/(i+1), uniform victim. R05-slot-range: in the gap phase the victim slot is drawn from exactly 0..k. "
    "R05-gap-term: the value stored to skip_until is i + 1 + g with g = floor(ln(u)/ln(1-p)) as usize, u = 1 - gen_range(0.0..1.0), "
    "p = k/(i+1): skip_until is the index of the next accepted item."
    " R05-gap-init: some drawn store to skip_until lies outside the region dominated by the guard that reads it (otherwise the first gap-phase item is decided by the constructor's constant). The sampler's clear() is checked with C19's rule (phase state kept across clear() makes the next stream non-uniform)."
)
from .common import NEW_WRITERS_NOTE as _NWN
EXPLANATION = EXPLANATION + _NWN % "05"
NOT_DECIDED = ("(1) the item at the phase switch: which definition of skip_until (the 0 from new/clear or a drawn gap) reaches the guard on the "
               "first gap-phase call is a fact about the history of i, not about a path of add — today the 0 reaches it, so stream position "
               "4k is always accepted; recorded in DESIGN section 6, left to a dynamic technique. (2) the size of the inherent gap-sampling bias.")
ASSUMPTIONS = ["gen_range(a..b) is uniform on [a,b)"]

RS = "reservoirsampling::ReservoirSampling"


def run(ctx):
    from .common import check_new_writers
    check_new_writers(ctx, "R05-new-writers", ['reservoirsampling::ReservoirSampling'])
    prog = ctx.prog
    add = ctx.anchor(RS + "::add")
    if add is None:
        return
    selfp = ("param", 1, "self")
    i_f, k_f, s_f = ("field", selfp, "i"), ("field", selfp, "k"), ("field", selfp, "skip_until")
    fill = mk("Lt", i_f, k_f)
    fill_len = mk("Lt", ("call", "std::vec::Vec::len", (("field", selfp, "reservoir"),)), k_f)   # equivalent: len = min(i, k)
    res_phase = mk("Lt", i_f, mk("Mul", const(4), k_f))
    gap_guard = mk("Le", s_f, i_f)
    pe = PathEnumerator(add, prog, ctx.summ)
    paths = [p for p in pe.paths() if p.exit_kind == "return"]
    cls = {"fill": [], "res": [], "gap-hit": [], "gap-skip": [], "other": []}
    _lem = []

    def lemma():
        if not _lem:
            from .common import gap_window_lemma
            _lem.append(gap_window_lemma(ctx))
            ctx.ok("R05-phases", RS + ":skip-window-invariant", _lem[0][1]) if _lem[0][0] else None
        return _lem[0]
    order_ok = True
    for p in paths:
        facts = pe.path_facts(p)
        seq = [repr(fill) if repr(c) == repr(fill_len) else repr(c) for c, _ in facts]
        fd = {repr(c): t for c, t in facts}
        if repr(fill) not in fd and repr(fill_len) in fd:
            fd[repr(fill)] = fd[repr(fill_len)]
        if fv(fd, fill) is True:
            cls["fill"].append(p)
        elif fv(fd, fill) is False and fv(fd, res_phase) is True:
            cls["res"].append(p)
        elif fv(fd, fill) is False and fv(fd, res_phase) is False and fv(fd, gap_guard) is True:
            cls["gap-hit"].append(p)
        elif fv(fd, fill) is False and fv(fd, res_phase) is False and fv(fd, gap_guard) is False:
            cls["gap-skip"].append(p)
        elif fv(fd, fill) is None and fv(fd, res_phase) is None and fv(fd, gap_guard) is False and lemma()[0]:
            # the skip-window test hoisted in front of the phase tests: i < skip_until implies i >= 4k (inductive invariant of the type)
            cls["gap-skip"].append(p)
        else:
            cls["other"].append(p)
        # (the order in which the three tests are evaluated is immaterial: each path is classified by the conjunction of what it
        #  established, and a path that decides without establishing its phase lands in "other")
    ctx.check(not cls["other"] and order_ok and all(cls[k] for k in ("fill", "res", "gap-hit", "gap-skip")), "R05-phases", add.key, add,
              "phases: i < k (%d) | i < 4k (%d) | i >= skip_until (%d hit, %d skip)" % (len(cls["fill"]), len(cls["res"]), len(cls["gap-hit"]), len(cls["gap-skip"])),
              "phase structure of add is not `i < k`, `i < 4k`, `i >= skip_until` in this order (%d unclassified paths)" % len(cls["other"]))

    # ---- reservoir phase -----------------------------------------------------------------------------
    probs = []
    for p in cls["res"]:
        draws = [e for e in p.events if e["kind"] == "write" and e.get("name") == "gen_range"]
        if len(draws) != 1:
            probs.append("%d draws in the reservoir phase" % len(draws))
            continue
        rng = draws[0]["args"][1]
        card = range_cardinality(rng)
        if card is None:
            probs.append("draw over %s is not an integer range starting at 0" % fmt(rng))
            continue
        la, ca = linear(card)
        if not ({r: v[1] for r, v in la.items()} == {repr(i_f): 1} and ca == 1):
            probs.append("the acceptance draw `gen_range(%s)` has %s outcomes; Algorithm R needs i + 1 (the item with 0-based index i is kept with probability k/(i+1)) — with %s outcomes item k+1 is always accepted"
                         % (fmt_range(rng), fmt(card), fmt(card)))
        from .common import full_reservoir_facts
        facts0 = pe.path_facts(p)
        facts = [x for x in full_reservoir_facts(facts0) if x not in facts0 or not any(s_[0] == "call" and _nm(s_[1], "Vec::len") for s_ in subterms(x[0]))]
        acc = [(c, t) for c, t in facts if c[0] == "op" and c[1] in ("Lt", "Le") and any(s[0] == "call" and _nm(s[1], "gen_range") for s in subterms(c))]
        if len(acc) != 1 or acc[0][0][1] != "Lt" or acc[0][0][2][1] != k_f:
            probs.append("acceptance test is %s, expected j < k" % (fmt(acc[0][0]) if acc else "missing"))
            continue
        j = acc[0][0][2][0]
        if not (j[0] == "call" and _nm(j[1], "gen_range")):
            probs.append("acceptance is tested on %s, not on the drawn index itself (the acceptance probability is no longer k/(i+1))" % fmt(j)[:80])
            continue
        stores = [e for e in p.events if e["kind"] == "write" and e.get("name") == "index_mut" and self_field(e) == "reservoir"]
        gm = [e for e in p.events if e["kind"] == "write" and e.get("name") == "get_mut" and self_field(e) == "reservoir"]
        if gm and not stores:
            # `if let Some(slot) = reservoir.get_mut(j) { *slot = obj }`: the lookup happens on both outcomes, the store through the
            # slot reference only on the accepting one
            real = [e for e in p.events if e["kind"] == "write" and e["how"] == "store" and self_field(e) == "reservoir"]
            stores = gm[:1] if real else []
        if acc[0][1] and not (len(stores) == 1 and stores[0]["args"][1] == j):
            probs.append("accepted item is not written to slot j")
        if not acc[0][1] and stores:
            probs.append("rejected item is stored")
    ctx.check(not probs and len(cls["res"]) >= 2, "R05-accept-range", add.key, add, "draw over i+1 outcomes, accept iff j < k, slot j",
              "; ".join(sorted(set(probs))[:2]) or "reservoir phase has fewer than two paths")

    # ---- gap phase ---------------------------------------------------------------------------------------
    probs_slot, probs_gap = [], []
    gap_offsets, gap_span = [], []
    for p in cls["gap-hit"]:
        stores = [e for e in p.events if e["kind"] == "write" and e.get("name") == "index_mut" and self_field(e) == "reservoir"]
        gm = [e for e in p.events if e["kind"] == "write" and e.get("name") == "get_mut" and self_field(e) == "reservoir"]
        if gm and not stores:
            # `if let Some(slot) = reservoir.get_mut(j) { *slot = item }` with j drawn from 0..k: the reservoir holds k items in this
            # phase, so the None outcome (j >= len) cannot happen — that path is not a path of the program
            from .common import full_reservoir_facts
            j_ = gm[0]["args"][1]
            drawn = j_[0] == "call" and _nm(j_[1], "gen_range") and range_cardinality(j_[2][1]) == k_f and range_start(j_[2][1]) == const(0)
            fdg = {repr(c_): t_ for c_, t_ in full_reservoir_facts(pe.path_facts(p))}
            if drawn and fv(fdg, mk("Lt", j_, k_f)) is False:
                continue
            if [e for e in p.events if e["kind"] == "write" and e["how"] == "store" and self_field(e) == "reservoir"]:
                stores = gm[:1]
        if len(stores) != 1:
            probs_slot.append("%d slot writes on an accepting gap-phase path" % len(stores))
        else:
            j = stores[0]["args"][1]
            okj = j[0] == "call" and _nm(j[1], "gen_range") and range_cardinality(j[2][1]) == k_f and range_start(j[2][1]) == const(0)
            if not okj:
                probs_slot.append("victim slot %s is not drawn from 0..k" % fmt(j))
        sk = [e for e in p.events if e["kind"] == "write" and self_field(e) == "skip_until" and e["how"] == "store"]
        if len(sk) != 1:
            probs_gap.append("skip_until stored %d times" % len(sk))
            continue
        v = sk[0]["value"]
        la, ca = linear(v)
        gs = [a for r, (a, c) in la.items() if a != i_f]
        coeff_i = {r: c for r, (a, c) in la.items()}.get(repr(i_f))
        gap_span.append(sk[0]["span"])
        if coeff_i == 1 and len(gs) == 1 and {c for r, (a, c) in la.items()} == {1}:
            gap_offsets.append(ca)
        else:
            probs_gap.append("skip_until is %s: not of the form i + c + g" % fmt(v)[:160])
        if not (coeff_i == 1 and len(gs) == 1 and ca == 1 and {c for r, (a, c) in la.items()} == {1}):
            probs_gap.append("skip_until := %s; after accepting index i with g rejected items the next accepted index is i + 1 + g (constant term here: %s)" % (fmt(v)[:160], ca))
        if gs:
            g = gs[0]
            u_t = None
            want_p = mk("Div", ("cast", "f64", k_f), ("cast", "f64", mk("Add", i_f, const(1))))
            # `x as usize` truncates toward zero and saturates: it equals `x.floor() as usize` for every x (they differ only for
            # negative non-integers, which both become 0), so the explicit floor is optional
            q_ = g[2][2][0] if g[0] == "cast" and g[1] == "usize" and g[2][0] == "op" and g[2][1] == "floor" else (g[2] if g[0] == "cast" and g[1] == "usize" else None)
            okg = q_ is not None and q_[0] == "op" and q_[1] == "Div"
            if okg:
                num, den = q_[2]
                okg = num[0] == "op" and num[1] == "ln" and den == mk("ln", mk("Sub", const(1.0), want_p))
                if okg:
                    u = num[2][0]
                    okg = u[0] == "op" and u[1] == "Sub" and u[2][0] == const(1.0) and u[2][1][0] == "call" and _nm(u[2][1][1], "gen_range") \
                        and range_start(u[2][1][2][1]) == const(0.0) and range_end(u[2][1][2][1]) == const(1.0) \
                        and u[2][1][2][1][0] == "adt" and u[2][1][2][1][1] == "std::ops::Range"   # half-open [0,1): u in (0,1], ln(u) finite
            if not okg:
                probs_gap.append("gap draw is %s, expected floor(ln(1 - U[0,1)) / ln(1 - k/(i+1))) as usize" % fmt(g)[:200])
    for p in cls["gap-skip"]:
        if [e for e in p.events if e["kind"] == "write" and self_field(e) in ("reservoir", "skip_until")]:
            probs_gap.append("a skipped item modifies the reservoir or skip_until")
    ctx.check(not probs_slot and cls["gap-hit"], "R05-slot-range", add.key, add, "gap phase: victim slot uniform on 0..k", "; ".join(sorted(set(probs_slot))[:2]))
    off = sorted(set(gap_offsets))
    if off == [1] and not [x for x in probs_gap if not x.startswith("skip_until :=")]:
        ctx.ok("R05-gap-term", add.key + ":skip_until=i+1+g", "skip_until = i + 1 + floor(ln u / ln(1 - k/(i+1))), u in (0,1]")
    else:
        for o in off:
            if o != 1:
                ctx.fail("R05-gap-term", add.key + ":skip_until=i+%s+g" % o, gap_span[0] if gap_span else add,
                         "skip_until := i + %s + g: after accepting the item with index i and drawing g rejected items, the next accepted index is i + 1 + g; with offset %s the next acceptance comes %s item(s) early%s"
                         % (o, o, 1 - o, " (for g <= 1 the very next item is accepted)" if o == 0 else ""))
        rest = [x for x in probs_gap if not x.startswith("skip_until :=")]
        if rest or not off:
            ctx.fail("R05-gap-term", add.key + ":gap-draw", gap_span[0] if gap_span else add, "; ".join(sorted(set(rest))[:2]) or "no skip_until store found on the accepting gap path")

    reuse_after_clear(ctx)

    # ---- R05-gap-init ------------------------------------------------------------------------------------
    # The gap guard reads skip_until. If every non-constant store to skip_until is dominated by that guard's true edge,
    # the first evaluation of the guard necessarily reads the constant from new()/clear(): the first gap-phase item is then
    # accepted (or rejected) with probability 1 instead of k/(i+1).
    guard_bbs = []
    for bi, blk in enumerate(add.blocks):
        if blk.cleanup or blk.term.k != "switch":
            continue
        c = pe.tb.operand(blk.term.discr, bi, len(blk.stmts))
        if any(s_ == s_f for s_ in subterms(c)):
            guard_bbs.append(bi)
    stores = []
    for bi, blk in enumerate(add.blocks):
        if blk.cleanup:
            continue
        for si, st in enumerate(blk.stmts):
            if st.k == "assign" and st.place.local == 1 and st.place.fields() == ["skip_until"]:
                v = pe.tb.rvalue(st.rv, bi, si)
                stores.append((bi, v, st.span))
    nonconst = [(b, v, sp) for b, v, sp in stores if v[0] != "const"]
    free = [b for b, v, sp in nonconst if not any(add.dominates(g, b) and g != b for g in guard_bbs)]
    ctx.check(bool(guard_bbs) and bool(nonconst) and bool(free), "R05-gap-init", add.key, add.blocks[guard_bbs[0]].term.span if guard_bbs else add,
              "a drawn gap can reach the first evaluation of the gap guard (a store to skip_until outside the guarded region)",
              "every drawn store to skip_until lies behind the guard `i >= skip_until` itself, so the first gap-phase call reads the constant from new()/clear(): "
              "the item at the phase switch (stream index 4k) is accepted with probability 1 instead of k/(4k+1)")


def reuse_after_clear(ctx):
    """a sampler that keeps phase state across clear() samples the next stream non-uniformly"""
    from .C19 import run_clear_rules
    run_clear_rules(ctx, only_adt=RS, floor=1)


def range_start(r):
    if r[0] == "adt" and r[1] in ("std::ops::Range", "std::ops::RangeInclusive"):
        return dict(r[3]).get("start")
    if r[0] == "call" and _nm(r[1], "RangeInclusive::new"):
        return r[2][0]
    return None


def range_end(r):
    if r[0] == "adt" and r[1] in ("std::ops::Range", "std::ops::RangeInclusive"):
        return dict(r[3]).get("end")
    if r[0] == "call" and _nm(r[1], "RangeInclusive::new"):
        return r[2][1]
    return None


def range_cardinality(r):
    """number of outcomes of an integer range starting at 0, as a term"""
    s, e = range_start(r), range_end(r)
    if s != const(0) or e is None:
        return None
    if r[0] == "adt" and r[1] == "std::ops::Range":
        return e
    return mk("Add", e, const(1))


def fmt_range(r):
    s, e = range_start(r), range_end(r)
    inc = not (r[0] == "adt" and r[1] == "std::ops::Range")
    return "%s..%s%s" % (fmt(s) if s else "?", "=" if inc else "", fmt(e) if e else "?")
