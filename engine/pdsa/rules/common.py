"""Helpers shared by the per-property rule modules."""
from ..terms import fmt, subterms
from ..terms import callee_is as _nm
from ..ir import span_str

SELF = ("param", 1)

INTERIOR_MUT = ("std::cell::UnsafeCell", "std::cell::RefCell", "std::cell::Cell", "std::sync::Mutex", "std::sync::RwLock",
                "std::sync::atomic::AtomicUsize", "std::sync::atomic::AtomicU64", "std::sync::atomic::AtomicBool",
                "*mut", "*const", "std::cell::OnceCell", "std::sync::OnceLock")


def self_field(e):
    """first field of a write event rooted at `self`, else None"""
    if e["root"] == SELF and e["path"]:
        return e["path"][0]
    return None


def is_self(t):
    return t[0] == "param" and t[1] == 1


def self_field_term(t):
    """name F if t is `self.F` (any parameter named self / param 1)"""
    if t[0] == "field" and is_self(t[1]):
        return t[2]
    return None


def rng_fields(prog, adt_key):
    """fields of adt whose type is a type parameter bounded by rand::Rng in some impl"""
    a = prog.adts.get(adt_key)
    if a is None:
        return set()
    rng_params = set()
    for i in prog.impls:
        if i["self"] == adt_key:
            for p in i["preds"]:
                if ": rand::Rng" in p or ": rand::RngCore" in p:
                    rng_params.add(p.split(":")[0].strip())
    out = set()
    for f in a["variants"][0]["fields"]:
        if f["ty"]["k"] == "param" and f["ty"]["name"] in rng_params:
            out.add(f["name"])
    return out


def config_fields(ctx, adt_key, summ=None):
    """fields never written outside constructors (functions without a self receiver):
    computed from the write events of every method of the type."""
    prog = ctx.prog
    written = set()
    for f in methods_of(prog, adt_key):
        if not has_self_receiver(f):
            continue
        for w in all_writes(ctx, f):
            sf = self_field(w)
            if sf is not None and w["how"] != "borrow":
                if w["how"] == "store" and len(w["path"]) == 1 and w.get("value") is not None and w["value"][0] == "field" and w["value"][2] == sf \
                        and w["value"][1][:2] == ("param", 1):
                    continue        # stored back unchanged (`*self = Self::new(self.cfg, ..)` expanded through the constructor)
                written.add(sf)
    fields = [f["name"] for f in prog.adts[adt_key]["variants"][0]["fields"]]
    return [f for f in fields if f not in written]


def methods_of(prog, adt_key):
    return [f for f in prog.fns.values() if f.impl_self == adt_key and f.kind == "AssocFn"]


def has_self_receiver(fn):
    if fn.arg_count < 1:
        return False
    return fn.local_name(1) == "self"


_writes_cache = {}


def all_writes(ctx, fn):
    """every write event on any path of fn (callees inlined), deduplicated by site"""
    key = (ctx.prog.path, ctx.prog.nonce, ctx.prog.config_id(), fn.key)
    if key in _writes_cache:
        return _writes_cache[key]
    from ..paths import PathEnumerator
    seen = {}
    pe = PathEnumerator(fn, ctx.prog, ctx.summ, limit=50000)

    def step(state, ev):
        if ev["kind"] == "write":
            k = (ev["root"], ev["path"], ev["how"], ev.get("callee"), ev.get("origin_fn"), ev.get("bb"), ev.get("idx"), ev.get("via"))
            seen.setdefault(k, ev)
        return state
    pe.fold(0, step, lambda s, q: None)
    out = list(seen.values())
    _writes_cache[key] = out
    return out


def single_loop_over_all(fn, tb):
    """for a function with exactly one loop: (head, body, exits) where exits are the edges leaving the loop"""
    heads = fn.loop_heads()
    if len(heads) != 1:
        return None
    h = heads[0]
    body = fn.natural_loop(h)
    exits = []
    for b in body:
        for s in fn.succs(b):
            if s not in body:
                exits.append((b, s))
    return h, body, exits


def loop_exits_only_on_exhaustion(fn, head, producers=("next",)):
    """True iff every edge leaving the natural loop of `head` comes from the switch on the
    discriminant of the `Iterator::next` result (the None arm); `producers` names the calls whose None means "exhausted"
    (`Vec::pop` for `while let Some(e) = log.pop()`)"""
    body = fn.natural_loop(head)
    ok = True
    n = 0
    for b in body:
        for s in fn.succs(b):
            if s in body:
                continue
            if not fn.can_return(s):
                continue  # panic exits are not normal exits
            n += 1
            blk = fn.blocks[b]
            if blk.term.k != "switch":
                ok = False
                continue
            # the switch must be on discriminant(next-result) and s must be the arm for 0 (None)
            if blk.term.none_some_targets()[0] != s:
                ok = False
                continue
            d = blk.term.discr
            is_next = False
            if d.place is not None and d.place.is_local():
                for st in blk.stmts:
                    if st.k == "assign" and st.place.is_local() and st.place.local == d.place.local and st.rv.k == "discr":
                        src = st.rv.place.local
                        for (bb2, i2, kind, obj) in fn.defs().get(src, []):
                            if kind == "call" and obj.callee_name() in producers:
                                is_next = True
            if not is_next:
                ok = False
    return ok and n >= 1


def fn_span(fn):
    return span_str(fn.span)


def short(key):
    return key.split("::")[-1] if not key.startswith("<") else key


# ---- merge/union guards ------------------------------------------------------------------

def self_write_blocks(ctx, fn):
    """blocks of fn (its own frame) containing a store into *self, an external mutator call on a self-rooted
    &mut, or a call to a local callee whose summary writes self"""
    from ..paths import Origins, is_mut_access_ty, NON_MUTATING, BORROWING
    org = Origins(fn)
    out = []
    for bi, blk in enumerate(fn.blocks):
        if blk.cleanup:
            continue
        hit = False
        for st in blk.stmts:
            if st.k == "assign" and st.place.proj:
                o = org.of_place(st.place)
                if o is not None and o.root == SELF:
                    hit = True
        t = blk.term
        if t.k == "call":
            if t.callee_is_local() and ctx.prog.fn(t.callee()) is not None:
                alts = ctx.summ.alternatives(t.callee()) or []
                selfpassed = [i for i, a in enumerate(t.args) if a.place is not None and a.place.is_local() and (org.of_local(a.place.local) is not None and org.of_local(a.place.local).root == SELF)]
                for (wevs, _, _) in alts:
                    for w in wevs:
                        if w["root"][0] == "param" and (w["root"][1] - 1) in selfpassed and w["how"] != "borrow":
                            hit = True
            else:
                for a in t.args:
                    if a.place is not None and a.place.is_local() and is_mut_access_ty(fn.local_ty(a.place.local)):
                        o = org.of_local(a.place.local)
                        if o is not None and o.root == SELF and t.callee_name() not in NON_MUTATING and t.callee_name() not in BORROWING:
                            hit = True
        if hit:
            out.append(bi)
    return out


def symmetric_guards(ctx, fn, tb=None):
    """terms A such that the fact A == A[self<->other] holds at every self-writing block of fn"""
    from ..guards import atomic_facts
    from ..terms import TermBuilder, swap_self_other, erase_param_names, mk
    tb = tb or TermBuilder(fn, ctx.prog)
    wbs = self_write_blocks(ctx, fn)
    if not wbs:
        return None, []
    common = None
    for b in wbs:
        here = {}
        for c, truth in atomic_facts(fn, ctx.prog, b, tb):
            if not truth or c[0] != "op" or c[1] != "Eq" or len(c[2]) != 2:
                continue
            a, bb_ = c[2]
            if erase_param_names(swap_self_other(a)) == erase_param_names(bb_):
                # orient on the self side
                side = a if any(s[0] == "param" and s[1] == 1 for s in subterms(a)) else bb_
                here[repr(erase_param_names(side))] = side
        common = here if common is None else {k: v for k, v in common.items() if k in here}
    return wbs, list((common or {}).values())


def fields_mentioned(t):
    """first-level fields of param 1 mentioned in t"""
    out = set()
    for s in subterms(t):
        if s[0] == "field" and s[1][0] == "param" and s[1][1] == 1:
            out.add(s[2])
    return out


def double_hashing_rules(ctx, rule="R08-double-hashing"):
    """The documented scheme h_i(x) = (h1(x) + i*h2(x) + f(i)) mod m with h1, h2 in [0,m), f: [0,k) -> [0,m):
    iter_for reduces BOTH base hashes (distinct IVs 0 and 1) modulo m, next() combines them modulo m, setup_f reduces modulo m.
    A base hash reduced by another modulus (k, a constant) collapses the rows/probes onto few distinct patterns."""
    from ..terms import TermBuilder, fmt, mk, const, elem_of
    prog = ctx.prog
    selfp = ("param", 1, "self")
    itf = ctx.anchor("hash_utils::HashIterBuilder::iter_for")
    nxt = ctx.anchor("<hash_utils::HashIter as std::iter::Iterator>::next")
    sf = prog.fn("hash_utils::HashIterBuilder::setup_f")
    f_term = None
    if sf is not None:
        ctx.analysed_fns.add(sf.key)
        f_term, f_where, m_of, k_of = TermBuilder(sf, prog).return_term(), sf, ("param", 1), ("param", 2)
    else:
        # the table may be built inside the constructor itself: take the `f` field of what HashIterBuilder::new returns
        nw = ctx.anchor("hash_utils::HashIterBuilder::new")
        if nw is not None:
            rn = TermBuilder(nw, prog).return_term()
            dn = dict(rn[3]) if rn[0] == "adt" else {}
            f_term, f_where = dn.get("f"), nw
            m_of, k_of = (dn.get("m") or ("x",))[:2], (dn.get("k") or ("x",))[:2]
    if itf is not None:
        r = TermBuilder(itf, prog).return_term()
        d = dict(r[3]) if r[0] == "adt" else {}
        m = ("field", selfp, "m")
        obj = ("param", 2, itf.local_name(2))
        HI = "hash_utils::HashIterBuilder::h_i"

        def is_base_hash(t, bh, o, iv):
            """finish() of a fresh hasher of `bh` that absorbed the IV and then the object"""
            try:
                return (t[0] == "call" and _nm(t[1], "finish") and len(t[2]) == 1
                        and t[2][0][:2] == ("call", "absorb:hash") and t[2][0][2][1] == o
                        and t[2][0][2][0][:2] == ("call", "absorb:write_usize") and t[2][0][2][0][2][1] == iv
                        and t[2][0][2][0][2][0][0] == "call" and _nm(t[2][0][2][0][2][0][1], "build_hasher") and t[2][0][2][0][2][0][2] == (bh,))
            except (IndexError, TypeError):
                return False

        hi = prog.fn(HI)
        hi_ok = None
        if hi is not None:
            ctx.analysed_fns.add(hi.key)
            hi_ok = is_base_hash(TermBuilder(hi, prog).return_term(), ("field", selfp, "buildhasher"), ("param", 2, hi.local_name(2)), ("param", 3, hi.local_name(3)))

        def base(t, iv):
            """t is h_iv(obj) mod m — through the helper h_i (whose body is then checked) or written out"""
            if not (t is not None and t[0] == "op" and t[1] == "Rem" and len(t[2]) == 2 and t[2][1] == m):
                return False
            x = t[2][0]
            if x == ("call", HI, (selfp, obj, const(iv))):
                return bool(hi_ok)
            return is_base_hash(x, ("field", selfp, "buildhasher"), obj, const(iv))
        ctx.check(base(d.get("h1"), 0) and base(d.get("h2"), 1), rule, itf.key, itf, "h1 = h_0(x) mod m, h2 = h_1(x) mod m (h_i = finish of a fresh hasher fed i, then x)",
                  "iter_for builds h1 = %s, h2 = %s; the documented scheme needs both base hashes (IV 0 and IV 1, each a fresh hasher fed the IV and the object) reduced modulo m%s" % (
                      fmt(d.get("h1")) if d.get("h1") else "?", fmt(d.get("h2")) if d.get("h2") else "?", "; h_i is %s" % fmt(TermBuilder(hi, prog).return_term())[:160] if hi is not None and not hi_ok else ""))
    if nxt is not None:
        r = TermBuilder(nxt, prog).return_term()
        alts = r[1] if r[0] == "phi" else (r,)
        some = [a for a in alts if a[0] == "adt" and a[2] == "Some"]
        bm = ("field", ("field", selfp, "builder"), "m")
        i_f = ("field", selfp, "i")
        want = mk("Rem", mk("Add", ("field", selfp, "h1"), mk("Mul", mk("Rem", i_f, bm), ("field", selfp, "h2")),
                           ("index", ("field", ("field", selfp, "builder"), "f"), i_f)), bm)
        got = some[0][3][0][1] if len(some) == 1 else None
        # f(i) may appear as a call to the getter or inlined as an index
        alt_want = mk("Rem", mk("Add", ("field", selfp, "h1"), mk("Mul", mk("Rem", i_f, bm), ("field", selfp, "h2")),
                               ("call", "hash_utils::HashIterBuilder::f", (("field", selfp, "builder"), i_f))), bm)
        ctx.check(got in (want, alt_want), rule, nxt.key, nxt, "item i = (h1 + (i mod m)*h2 + f(i)) mod m",
                  "next() yields %s, documented: (h1 + i*h2 + f(i)) mod m" % (fmt(got) if got else fmt(r)[:200]))
    if f_term is None:
        ctx.fail("anchor-missing", "hash_utils::HashIterBuilder:f-table", None, "neither setup_f nor a constructor that builds the `f` table was found")
    else:
        r = f_term
        sf = f_where
        okf = False
        if r[0] == "call" and _nm(r[1], "collect") and r[2][0][0] == "map":
            rng = r[2][0][1]
            e = elem_of(r[2][0])
            mod = e[2][1] if (e[0] == "op" and e[1] == "Rem") else None
            mod = mod[2] if (mod is not None and mod[0] == "cast") else mod
            okf = rng[0] == "adt" and rng[1] == "std::ops::Range" and dict(rng[3]).get("start") == const(0) and dict(rng[3]).get("end", ("x",))[:2] == k_of \
                and mod is not None and mod[:2] == m_of
        ctx.check(okf, rule, sf.key, sf, "f has k entries, each reduced modulo m", "setup_f builds %s" % fmt(r)[:200])


# ---- join stores and element-wise resets ---------------------------------------------------------------

def join_store(ctx, fn, field):
    """How `fn` updates one cell of self.<field> with a lattice join. Returns a dict
        {"form": "max" | "guarded-max", "new": term, "old": term, "idx": term, "span": span}
    for  cell = max(cell, new)  on every path, or for  if cell < new { cell = new }  (store skipped exactly when it would
    be a no-op); returns {"form": None, "why": text} otherwise."""
    from ..paths import PathEnumerator
    from ..guards import fv
    from ..terms import mk, fmt
    selfp = ("param", 1, "self")
    pe = PathEnumerator(fn, ctx.prog, ctx.summ)
    sites = {}
    per_path = []
    for p in pe.paths():
        if p.exit_kind != "return":
            continue
        st = [e for e in p.events if e["kind"] == "write" and self_field(e) == field and e["how"] == "store"]
        idx = [e["args"][1] for e in p.events if e["kind"] == "write" and self_field(e) == field and e["how"] == "borrow" and e.get("name") == "index_mut"
               and not (e["args"][1][0] == "adt" and e["args"][1][1] == "std::ops::RangeFull")]        # `&mut self.f[..]` is a view, not a cell
        facts = {repr(c): t for c, t in pe.path_facts(p)}
        per_path.append((st, idx, facts))
        for e in st:
            sites[(e["bb"], e["idx"])] = e
    if len(sites) != 1:
        return {"form": None, "why": "%d store sites to %s" % (len(sites), field)}
    e = list(sites.values())[0]
    v = e["value"]
    idxs = {repr(i) for _, ix, _ in per_path for i in ix}
    if len(idxs) != 1:
        return {"form": None, "why": "store index is not unique"}
    idx = [i for _, ix, _ in per_path for i in ix][0]
    old = ("index", ("field", selfp, field), idx)
    if v[0] == "op" and v[1] == "max" and old in v[2] and len(v[2]) == 2:
        new = [x for x in v[2] if x != old][0]
        if all(len(st) == 1 for st, _, _ in per_path):
            return {"form": "max", "new": new, "old": old, "idx": idx, "span": e["span"]}
        return {"form": None, "why": "the max-store is skipped on some path (a conditional update makes the cell depend on the order of updates)", "span": e["span"]}
    # guarded form
    new = v
    guard = mk("Lt", old, new)
    ok = True
    for st, _, facts in per_path:
        g = fv(facts, guard)
        if st and g is not True:
            ok = False
        if not st and g is not False:
            ok = False
    if ok:
        return {"form": "guarded-max", "new": new, "old": old, "idx": idx, "span": e["span"]}
    return {"form": None, "why": "cell is overwritten with %s without `old < new` deciding exactly when" % fmt(v)[:120], "span": e["span"]}


def elementwise_reset(ctx, fn, field):
    """True iff fn zero-fills self.<field> in place: a loop over self.<field>.iter_mut() that runs to exhaustion and stores the
    constant 0 / zero() into every element"""
    from ..terms import TermBuilder, const
    heads = fn.loop_heads()
    if not heads:
        # slice::fill(zero) on the whole field, on every returning path
        fills = [w for w in all_writes(ctx, fn) if self_field(w) == field and w["how"] == "call" and w.get("name") == "fill" and len(w["path"]) == 1 and len(w.get("args", [])) == 2]
        if len(fills) == 1:
            v = fills[0]["args"][1]
            zero = v == const(0) or (v[0] == "call" and _nm(v[1], "zero") and not v[2]) or v == const(False)
            pd = fn.postdominators()
            return bool(zero and fills[0]["bb"] in pd.get(0, set()) | {0})
        return False
    if len(heads) != 1 or not loop_exits_only_on_exhaustion(fn, heads[0]):
        return False
    ws = [w for w in all_writes(ctx, fn) if self_field(w) == field and w["how"] == "store" and "[]" in w["path"]]
    if not ws:
        # an index loop over the container's own extent: `for i in 0..self.f.block_len() { self.f.set_block(i, 0) }`
        # (set_block / set with the loop index and the constant 0, in every iteration, over 0..len)
        from ..terms import fmt as _fmt
        cs = [w for w in all_writes(ctx, fn) if self_field(w) == field and w["how"] == "call" and w.get("name") in ("set_block", "set") and len(w.get("args", [])) == 3 and not w.get("via")]
        if len(cs) != 1:
            return False
        fld_t, ix, v = cs[0]["args"]
        zero = v == const(0) or v == const(False)
        extent = {"set_block": ("block_len",), "set": ("len",)}[cs[0]["name"]]
        rng_ok = False
        if ix[0] == "elem" and ix[1][0] == "adt" and ix[1][1] == "std::ops::Range":
            d = dict(ix[1][3])
            e_ = d.get("end", ("x",))
            e_ = e_[2] if e_[0] == "cast" else e_
            rng_ok = d.get("start") == const(0) and e_[0] == "call" and e_[1].rsplit("::", 1)[-1] in extent and e_[2] and e_[2][0] == fld_t
        body = fn.natural_loop(heads[0])
        every_iter = all(fn.dominates(cs[0]["bb"], b) for b, h in fn.back_edges())
        return bool(zero and rng_ok and cs[0]["bb"] in body and every_iter)
    if len(ws) != 1:
        return False
    v = ws[0]["value"]
    zero = v == const(0) or (v[0] == "call" and _nm(v[1], "zero") and not v[2]) or v == const(False)
    body = fn.natural_loop(heads[0])
    every_iter = all(fn.dominates(ws[0]["bb"], b) for b, h in fn.back_edges())
    its = [w for w in all_writes(ctx, fn) if self_field(w) == field and w["how"] == "borrow" and w.get("name") in ("iter_mut", "into_iter")]
    return bool(zero and ws[0]["bb"] in body and every_iter and its)


def cellwise_merge(ctx, m, field):
    """How method `m(self, other)` combines self.<field> with other.<field>. Recognised forms:
         whole-field store of  collect(map(zip(self.f, other.f), |a, b| op(a, b)))        -> form "collect"
         whole-field store of  &self.f | &other.f                                         -> form "bitor"
         `for (a, b) in self.f.iter_mut().zip(&other.f) { *a = op(*a, b) }` run to exhaustion, store in every iteration -> form "in-place"
       Returns {"form", "elem": op(elem(self.f), elem(other.f)) with parameter names erased, "why"}; form None when unrecognised."""
    from ..terms import TermBuilder, erase_param_names, elem_of, subterms, fmt
    selfp, otherp = ("param", 1, None), ("param", 2, None)
    cells = {repr(("elem", ("field", selfp, field))), repr(("elem", ("field", otherp, field)))}
    both = {repr(("field", selfp, field)), repr(("field", otherp, field))}
    ws = [w for w in all_writes(ctx, m) if self_field(w) == field and w["how"] == "store" and not w.get("via")]
    if not ws:
        # `self.f |= &other.f` / `self.f.union_with(&other.f)`: the in-place spelling of the whole-field OR
        cs = [w for w in all_writes(ctx, m) if self_field(w) == field and w["how"] == "call" and w.get("name") in ("bitor_assign", "union_with") and not w.get("via")
              and len(w.get("args", [])) == 2 and len(w["path"]) == 1]
        if len(cs) == 1:
            a = [erase_param_names(x) for x in cs[0]["args"]]
            ok = sorted(map(repr, a)) == sorted(both)
            pd = m.postdominators()
            ok = ok and (cs[0]["bb"] in pd.get(0, set()) or cs[0]["bb"] == 0 or all(cs[0]["bb"] in pd.get(e, set()) | {e} for e in [0]))
            return {"form": "in-place-or" if ok else None, "elem": ("op", "BitOr", tuple(a)), "why": "%s |= %s" % (fmt(a[0]), fmt(a[1]))}
    if len(ws) != 1:
        return {"form": None, "why": "%d stores to %s" % (len(ws), field)}
    w = ws[0]
    v = erase_param_names(w["value"]) if w.get("value") is not None else None
    if v is None:
        return {"form": None, "why": "store of an unknown value"}
    whole = "[]" not in w["path"]
    if whole and v[0] == "op" and v[1] == "BitOr":
        ok = sorted(map(repr, v[2])) == sorted(both)
        return {"form": "bitor" if ok else None, "elem": v, "why": fmt(v)}
    if whole and v[0] == "call" and _nm(v[1], "collect"):
        e = elem_of(v[2][0])
        ok = e[0] == "op" and len(e[2]) == 2 and {repr(e[2][0]), repr(e[2][1])} == cells
        zs = [x for x in subterms(v) if x[0] == "zip"]
        ok = ok and len(zs) == 1 and {repr(zs[0][1]), repr(zs[0][2])} == both
        return {"form": "collect" if ok else None, "elem": e, "why": fmt(v)}
    if not whole:
        heads = [h for h in m.loop_heads() if w["bb"] in m.natural_loop(h)]
        if len(heads) != 1:
            return {"form": None, "why": "element store outside a single loop"}
        h = heads[0]
        tb = TermBuilder(m, ctx.prog)
        st = tb._for_loop_stream(h)
        st = erase_param_names(st) if st is not None else None
        ok = st is not None and st[0] == "zip" and {repr(st[1]), repr(st[2])} == both
        mine_, theirs_ = ("elem", ("field", selfp, field)), ("elem", ("field", otherp, field))
        if ok and v == theirs_:
            # `if theirs > *mine { *mine = theirs }`: the store of the other cell under the test that it is the larger one is the
            # in-place max (the store is skipped exactly when it would change nothing); the walk must visit every cell
            from ..guards import atomic_facts, fv as _fv
            from ..terms import mk as _mk
            fs_ = {repr(erase_param_names(c_)): t_ for c_, t_ in atomic_facts(m, ctx.prog, w["bb"], tb)}
            if _fv(fs_, _mk("Lt", mine_, theirs_)) is True and loop_exits_only_on_exhaustion(m, h):
                vmax = ("op", "max", tuple(sorted((mine_, theirs_), key=repr)))
                return {"form": "in-place", "elem": vmax, "why": "guarded in-place max over %s" % fmt(st)}
        ok = ok and v[0] == "op" and len(v[2]) == 2 and {repr(v[2][0]), repr(v[2][1])} == cells
        ok = ok and all(m.dominates(w["bb"], b) for b, hh in m.back_edges() if hh == h)
        return {"form": "in-place" if ok else None, "elem": v, "why": "%s over %s" % (fmt(v), fmt(st) if st else "an unrecognised loop")}
    return {"form": None, "why": fmt(v)}


def construction_blocks(ctx, fn, adt):
    """blocks of `fn` where a value of struct `adt` is put together: the aggregate itself, or the call to a private straight-line
    helper / sibling constructor whose returned term is that aggregate (`Self::from_parts(epsilon, width)`). The validation that
    must precede construction is looked up among the facts dominating these blocks."""
    from ..terms import TermBuilder
    out = [bi for bi, blk in enumerate(fn.blocks) if not blk.cleanup for st in blk.stmts
           if st.k == "assign" and st.rv.k == "aggregate" and st.rv.j.get("adt") == adt]
    if out:
        return out
    tb = TermBuilder(fn, ctx.prog)
    for bi, t in fn.calls():
        if t.callee_is_local() and ctx.prog.fn(t.callee()) is not None and t.dest is not None:
            ct = tb.call_term(t, bi)
            if ct[0] == "adt" and ct[1] == adt:
                ctx.analysed_fns.add(t.callee())
                out.append(bi)
    return out


def iterations_on_path(fn, head, p):
    """how many items the stream loop at `head` handled on path p: visits of the Some-arm of the switch on its next() result
    (independent of whether next() is a library call — branch event — or a crate-local one resolved by its summary)"""
    body = fn.natural_loop(head)
    some_blocks = set()
    for b in body:
        blk = fn.blocks[b]
        if blk.term.k == "switch" and blk.stmts and blk.stmts[-1].k == "assign" and blk.stmts[-1].rv.k == "discr":
            n_t, s_t = blk.term.none_some_targets()
            if n_t is not None and n_t not in body and s_t is not None:
                src = blk.stmts[-1].rv.place.local
                if any(kind == "call" and obj.callee_name() == "next" for (b2, i2, kind, obj) in fn.defs().get(src, [])):
                    some_blocks.add(s_t)
    return sum(1 for b in p.blocks if b in some_blocks)


def fuse_loop(fn, tb):
    """head of THE loop of TDigestInner::merge that carries a `Centroid` (the cluster being grown); loops that only build the
    sort buffer are not it. None when there is not exactly one."""
    hs = []
    for h in fn.loop_heads():
        if any(fn.local_ty(l) == "tdigest::Centroid" and fn.local_name(l) and tb.defined_in_loop(l, h) and tb.loop_update(l, h)[0] == "phi"
               for l in range(len(fn.locals))):
            hs.append(h)
    # nested loops: keep the innermost
    hs = [h for h in hs if not any(h2 != h and h2 in fn.natural_loop(h) for h2 in hs)]
    return hs[0] if len(hs) == 1 else None


def path_return_term(pe, p):
    """the value returned on path p of pe.fn: the last definition of _0 along the path's blocks"""
    fn, tb = pe.fn, pe.tb
    for b in reversed(p.blocks):
        blk = fn.blocks[b]
        for si in range(len(blk.stmts) - 1, -1, -1):
            st = blk.stmts[si]
            if st.k == "assign" and st.place.is_local() and st.place.local == 0:
                return tb.rvalue(st.rv, b, si)
        if blk.term.k == "call" and blk.term.dest is not None and blk.term.dest.is_local() and blk.term.dest.local == 0:
            return tb.call_term(blk.term, b)
    return None


def pure_call_interval(ctx):
    """hook for intervals.ieval: interval of a call to a small crate-local pure function (`fn at_least_one(v) -> usize { match v { 0 => 1,
    o => o } }`), as the hull over its returning paths of the returned term's interval under that path's branch facts"""
    from ..paths import PathEnumerator
    from ..intervals import ieval, float_facts_to_env, Iv, hull

    def hook(key, args, env):
        f = ctx.prog.fn(key)
        if f is None or f.loop_heads() or len(f.blocks) > 24 or f.arg_count != len(args) or env.get("__depth__", 0) > 2:
            return None
        ctx.analysed_fns.add(key)
        pe = PathEnumerator(f, ctx.prog, ctx.summ, subst={i + 1: a for i, a in enumerate(args)})
        outs = []
        for p in pe.paths():
            if p.exit_kind != "return":
                continue
            rt = path_return_term(pe, p)
            if rt is None:
                return None
            facts = pe.path_facts(p)
            env2 = float_facts_to_env(facts, {k: v for k, v in env.items() if not k.startswith("__")})
            env2["__call__"] = hook
            env2["__depth__"] = env.get("__depth__", 0) + 1
            # integer facts on argument terms: x == 0 / x != 0 on an unsigned x
            for c, tr in facts:
                if c[0] == "op" and c[1] in ("Eq", "Ne") and len(c[2]) == 2 and ("const", 0) in c[2]:
                    x = [y for y in c[2] if y != ("const", 0)]
                    if len(x) == 1:
                        iv = ieval(x[0], env2)
                        if (c[1] == "Eq") == bool(tr):
                            env2[repr(x[0])] = Iv.point(0.0)
                        else:
                            env2[repr(x[0])] = Iv(max(iv.lo, 1.0), iv.hi, True, iv.hc)
            outs.append(ieval(rt, env2))
        return hull(outs) if outs else None
    return hook


def bool_loop_form(ctx, fn):
    """A bool function written as a search loop: `for x in S { if !p(x) { return false } } true` is all(S, p), `for x in S { if p(x)
    { return true } } false` is any(S, p). Returns ("all"|"any", stream term, predicate over elem(stream)) or None. The loop must
    be the only loop, run over one stream, leave normally only on exhaustion and return the opposite constant right after it."""
    from ..terms import TermBuilder, simplify
    from ..paths import PathEnumerator
    if fn.local_ty(0) != "bool" or len(fn.loop_heads()) != 1:
        return None
    h = fn.loop_heads()[0]
    tb = TermBuilder(fn, ctx.prog)
    body = fn.natural_loop(h)
    # the stream: the loop's iterator (early returns are allowed here, so not TermBuilder._for_loop_stream)
    st = None
    for b in body:
        t = fn.blocks[b].term
        if t.k == "call" and t.callee_decl() == "std::iter::Iterator::next" and len(t.args) == 1:
            a = tb.operand(t.args[0], b, len(fn.blocks[b].stmts))
            if a[0] == "loopvar" and a[2] == h:
                st = tb.loop_init(a[1], a[2])
    if st is None:
        return None
    pe = PathEnumerator(fn, ctx.prog, ctx.summ, max_back=1)
    early, final = set(), set()
    preds = []
    for p in pe.paths():
        if p.exit_kind != "return" or p.ret not in ("true", "false"):
            return None
        its = iterations_on_path(fn, h, p)
        # did the path leave through the exhaustion exit?
        exhausted = False
        for e in p.events:
            if e["kind"] == "branch" and e["bb"] in body and e.get("cond") is not None and e["cond"][0] == "call" and e["cond"][1] == "discriminant" and e["value"] == 0:
                exhausted = True
        if exhausted:
            final.add(p.ret)
        else:
            early.add(p.ret)
            fs = [(c, tr) for c, tr in pe.path_facts(p) if not (c[0] == "op" and c[1] == "Eq" and c[2] and any(x[0] == "call" and x[1] == "discriminant" for x in c[2]))
                  and not (c[0] == "call" and c[1] == "discriminant")]
            if its >= 1 and fs:
                preds.append(fs[-1])      # the test that made this iteration return
    if len(early) != 1 or len(final) != 1 or early == final or not preds:
        return None
    c0, tr0 = preds[0]
    if any((c, tr) != (c0, tr0) for c, tr in preds):
        return None
    if early == {"false"}:
        # returns false as soon as (c0 is tr0): all items satisfy the negation
        return ("all", st, c0 if not tr0 else simplify(("op", "Not", (c0,))))
    return ("any", st, c0 if tr0 else simplify(("op", "Not", (c0,))))


def full_reservoir_facts(facts, selfp=("param", 1, "self")):
    """On a path that refutes `i < k` the reservoir holds exactly k items (len = min(i, k): R18-length), so a test against
    `reservoir.len()` is a test against k.  Takes and returns a list of (cond, truth); derived facts are appended."""
    from ..terms import mk, subst_term
    from ..guards import fv
    fd = {repr(c): t for c, t in facts}
    i_f, k_f = ("field", selfp, "i"), ("field", selfp, "k")
    ln = ("call", "std::vec::Vec::len", (("field", selfp, "reservoir"),))
    if fv(fd, mk("Lt", i_f, k_f)) is not False:
        return list(facts)
    out = list(facts)
    for c, t in facts:
        c2 = subst_term(c, {ln: k_f})
        if c2 != c:
            out.append((c2, t))
    return out


def gap_window_lemma(ctx, adt="reservoirsampling::ReservoirSampling", bound="4k"):
    """Inductive invariant of the sampler:   skip_until <= i   or   i >= 4k      (hence  i < skip_until  implies  i >= 4k >= k).
    With bound="k" the weaker  skip_until <= i  or  i >= k  (all that the length clause needs) is established instead.

    Base: every construction site starts skip_until at 0 (or copies an existing sampler).  Step, over every returning path of every
    method with a self receiver: a store to skip_until is the constant 0 or lies on a path of add that refutes i < 4k (i at entry;
    i only grows from there and k is fixed, so the second disjunct keeps holding whatever is stored); a store to i is i + 1, or 0 on a
    path that also stores 0 to skip_until; k is never written.  Anything else (a write through a borrow, another value) -> not
    established.  Returns (ok, why)."""
    from ..paths import PathEnumerator
    from ..guards import fv
    from ..terms import TermBuilder, mk, const, fmt
    prog = ctx.prog
    selfp = ("param", 1, "self")
    i_f, k_f = ("field", selfp, "i"), ("field", selfp, "k")
    res_phase = mk("Lt", i_f, mk("Mul", const(4), k_f)) if bound == "4k" else mk("Lt", i_f, k_f)
    if "k" not in config_fields(ctx, adt):
        return False, "k is written by a method"
    n_sites = 0
    for f in prog.fns.values():
        for bi, blk in enumerate(f.blocks):
            if blk.cleanup:
                continue
            for si, st in enumerate(blk.stmts):
                if st.k == "assign" and st.rv.k == "aggregate" and st.rv.j.get("adt") == adt:
                    n_sites += 1
                    d = dict(TermBuilder(f, prog).rvalue(st.rv, bi, si)[3])
                    s, i = d.get("skip_until"), d.get("i")
                    copied = s is not None and i is not None and s[0] == "field" and s[2] == "skip_until" and i[0] == "field" and i[2] == "i" and s[1] == i[1]
                    if not (s == const(0) or copied):
                        return False, "%s builds a sampler with skip_until = %s" % (f.key, fmt(s) if s else "?")
    if n_sites == 0:
        return False, "no construction site found"
    own = {m.key for m in methods_of(prog, adt) if has_self_receiver(m)}
    for m in methods_of(prog, adt):
        if not has_self_receiver(m) or m.impl_derived:
            continue
        pe = PathEnumerator(m, prog, ctx.summ)
        for p in pe.paths():
            if p.exit_kind != "return":
                continue
            # (writes made inside another method of the type that was expanded in place are judged in that method's own turn)
            ws = [e for e in p.events if e["kind"] == "write" and e["root"] == SELF and self_field(e) in ("i", "skip_until")
                  and not (e.get("origin_fn") != m.key and e.get("origin_fn") in own)]
            if not ws:
                continue
            fd = {repr(c): t for c, t in pe.path_facts(p)}
            zero_s = any(self_field(e) == "skip_until" and e["how"] == "store" and e.get("value") == const(0) for e in ws)
            for e in ws:
                if e["how"] != "store" or e.get("value") is None or len(e["path"]) != 1:
                    return False, "%s modifies `%s` other than by a plain store" % (m.name, self_field(e))
                v = e["value"]
                if self_field(e) == "skip_until":
                    if v == const(0) or (m.name == "add" and fv(fd, res_phase) is False):
                        continue
                    return False, "%s stores %s to skip_until on a path that does not establish i >= %s" % (m.name, fmt(v)[:80], bound)
                if v == mk("Add", i_f, const(1)) or (v == const(0) and zero_s) or (v[0] == "op" and v[1] == "Add" and i_f in v[2]):      # usize: i + anything only grows
                    continue
                return False, "%s stores %s to i" % (m.name, fmt(v)[:80])
    return True, "skip_until <= i or i >= %s is inductive (constructors start at 0; drawn gaps are stored only when i >= %s; i only grows or is reset together with skip_until)" % (bound, bound)


_BASE_FNS = []
NEW_WRITERS_NOTE = (" R%s-new-writers (who-may-write over entry points): a public or trait-impl method with a self receiver that the reviewed tree "
                    "does not have must change the structure's protected state (every field except the RNG) only inside calls to reviewed "
                    "public operations of the same structure; a direct store, a call into a private helper, or a `&mut` handed to the caller "
                    "is reported as an unreviewed writer. Expected on the pinned tree: zero new entry points.")


def _baseline_fns():
    if not _BASE_FNS:
        from ..inline import load_baseline
        b = load_baseline()
        _BASE_FNS.append(set(b["fns"]) if b else None)
    return _BASE_FNS[0]


def check_new_writers(ctx, rule, adts, free=("rng",), harmless=None):
    """Who-may-write rule over public entry points.  The rule modules review the functions of the pinned tree (by name, after renames
    are undone and new private helpers are expanded into their callers).  A public method or trait-impl method of a structure that
    the reviewed tree does not have is a new entry point: nothing in the module has looked at it.  It is accepted when every write it
    makes to the structure's protected state happens inside a call to a reviewed PUBLIC operation of the same structure (then any use
    of it is a history of reviewed operations, which is what the properties quantify over), or touches only `free` fields (the RNG:
    the properties hold for every outcome of the random choices).  Any other write — a direct store, a call into a private helper
    whose protocol only its reviewed callers follow, a `&mut` handed out to the caller — is reported: an unreviewed writer of
    protected state.  Expected count on the pinned tree: zero new entry points."""
    base = _baseline_fns()
    if base is None:
        ctx.fail("anchor-missing", rule + ":baseline", None, "engine/pdsa/baseline.json is missing: cannot tell reviewed entry points from new ones")
        return
    prog = ctx.prog
    n_reviewed = n_new = 0
    for adt in adts:
        ms = [m for m in methods_of(prog, adt) if has_self_receiver(m) and not m.impl_derived and "{closure" not in m.key]
        reviewed_pub = {m.key for m in ms if m.key in base and (m.pub or m.impl_trait)}
        n_reviewed += len(reviewed_pub)
        for m in sorted(ms, key=lambda f: f.key):
            if m.key in base or not (m.pub or m.impl_trait):
                continue
            # the body of a reviewed public operation given a name of its own (`impl Filter { fn insert(..) { Self::insert(self, ..) } }`
            # with the old body now an inherent method): it was expanded back into that operation, where every rule has looked at it
            if any(cal == m.key and fwd_ and r_ in reviewed_pub and prog.fn(r_) is not None and prog.fn(r_).arg_count == m.arg_count
                   for r_, cal, fwd_ in getattr(prog, "inlined_pairs", [])):
                ctx.ok(rule, "%s::%s" % (adt, m.name), "new entry point %s is the body of a reviewed public operation with the same signature (expanded in place there)" % m.name, nontrivial=False)
                continue
            n_new += 1
            ctx.analysed_fns.add(m.key)
            bad = {}
            for w in all_writes(ctx, m):
                if w["root"] != SELF or not w["path"]:
                    continue
                fld = w["path"][0]
                if fld in free:
                    continue
                via = w.get("via") or ()
                if via and via[0] in reviewed_pub:
                    continue
                if harmless is not None and harmless(adt, fld, w):
                    continue        # a write this property cannot be broken by (stated by the calling rule module)
                if w["how"] == "borrow":
                    # a borrow is a write only if the reference leaves the method
                    if not ("&mut" in (m.ret_ty or "") or "IterMut" in (m.ret_ty or "") or "Drain" in (m.ret_ty or "")):
                        continue
                how = ("hands out a mutable borrow of" if w["how"] == "borrow" else
                       "calls %s on" % w.get("name") if w["how"] == "call" else "stores to")
                inner = (" (inside %s, which is not a public operation)" % via[0].rsplit("::", 1)[-1]) if via else ""
                bad.setdefault(fld, "%s `%s`%s" % (how, fld, inner))
            rt = m.ret_ty or ""
            if not bad and m.locals and "&mut" in str(m.local_ty(1)) and any(x in rt for x in ("&mut ", "IterMut", "Drain", "RefMut")):
                bad["<return>"] = "returns `%s`: mutable access to the structure's interior handed to the caller" % rt[:80]
            short = adt.rsplit("::", 1)[-1]
            ctx.check(not bad, rule, "%s::%s" % (adt, m.name), m,
                      "new entry point %s::%s changes protected state only through reviewed public operations" % (short, m.name),
                      "%s::%s is a new public entry point that no rule has reviewed and it writes protected state itself: %s — only the reviewed "
                      "operations (and compositions of their public calls) are known to keep this property"
                      % (short, m.name, "; ".join(bad[k] for k in sorted(bad))[:300]))
    ctx.ok(rule, "entry-point-census", "%d reviewed public mutators/readers with a self receiver, %d new entry point(s) examined" % (n_reviewed, n_new), nontrivial=False)
