"""C15 — T-Digest quantile and cdf interpolate between the same knots; reads merge first."""
from ..paths import PathEnumerator
from ..guards import fv
from ..terms import TermBuilder, fmt, mk, const, subterms, linear
from ..terms import callee_is as _nm
from ..guards import atomic_facts
from .common import SELF, self_field

EXPLANATION = (
    "quantile and cdf are piecewise-linear maps through the knots (min, 0), (mean_j, C_j + w_j/2), (max, S). R15-knots: every "
    "interpolate(a, b, t) site is classified by its end points and its t = num/den is compared in linear normal form (0.5*x == x/2 == "
    "x*0.5): left tail a=min, b=mean(first): den = w_first/2; interior a=mean(prev), b=mean(cur): num = limit - (cum - w_prev/2), "
    "den = (w_prev + w_cur)/2; right tail a=mean(last), b=max: num = limit - (S - w_last/2), den = w_last/2 (mirror of the left "
    "tail); R15-segment-guards: the interior segment is selected when cum + w_cur/2 reaches limit, the left tail when limit <= "
    "w_first/2, and — because the loop reads centroids[i-1] — the left-tail test is the same float comparison as the loop test at i = 0. cdf: interior sites interpolate (last_cum, cum + w/2) over (x - last_mean)/(mean - last_mean) with last_mean seeded by "
    "min and last_cum by 0; the right tail interpolates (last_cum, S) over (x - last_mean)/(max - last_mean); results are divided by "
    "S; x < min => 0, x >= max => 1. R15-merge-before-read: every public TDigest method that reads centroids calls inner.merge() on "
    "every path before the read, and merge returns without writing when the backlog is empty (repeated reads are identical). "
    "R15-validation: the argument asserts of quantile/cdf dominate the borrow; empty digests return NaN / 0."
    " C19's clear rules are applied to TDigest/TDigestInner (state kept across clear() mixes old and new data)."
)
from .common import NEW_WRITERS_NOTE as _NWN
EXPLANATION = EXPLANATION + _NWN % "15"
NOT_DECIDED = "floating-point tolerance, and the `within the digest's resolution` quantification of cdf(quantile(q)) ~ q"
ASSUMPTIONS = ["real-number semantics for f64"]

TI = "tdigest::TDigestInner"
TD = "tdigest::TDigest"


def lin(t):
    atoms, c = linear(t)
    return {r: round(v[1], 12) for r, v in atoms.items()}, round(c, 12)


def mean_of(c):
    return mk("Div", ("field", c, "sum"), ("field", c, "count"))


def run(ctx):
    from .common import check_new_writers
    check_new_writers(ctx, "R15-new-writers", ['tdigest::TDigest', 'tdigest::TDigestInner'])
    from .common import loop_exits_only_on_exhaustion
    # a digest that keeps state across clear() answers for a mixture of the old and the new data: C19's clear rules for TDigest
    from .C19 import run_clear_rules
    run_clear_rules(ctx, only_adt="tdigest::TDigestInner", floor=1)
    run_clear_rules(ctx, only_adt="tdigest::TDigest", floor=1)
    prog = ctx.prog
    q = ctx.anchor(TI + "::quantile")
    cdf = ctx.anchor(TI + "::cdf")
    ip = ctx.anchor(TI + "::interpolate")
    if None in (q, cdf, ip):
        return
    selfp = ("param", 1, "self")
    cents = ("field", selfp, "centroids")
    S = ("call", TI + "::count", (selfp,))
    # ---- interpolate ---------------------------------------------------------------------------
    r = TermBuilder(ip, prog).return_term()
    a_, b_, t_ = ("param", 1, "a"), ("param", 2, "b"), ("param", 3, "t")
    ctx.check(r == mk("Add", mk("Mul", t_, b_), mk("Mul", mk("Sub", const(1.0), t_), a_)), "R15-interpolate", ip.key, ip, "interpolate(a,b,t) = t*b + (1-t)*a", "interpolate is %s" % fmt(r))

    # ---- quantile -------------------------------------------------------------------------------
    tb = TermBuilder(q, prog)
    limit = mk("Mul", S, ("param", 2, q.local_name(2)))
    first = ("index", cents, const(0))
    last = ("index", cents, mk("Sub", ("call", "std::vec::Vec::len", (cents,)), const(1)))
    cur = ("elem", cents)
    prev = ("index", cents, mk("Sub", ("enum_idx", cents), const(1)))
    def interp_sites(f, tbf):
        """(block, terminator, [a, b, t]) for every interpolate(..) evaluated by f — called directly or inside a straight-line
        helper that the term builder inlines"""
        out = []
        for bi, t in f.calls():
            if not t.callee_is_local():
                continue
            ct = tbf.call_term(t, bi) if t.callee() != ip.key else ("call", ip.key, tuple(tbf.operand(x, bi, len(f.blocks[bi].stmts)) for x in t.args))
            for sub in subterms(ct):
                if sub[0] == "call" and sub[1] == ip.key and len(sub[2]) == 3:
                    out.append((bi, t, list(sub[2])))
        return out

    def mean_arg(t):
        """c if t is c.sum / c.count"""
        if t[0] == "op" and t[1] == "Div" and len(t[2]) == 2 and t[2][0][0] == "field" and t[2][1][0] == "field" \
                and t[2][0][2] == "sum" and t[2][1][2] == "count" and t[2][0][1] == t[2][1][1]:
            return t[2][0][1]
        return None

    def loop_exits_only_on_exhaustion_q(h):
        # the interior site returns from inside the loop; every OTHER exit must be exhaustion of the iterator
        body = q.natural_loop(h)
        for b in body:
            for sx in q.succs(b):
                if sx in body or not q.can_return(sx):
                    continue
                blk = q.blocks[b]
                if blk.term.k == "switch" and {int(v): tg for v, tg in blk.term.j["arms"]}.get(0) == sx and blk.stmts and blk.stmts[-1].k == "assign" and blk.stmts[-1].rv.k == "discr":
                    continue
                # an exit that leads straight to a return through the interior site is fine
                if "interior" in sites and q.dominates(sx, sites["interior"][0]):
                    continue
                return False
        return True

    sites = {}
    start = 0           # the loop runs over centroids[start..]
    for bi, t, a in interp_sites(q, tb):
        kind = None
        ca, cb = mean_arg(a[0]), mean_arg(a[1])
        if a[0] == ("field", selfp, "min") and cb == first:
            kind = "left"
        elif ca is not None and cb is not None and ca[0] == "index" and cb[0] == "index" and ca[1] == cb[1] and ca[1][0] == "elem" \
                and ca[2] == const(0) and cb[2] == const(1) and ca[1][1][0] == "call" and ca[1][1][1].endswith("::windows") \
                and tuple(ca[1][1][2]) == (cents, const(2)):
            # `for pair in centroids.windows(2)`: pair[1] runs over centroids[1..], pair[0] is its predecessor
            kind = "interior"
            cur, prev, start = cb, ca, 1
        elif ca is not None and cb is not None and cb[0] == "elem":
            # interior: right knot = the loop's current centroid, left knot = its predecessor
            stream = cb[1]
            st_ok = stream == cents
            if stream[0] == "index" and stream[1] == cents and stream[2][0] == "adt" and stream[2][1] == "std::ops::RangeFrom":
                a0 = dict(stream[2][3]).get("start")
                if a0 is not None and a0[0] == "const" and a0[1] == 1:
                    st_ok, start = True, 1
            pred_ok = False
            if st_ok and start == 0:
                pred_ok = ca == ("index", cents, mk("Sub", ("enum_idx", cents), const(1)))
                if not pred_ok and ca[0] == "loopvar":
                    # the predecessor carried in a local over a loop that visits every centroid: seeded with the first centroid (the
                    # first iteration cannot select a segment: the left-tail test has just failed on the same comparison) and replaced
                    # by the current centroid in every iteration; no `i - 1` read, hence no hand-over obligation
                    pred_ok = tb.loop_init(ca[1], ca[2]) == first and tb.loop_update(ca[1], ca[2]) == cb
            elif st_ok and ca[0] == "loopvar":
                # predecessor carried in a local: seeded with centroids[start-1], replaced by the current centroid in every iteration
                pred_ok = tb.loop_init(ca[1], ca[2]) == ("index", cents, const(start - 1)) and tb.loop_update(ca[1], ca[2]) == cb
            if st_ok and pred_ok:
                kind = "interior"
                cur, prev = cb, ca
        elif ca is not None and a[1] == ("field", selfp, "max"):
            kind = "right"
        if kind is None:
            ctx.shape("R15-knots", "%s:bb-site(%s,%s)" % (q.key, fmt(a[0])[:40], fmt(a[1])[:40]), t.span, "interpolate between unrecognised end points %s and %s" % (fmt(a[0]), fmt(a[1])))
            continue
        sites[kind] = (bi, t, a)
    if "right" in sites:
        # the left knot of the right tail is the last centroid: centroids[len-1], or the carried predecessor after the loop ran to exhaustion
        z = mean_arg(sites["right"][2][0])
        carried_prev = "interior" in sites and prev[0] == "loopvar" and z == prev and any(loop_exits_only_on_exhaustion_q(h) for h in q.loop_heads())
        if z == last or carried_prev:
            last = z
        else:
            ctx.shape("R15-knots", "%s:right-knot" % q.key, sites["right"][1].span, "right tail starts at %s, not at the last centroid" % fmt(z))
            del sites["right"]
    ctx.floor("R15-knots:quantile", len(sites), 3, "interpolation sites in quantile (left tail, interior, right tail)")
    # every value quantile returns is one of the interpolations (or NaN for the empty digest): a shortcut that returns a knot, a
    # centroid mean or an extremum directly flattens a whole segment of the quantile function
    def _alts(t_):
        if t_[0] == "phi":
            for x_ in t_[1]:
                for y_ in _alts(x_):
                    yield y_
        else:
            yield t_
    rq = tb.return_term()
    stray = [a_ for a_ in _alts(rq) if not ((a_[0] == "call" and _nm(a_[1], "interpolate")) or (a_[0] == "const" and a_[1] != a_[1]) or a_ == const(float("nan")) or fmt(a_) == "nan")]
    ctx.check(not stray, "R15-knots", q.key + ":returns", q, "quantile returns only interpolated values (or NaN when empty)",
              "quantile returns %s without interpolating (%d such value(s)): every q of that segment is mapped to one point" % (fmt(stray[0])[:120] if stray else "", len(stray)))
    cumv = None
    for kind, (bi, t, a) in sorted(sites.items()):
        tt = guarded_quotient(a[2])
        if not (tt[0] == "op" and tt[1] == "Div" and len(tt[2]) == 2):
            ctx.shape("R15-knots", "%s:%s" % (q.key, kind), t.span, "interpolation parameter %s is not a quotient" % fmt(tt))
            continue
        num, den = tt[2]
        lv = [s for s in subterms(num) if s[0] == "loopvar"]
        cum = lv[0] if lv else None
        wf, wl, wp, wc = ("field", first, "count"), ("field", last, "count"), ("field", prev, "count"), ("field", cur, "count")
        if kind == "left":
            want_num, want_den = ({repr(limit): 1.0}, 0.0), ({repr(wf): 0.5}, 0.0)
        elif kind == "interior":
            want_num, want_den = ({repr(limit): 1.0, repr(cum): -1.0, repr(wp): 0.5}, 0.0), ({repr(wp): 0.5, repr(wc): 0.5}, 0.0)
        else:
            want_num, want_den = ({repr(limit): 1.0, repr(cum): -1.0, repr(wl): 0.5}, 0.0), ({repr(wl): 0.5}, 0.0)
        gn, gd = lin(num), lin(den)
        what = {"left": "w_first/2", "interior": "(w_prev + w_cur)/2", "right": "w_last/2"}[kind]
        ctx.check(gd == want_den, "R15-knots", "%s:%s:span" % (q.key, kind), t.span, "%s tail/segment: rank span %s" % (kind, what),
                  "quantile %s: the interpolation span is %s, but the rank distance between the two knots is %s%s" % (
                      kind, fmt(den), what, " — quantile(1) != max() and the right tail is compressed whenever the last centroid is not the only one" if kind == "right" else ""))
        ctx.check(gn == want_num, "R15-knots", "%s:%s:offset" % (q.key, kind), t.span, "%s: offset measured from the left knot's rank" % kind,
                  "quantile %s: the offset %s is not `limit - rank(left knot)`" % (kind, fmt(num)))
        if cum is not None:
            cumv = cum
    if cumv is not None:
        init = tb.loop_init(cumv[1], cumv[2])
        upd = tb.loop_update(cumv[1], cumv[2])
        want_init = const(0.0) if start == 0 else ("field", first, "count")
        ctx.check((init == want_init or lin(init) == lin(want_init)) and upd == mk("Add", ("field", cur, "count"), cumv), "R15-knots", q.key + ":cum", q, "cum accumulates centroid weights from the weight before the first visited centroid",
                  "cumulative weight is initialised with %s and updated with %s" % (fmt(init), fmt(upd)))
    # ---- segment selection: the guards that choose between the three (correct) interpolation formulas -------------
    def subst(t, m):
        if t in m:
            return m[t]
        if isinstance(t, tuple):
            return tuple(subst(x, m) for x in t)
        return t

    def cmp_norm(c, tr):
        """(strict?, linear form L) meaning L < 0 / L <= 0; None when c is not an ordering comparison"""
        if not (c[0] == "op" and c[1] in ("Le", "Lt", "Ge", "Gt") and len(c[2]) == 2):
            return None
        a, b = c[2]
        if c[1] in ("Ge", "Gt"):
            a, b = b, a
        strict = c[1] in ("Lt", "Gt")
        if not tr:
            a, b, strict = b, a, not strict
        return strict, lin(mk("Sub", a, b))

    def neg_norm(n):
        strict, (atoms, c) = n
        return (not strict), ({k: -v for k, v in atoms.items()}, -c)

    if "interior" in sites and cumv is not None:
        bi, t, a = sites["interior"]
        fs = atomic_facts(q, prog, bi, tb)
        wc = ("field", cur, "count")
        # (1) the segment [prev, cur] is chosen when rank(cur) = cum + w_cur/2 reaches the wanted rank (either strictness)
        sel = [(c, tr) for c, tr in fs if cumv in subterms(c) and cmp_norm(c, tr) is not None]
        want = ({repr(limit): 1.0, repr(cumv): -1.0, repr(wc): -0.5}, 0.0)
        oksel = [(c, tr) for c, tr in sel if cmp_norm(c, tr)[1] == want]
        ctx.check(bool(oksel), "R15-segment-guards", q.key + ":interior", t.span, "the interior segment is selected by limit <= cum + w_cur/2 (rank of the right knot)",
                  "quantile: the interior segment is selected under %s, not when the rank of its right knot `cum + w_cur/2` reaches `limit` (t leaves [0,1]: not monotone)" % (
                      "; ".join("%s is %s" % (fmt(c), tr) for c, tr in sel) or "no comparison with the running weight"))
        # (2) hand-over between the left tail and the loop: the site reads centroids[i-1], so the first iteration (cum = its initial value,
        # cur = centroids[0]) must be excluded by a dominating guard that is the SAME float comparison (a merely real-equivalent one rounds
        # differently: i = 0 reaches centroids[i - 1])
        if prev[0] == "index" and prev[1] == cents and prev in subterms(a[0]) and oksel:
            c0, tr0 = oksel[0]
            at_first = subst(c0, {cumv: tb.loop_init(cumv[1], cumv[2]), cur: first})
            need = neg_norm(cmp_norm(at_first, tr0))
            have = [cmp_norm(c, tr) for c, tr in fs if cumv not in subterms(c) and cur not in subterms(c) and cmp_norm(c, tr) is not None]
            ctx.check(need in have, "R15-segment-guards", q.key + ":handover", t.span, "the left-tail test excludes exactly the loop test at i = 0 (same float comparison), so centroids[i-1] is never reached with i = 0",
                      "quantile: the loop reads centroids[i-1], but no dominating test excludes its own selection test at the first centroid (%s with cum = %s): a q between the two roundings selects i = 0 and panics / indexes out of bounds" % (
                          fmt(at_first), fmt(tb.loop_init(cumv[1], cumv[2]))))
    if "left" in sites:
        bi, t, a = sites["left"]
        fs = atomic_facts(q, prog, bi, tb)
        wf = ("field", first, "count")
        have = [cmp_norm(c, tr) for c, tr in fs if cmp_norm(c, tr) is not None]

        def times_s(x):     # S > 0 on a non-empty digest: `a <= b / S` and `a * S <= b` select the same tail over the reals
            return x[2][0] if (x[0] == "op" and x[1] == "Div" and x[2][1] == S) else mk("Mul", S, x)
        have += [cmp_norm((c[0], c[1], tuple(times_s(x) for x in c[2])), tr) for c, tr in fs if cmp_norm(c, tr) is not None and S in subterms(c)]
        want = ({repr(limit): 1.0, repr(wf): -0.5}, 0.0)
        ctx.check(any(h[1] == want for h in have), "R15-segment-guards", q.key + ":left", t.span, "the left tail is selected by limit <= w_first/2",
                  "quantile: the left tail is not selected by comparing `limit` with the rank `w_first/2` of the first knot (facts: %s)" % "; ".join("%s is %s" % (fmt(c), tr) for c, tr in fs)[:300])

    # empty -> NaN
    rt = tb.return_term()
    alts = rt[1] if rt[0] == "phi" else (rt,)
    nan = [x for x in alts if x[0] == "const" and isinstance(x[1], float) and x[1] != x[1]]
    ctx.check(bool(nan), "R15-validation", q.key + ":empty", q, "empty digest: quantile returns NaN", "quantile has no NaN return for the empty digest")

    # ---- cdf ---------------------------------------------------------------------------------------------
    tc = TermBuilder(cdf, prog)
    cur = ("elem", cents)       # cdf visits every centroid (quantile's loop may start at the second one)
    x_p = ("param", 2, cdf.local_name(2))
    csites = {}
    for bi, t, a in interp_sites(cdf, tc):
        kind = "right" if a[1] == S else "interior"
        csites[kind] = (bi, t, a)
    ctx.floor("R15-knots:cdf", len(csites), 2, "interpolation sites in cdf")
    for kind, (bi, t, a) in sorted(csites.items()):
        lc, b, tt = a
        okc = lc[0] == "loopvar"
        why = []
        if okc:
            init = tc.loop_init(lc[1], lc[2])
            upd = tc.loop_update(lc[1], lc[2])
            cumlv = [s for s in subterms(upd) if s[0] == "loopvar"]
            cw = ("field", cur, "count")
            if not (init == const(0.0) and cumlv and lin(upd) == ({repr(cumlv[0]): 1.0, repr(cw): 0.5}, 0.0)):
                why.append("last_cum is seeded with %s / updated with %s (expected 0 and cum + w/2)" % (fmt(init), fmt(upd)))
            else:
                ci, cu = tc.loop_init(cumlv[0][1], cumlv[0][2]), tc.loop_update(cumlv[0][1], cumlv[0][2])
                if not (ci == const(0.0) and cu == mk("Add", cw, cumlv[0])):
                    why.append("cum is %s / %s" % (fmt(ci), fmt(cu)))
            if kind == "interior" and cumlv and lin(b) != ({repr(cumlv[0]): 1.0, repr(cw): 0.5}, 0.0):
                why.append("upper knot rank is %s (expected cum + w/2)" % fmt(b))
        else:
            why.append("lower knot rank %s is not the loop-carried last_cum" % fmt(lc))
        # t = (x - last_mean) / (upper_mean - last_mean)
        tt = guarded_quotient(tt)
        if tt[0] == "op" and tt[1] == "Div":
            num, den = tt[2]
            lm = [s for s in subterms(num) if s[0] == "loopvar"]
            if lm:
                lmv = lm[0]
                upper = mean_of(cur) if kind == "interior" else ("field", selfp, "max")
                if not (num == mk("Sub", x_p, lmv) and den == mk("Sub", upper, lmv)):
                    why.append("t = %s (expected (x - last_mean)/(upper - last_mean))" % fmt(tt))
                if not (tc.loop_init(lmv[1], lmv[2]) == ("field", selfp, "min") and tc.loop_update(lmv[1], lmv[2]) == mean_of(cur)):
                    why.append("last_mean is seeded with %s / updated with %s" % (fmt(tc.loop_init(lmv[1], lmv[2])), fmt(tc.loop_update(lmv[1], lmv[2]))))
            else:
                why.append("t = %s does not use last_mean" % fmt(tt))
        else:
            why.append("t is not a quotient")
        facts = {repr(c): tr for c, tr in atomic_facts(cdf, prog, bi, tc)}
        guard = mk("Lt", x_p, mean_of(cur)) if kind == "interior" else mk("Lt", x_p, ("field", selfp, "max"))
        if fv(facts, guard) is not True:
            why.append("site is not guarded by %s" % fmt(guard))
        ctx.check(not why, "R15-knots", "%s:%s" % (cdf.key, kind), t.span, "cdf %s segment interpolates between the same knots as quantile" % kind, "; ".join(why[:3]))
    rt = tc.return_term()
    alts = rt[1] if rt[0] == "phi" else (rt,)
    divS = all((x[0] == "const") or (x[0] == "op" and x[1] == "Div" and x[2][1] == S) for x in alts)
    has01 = const(0.0) in alts and const(1.0) in alts
    ctx.check(divS and has01, "R15-knots", cdf.key + ":range", cdf, "cdf returns 0, 1 or an interpolated rank divided by the total weight", "cdf returns %s" % fmt(rt)[:200])
    # x < min => 0 ; x >= max => 1
    pe = PathEnumerator(cdf, prog, ctx.summ)
    probs = []
    lo_g, hi_g = mk("Lt", x_p, ("field", selfp, "min")), mk("Lt", x_p, ("field", selfp, "max"))
    seen0 = seen1 = False
    for p in pe.paths():
        if p.exit_kind != "return":
            continue
        facts = {repr(c): t for c, t in pe.path_facts(p)}
        rv = None
        # value of _0 on this path: look at last assignment — use events? use env-less approach: classify by facts
        if fv(facts, lo_g) is True:
            seen0 = True
            if any(e["kind"] == "call" and e["callee"] == ip.key for e in p.events):
                probs.append("x < min still interpolates")
        if fv(facts, hi_g) is False and fv(facts, lo_g) is False:
            seen1 = True
            if any(e["kind"] == "call" and e["callee"] == ip.key for e in p.events):
                probs.append("x >= max still interpolates")
    ctx.check(seen0 and seen1 and not probs, "R15-knots", cdf.key + ":clamps", cdf, "x < min => 0 and x >= max => 1 are decided before any interpolation", "; ".join(probs) or "clamping branches on min/max not found")
    read_rules(ctx)


def read_rules(ctx):
    """R15-merge-before-read / R15-validation: every public read merges the backlog first, merge is idempotent on an empty backlog,
    arguments are validated before the digest is touched. Also run by C04 (a read that skips the merge answers for a digest that
    is missing up to max_backlog_size values: no rank bound holds for it)."""
    prog = ctx.prog
    selfp = ("param", 1, "self")
    # ---- merge before read ------------------------------------------------------------------------------------
    readers = {TI + "::quantile", TI + "::cdf", TI + "::count", TI + "::sum"}
    # private helpers of TDigest that merge on every path (`fn merged(&self) -> Ref<Inner> { self.inner.borrow_mut().merge(); self.inner.borrow() }`)
    mergers = {TI + "::merge"}
    changed = True
    while changed:
        changed = False
        for g in prog.fns.values():
            if g.key in mergers or g.impl_self != TD or g.name in ("quantile", "cdf", "count", "sum", "mean", "n_centroids") or g.loop_heads():
                continue
            ps = [p for p in PathEnumerator(g, prog, ctx.summ).paths() if p.exit_kind == "return"]
            if ps and all(any(e["kind"] == "call" and e["callee"] in mergers for e in p.events) and
                          not any(e["kind"] == "call" and e["callee"] in readers for e in p.events) for p in ps):
                mergers.add(g.key)
                ctx.analysed_fns.add(g.key)
                changed = True
    n_pub = 0
    for name in ("quantile", "cdf", "count", "sum", "mean", "n_centroids"):
        f = ctx.anchor(TD + "::" + name)
        if f is None:
            continue
        n_pub += 1
        pe = PathEnumerator(f, prog, ctx.summ)
        bad = 0
        n = 0
        for p in pe.paths():
            if p.exit_kind != "return":
                continue
            n += 1
            merged = False
            for e in p.events:
                if e["kind"] == "call" and e["callee"] in mergers:
                    merged = True
                if e["kind"] == "call" and (e["callee"] in readers or (e["name"] == "len" and e["args"] and any(s[0] == "field" and s[2] == "centroids" for s in subterms(e["args"][0])))):
                    if not merged:
                        bad += 1
        ctx.check(n > 0 and bad == 0, "R15-merge-before-read", f.key, f, "inner.merge() precedes the read on all %d paths" % n, "%s reads centroids before merging the backlog on %d path(s)" % (name, bad))
    ctx.floor("R15-merge-before-read", n_pub, 6, "public readers of TDigest")
    mg = ctx.anchor(TI + "::merge")
    if mg is not None:
        pe = PathEnumerator(mg, prog, ctx.summ, max_back=1, limit=4000)
        emp = ("call", "std::vec::Vec::is_empty", (("field", selfp, "backlog"),))
        okm = None
        for p in pe.paths():
            if p.exit_kind != "return":
                continue
            # the FIRST test of `backlog.is_empty()` on the path decides (terms are not versioned by heap state: a later
            # `debug_assert!(self.backlog.is_empty())` after the drain is the same term)
            first = None
            for c, t in pe.path_facts(p):
                first = fv({repr(c): t}, emp)
                if first is not None:
                    break
            if first is True:
                quiet = not [e for e in p.events if e["kind"] == "write" and e["root"] == SELF and e["how"] != "borrow"]
                okm = quiet if okm is None else (okm and quiet)
        okm = bool(okm)
        ctx.check(okm, "R15-merge-before-read", mg.key + ":idempotent", mg, "merge returns without writing when the backlog is empty", "merge modifies the digest even when the backlog is empty (repeated reads may differ)")

    # ---- validation -------------------------------------------------------------------------------------------------
    for name, want in (("quantile", lambda fs, pn: any(c[0] == "call" and _nm(c[1], "RangeInclusive::contains") and tr for c, tr in fs)),
                       ("cdf", lambda fs, pn: any(c[0] == "op" and c[1] == "is_nan" and not tr for c, tr in fs))):
        f = ctx.anchor(TD + "::" + name)
        if f is None:
            continue
        tbf = TermBuilder(f, prog)
        site = [bi for bi, t in f.calls() if t.callee_name() == "borrow_mut" or t.callee() in mergers]
        okv = bool(site) and all(want(atomic_facts(f, prog, bi, tbf), None) for bi in site)
        ctx.check(okv, "R15-validation", f.key, f, "argument assert dominates the first borrow", "%s does not validate its argument before touching the digest" % name)


def guarded_quotient(tt):
    """`if den > 0 { num / den } else { c }` is the quotient num / den: the other arm is taken only where the segment is empty
    (den <= 0 cannot hold between two knots a <= x < b); anything else is returned unchanged"""
    from ..terms import PHI_GUARD
    if tt and tt[0] == "phi":
        g = PHI_GUARD.get(repr(tt))
        if g is not None:
            cond, yes, no = g
            for q_, other_, want in ((yes, no, True), (no, yes, False)):
                if q_[0] == "op" and q_[1] == "Div" and len(q_[2]) == 2 and other_[0] == "const":
                    den = q_[2][1]
                    pos = cond in (mk("Lt", const(0.0), den), mk("Lt", const(0), den)) if want else cond in (mk("Le", den, const(0.0)), mk("Le", den, const(0)))
                    if pos:
                        return q_
    return tt
