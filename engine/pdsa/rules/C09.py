"""C09 — LossyCounter: the six Manku–Motwani formulas as term templates and path summaries."""
from ..paths import PathEnumerator
from ..guards import fv
from ..terms import TermBuilder, fmt, mk, const, subterms, elem_of, linear_eq
from ..terms import callee_is as _nm
from ..guards import atomic_facts, int_bounds
from ..intervals import float_facts_to_env
from .common import SELF, self_field

EXPLANATION = (
    "R09-n: `self.n += 1` exactly once on every path of add, in a block dominating the computation of the bucket id. R09-bucket: "
    "b_current == ceil(n/width) (accepted: n/width + (n%width != 0), (n+width-1)/width, div_ceil). R09-new-entry: the Vacant arm "
    "inserts {f: 1, delta: b_current - 1} and yields true; the Occupied arm does f += 1 and yields false. R09-prune: the table is "
    "filtered only on paths with n % width == 0, keeping exactly entries with f + delta > b_current. R09-query: bound = "
    "max(ceil((threshold - epsilon) * n), 0) and the filter is f >= bound over `known` only. R09-epsilon-width: in both "
    "constructors 1/width <= epsilon (width = ceil(1/epsilon); epsilon = 1/width)."
)
from .common import NEW_WRITERS_NOTE as _NWN
EXPLANATION = EXPLANATION + _NWN % "09"
NOT_DECIDED = "the harmonic-number bound on table size (a counting argument over all streams)"
ASSUMPTIONS = ["HashMap::entry/Vacant::insert/Occupied::get_mut act on the given key", "drain().filter(p).collect() keeps exactly the entries satisfying p"]

LC = "topk::lossycounter::LossyCounter"


def is_ceil_div(t, n, w, fn=None, prog=None, tb=None):
    """t == ceil(n / w) in one of the accepted spellings"""
    if t == mk("div_ceil", n, w):
        return True
    if t == mk("Div", mk("Sub", mk("Add", n, w), const(1)), w):
        return True
    # n/w + (n % w != 0) as usize
    if t == mk("Add", mk("Div", n, w), ("cast", "usize", mk("Ne", mk("Rem", n, w), const(0)))):
        return True
    if t == mk("Add", mk("Div", n, w), mk("Ne", mk("Rem", n, w), const(0))):       # usize::from(n % w != 0)
        return True
    # n/w + {0 if n % w == 0 else 1}
    if t[0] == "op" and t[1] == "Add" and len(t[2]) == 2:
        rest = [x for x in t[2] if x != mk("Div", n, w)]
        if len(rest) == 1 and rest[0][0] == "phi" and set(rest[0][1]) == {const(0), const(1)}:
            return "phi"
    return False


def run(ctx):
    from .common import check_new_writers
    check_new_writers(ctx, "R09-new-writers", ['topk::lossycounter::LossyCounter'])
    prog = ctx.prog
    add = ctx.anchor(LC + "::add")
    qry = ctx.anchor(LC + "::query")
    if add is None or qry is None:
        return
    selfp = ("param", 1, "self")
    n_f, w_f = ("field", selfp, "n"), ("field", selfp, "width")
    at_end = mk("Eq", mk("Rem", n_f, w_f), const(0))
    tb = TermBuilder(add, prog)
    pe = PathEnumerator(add, prog, ctx.summ)
    paths = [p for p in pe.paths() if p.exit_kind == "return"]

    # ---- R09-n -----------------------------------------------------------------------------
    probs = []
    n_store_bbs = set()
    for p in paths:
        ns = [e for e in p.events if e["kind"] == "write" and self_field(e) == "n"]
        if not (len(ns) == 1 and ns[0]["value"] == mk("Add", n_f, const(1))):
            probs.append("a path updates n %d times" % len(ns))
        for e in ns:
            n_store_bbs.add(e["bb"])
    # blocks that read self.n in arithmetic (Rem / Div)
    read_bbs = set()
    for bi, blk in enumerate(add.blocks):
        if blk.cleanup:
            continue
        for si, st in enumerate(blk.stmts):
            if st.k == "assign" and st.rv.k == "binop" and st.rv.j["op"] in ("Rem", "Div", "Add"):
                t = tb.rvalue(st.rv, bi, si)
                if any(s == n_f for s in subterms(t)) and st.rv.j["op"] in ("Rem", "Div"):
                    read_bbs.add(bi)
    dom_ok = len(n_store_bbs) == 1 and all(add.dominates(list(n_store_bbs)[0], b) and b != list(n_store_bbs)[0] for b in read_bbs) and read_bbs
    ctx.check(not probs and dom_ok, "R09-n", add.key, add, "n += 1 exactly once per add, before the window arithmetic (%d paths)" % len(paths),
              "; ".join(sorted(set(probs))) or "the increment of n does not dominate the computation of the bucket id (n would be the old stream length)")

    # ---- the entry update in combinator form: known.entry(t).and_modify(|v| ..).or_insert_with(|| ..) -----------------------
    comb = entry_combinators(ctx, add, tb, paths)

    # ---- b_current -------------------------------------------------------------------------------
    # take it from the Vacant insert's delta (= b_current - 1) and from the prune closure's upvar
    bcur = None
    if comb is not None and comb.get("vacant") is not None and comb["vacant"][0] == "adt":
        dl = dict(comb["vacant"][3]).get("delta")
        if dl is not None and dl[0] == "op" and dl[1] == "Sub" and dl[2][1] == const(1):
            bcur = dl[2][0]
    for p in paths:
        for e in p.events:
            if e["kind"] == "write" and e.get("name") == "insert" and self_field(e) == "known" and e["args"] and e["args"][-1][0] == "adt":
                d = dict(e["args"][-1][3])
                dl = d.get("delta")
                if dl is not None and dl[0] == "op" and dl[1] == "Sub" and dl[2][1] == const(1):
                    bcur = dl[2][0]
    shape = is_ceil_div(bcur, n_f, w_f) if bcur else False
    ok_b = bool(shape)
    if shape == "phi":
        # the 0 must be chosen exactly on the window-end branch: find the two constant assignments
        ok_b = phi_guarded(ctx, add, tb, at_end)
    ctx.check(ok_b, "R09-bucket", add.key, add, "b_current = ceil(n / width) (%s)" % (fmt(bcur) if bcur else "?"),
              "current bucket id is %s, expected ceil(n/width)" % (fmt(bcur) if bcur else "<not found>"))

    # ---- new entry / known entry ---------------------------------------------------------------------
    probs = []
    seen = {"vac": 0, "occ": 0}
    if comb is not None:
        v = comb.get("vacant")
        d = dict(v[3]) if v is not None and v[0] == "adt" else {}
        if d.get("f") != const(1) or bcur is None or d.get("delta") != mk("Sub", bcur, const(1)):
            probs.append("new entry is %s, expected {f: 1, delta: b_current - 1}" % (fmt(v) if v else "?"))
        if comb.get("occupied") != "f+1":
            probs.append("known entry updated with %s, expected f + 1" % comb.get("occupied"))
        probs += comb["problems"]
        ctx.check(not probs, "R09-new-entry", add.key, add, "entry(t).and_modify(f += 1).or_insert_with({f:1, delta:b-1}) on every path; add returns the flag set only by the inserting closure",
                  "; ".join(sorted(set(probs))[:3]))
    for p in (paths if comb is None else []):
        ins = [e for e in p.events if e["kind"] == "write" and e.get("name") == "insert" and self_field(e) == "known"]
        upd = [e for e in p.events if e["kind"] == "write" and e["how"] == "store" and e["root"] == SELF and e["path"][:1] == ("known",) and e["path"][-1:] == ("f",)]
        if ins:
            seen["vac"] += 1
            v = ins[0]["args"][-1]
            d = dict(v[3]) if v[0] == "adt" else {}
            if d.get("f") != const(1) or bcur is None or d.get("delta") != mk("Sub", bcur, const(1)):
                probs.append("new entry is %s, expected {f: 1, delta: b_current - 1}" % fmt(v))
            if p.ret != "true" or upd:
                probs.append("inserting path returns %s" % p.ret)
        elif upd:
            seen["occ"] += 1
            val = upd[0]["value"]
            if not (val[0] == "op" and val[1] == "Add" and const(1) in val[2]):
                probs.append("known entry updated with %s, expected f + 1" % fmt(val))
            if p.ret != "false" or len(upd) != 1:
                probs.append("updating path returns %s / %d updates" % (p.ret, len(upd)))
        else:
            probs.append("a path neither inserts nor updates the entry")
    if comb is None:
      ctx.check(not probs and seen["vac"] and seen["occ"], "R09-new-entry", add.key, add, "Vacant: insert {f:1, delta:b-1} -> true (%d paths); Occupied: f += 1 -> false (%d paths)" % (seen["vac"], seen["occ"]),
              "; ".join(sorted(set(probs))[:3]))

    # ---- prune -------------------------------------------------------------------------------------------
    probs = []
    n_prune = 0
    for p in paths:
        facts = {repr(c): t for c, t in pe.path_facts(p)}
        stores = [e for e in p.events if e["kind"] == "write" and e["how"] == "store" and e["root"] == SELF and e["path"] == ("known",)]
        retains = [e for e in p.events if e["kind"] == "write" and e["how"] == "call" and e.get("name") == "retain" and self_field(e) == "known"]
        pruned = stores or retains
        if pruned:
            n_prune += 1
            if fv(facts, at_end) is not True:
                probs.append("table filtered on a path where n % width == 0 does not hold")
            for e in stores:
                v = e["value"]
                okv = v[0] == "call" and _nm(v[1], "collect") and v[2][0][0] == "filter" and v[2][0][1] == ("call", "std::collections::HashMap::drain", (("field", selfp, "known"),))
                if okv:
                    pred = elem_of(("map", ("dummy",), v[2][0][2]))  # apply closure to elem(dummy)
                    x = ("elem", ("dummy",))
                    want = mk("Lt", bcur, mk("Add", ("field", ("tfield", x, 1), "delta"), ("field", ("tfield", x, 1), "f"))) if bcur else None
                    if pred != want:
                        probs.append("prune predicate is %s, expected f + delta > b_current" % fmt(pred))
                else:
                    probs.append("table replaced by %s" % fmt(v)[:120])
        elif fv(facts, at_end) is True:
            probs.append("window end reached without pruning")
    ctx.check(not probs and n_prune >= 2, "R09-prune", add.key, add, "pruning exactly at window ends, keeping f + delta > b_current (%d pruning paths)" % n_prune,
              "; ".join(sorted(set(probs))[:3]) or "no pruning path found")

    # ---- query ---------------------------------------------------------------------------------------------------
    tq = TermBuilder(qry, prog)
    r = tq.return_term()
    thr = ("param", 2, qry.local_name(2))
    eps_f = ("field", selfp, "epsilon")
    bound = ("cast", "usize", mk("max", const(0.0), mk("ceil", mk("Mul", ("cast", "f64", n_f), mk("Sub", thr, eps_f)))))
    okq = False
    desc = fmt(r)
    if r[0] == "map" and r[1][0] == "filter" and r[1][1] == ("field", selfp, "known"):
        x = ("elem", ("dummy",))
        pred = elem_of(("map", ("dummy",), r[1][2]))
        item = elem_of(("map", ("dummy",), r[2]))
        okq = pred == mk("Le", bound, ("field", ("tfield", x, 1), "f")) and item == ("tfield", x, 0)
        desc = "filter %s map %s" % (fmt(pred), fmt(item))
    if not okq and r[0] == "call" and _nm(r[1], "Iterator::filter_map") and len(r[2]) == 2 and r[2][0] == ("field", selfp, "known") and r[2][1][0] == "closure":
        # known.iter().filter_map(|(k, v)| if pred { Some(k) } else { None })
        cf = prog.fn(r[2][1][1])
        x = ("elem", ("dummy",))
        if cf is not None:
            ctx.analysed_fns.add(cf.key)
            pq = PathEnumerator(cf, prog, ctx.summ, subst={1: ("closure_env", r[2][1][2]), 2: x})
            want = mk("Le", bound, ("field", ("tfield", x, 1), "f"))
            good = []
            for p in pq.paths():
                if p.exit_kind != "return":
                    continue
                fd = {repr(c): tr for c, tr in pq.path_facts(p)}
                g = fv(fd, want)
                if p.ret == "Some":
                    good.append(g is True and p.ret_payload == ("term", ("tfield", x, 0)))
                elif p.ret == "None":
                    good.append(g is False)
                else:
                    good.append(False)
            okq = len(good) >= 2 and all(good)
            desc = "filter_map with %d closure paths" % len(good)
            if not okq:
                # the closure body as one expression: `(pred).then(|| k.clone())` / `(pred).then_some(k)`
                from ..terms import apply_closure
                rc = apply_closure(r[2][1], (x,))
                if rc[0] == "call" and rc[1] in ("bool::then", "bool::then_some") and len(rc[2]) == 2:
                    cnd, val = rc[2]
                    if rc[1] == "bool::then":
                        val = apply_closure(val, ()) if val[0] == "closure" else val
                    okq = fv({repr(cnd): True}, want) is True and fv({repr(cnd): False}, want) is False and val == ("tfield", x, 0)
                    desc = "filter_map(|e| (%s).then(%s))" % (fmt(cnd)[:120], fmt(val)[:60])
    ctx.check(okq, "R09-query", qry.key, qry, "query keeps keys of `known` with f >= max(ceil((threshold - epsilon) * n), 0)", "query is %s" % desc[:300])

    # ---- constructors ---------------------------------------------------------------------------------------------
    we = ctx.anchor(LC + "::with_epsilon")
    ww = ctx.anchor(LC + "::with_width")
    if we is not None:
        r = TermBuilder(we, prog).return_term()
        d = dict(r[3]) if r[0] == "adt" else {}
        e_p = ("param", 1, "epsilon")
        from .common import construction_blocks
        agg_bb = construction_blocks(ctx, we, LC)
        env = float_facts_to_env(atomic_facts(we, prog, agg_bb[0])) if agg_bb else {}
        iv = env.get(repr(e_p))
        ctx.check(d.get("width") == ("cast", "usize", mk("ceil", mk("Div", const(1.0), e_p))) and d.get("epsilon") == e_p and d.get("n") == const(0) and iv is not None and iv.gt(0) and iv.lt(1),
                  "R09-epsilon-width", we.key, we, "width = ceil(1/epsilon), 0 < epsilon < 1", "with_epsilon builds %s" % fmt(r))
    if ww is not None:
        r = TermBuilder(ww, prog).return_term()
        d = dict(r[3]) if r[0] == "adt" else {}
        w_p = ("param", 1, "width")
        from .common import construction_blocks
        agg_bb = construction_blocks(ctx, ww, LC)
        lo = int_bounds(atomic_facts(ww, prog, agg_bb[0]), w_p)[0] if agg_bb else None
        ctx.check(d.get("epsilon") == mk("Div", const(1.0), ("cast", "f64", w_p)) and d.get("width") == w_p and d.get("n") == const(0) and lo is not None and lo >= 1,
                  "R09-epsilon-width", ww.key, ww, "epsilon = 1/width, width >= 1", "with_width builds %s (width >= %s)" % (fmt(r), lo))
    nf = ctx.anchor(LC + "::n")
    if nf is not None:
        r = TermBuilder(nf, prog).return_term()
        ctx.check(r == n_f, "R09-n", nf.key, nf, "n() returns the field", "n() is %s" % fmt(r))


def entry_combinators(ctx, add, tb, paths):
    """`self.known.entry(t).and_modify(C0).or_insert_with(C1)` (or `.or_insert(v)`): returns
         {"vacant": term inserted for a new key, "occupied": "f+1" | description, "problems": [...]}
    or None when add does not use this form. Semantics assumed (std): and_modify runs C0 on the value of an occupied entry only,
    or_insert_with runs C1 and inserts its result for a vacant entry only."""
    from ..terms import apply_closure
    from .common import all_writes
    prog = ctx.prog
    selfp = ("param", 1, "self")
    chain = [(bi, t) for bi, t in add.calls() if t.callee_name() in ("or_insert_with", "or_insert") and not t.callee_is_local()]
    if len(chain) != 1:
        return None
    bi, t = chain[0]
    a = [tb.operand(x, bi, len(add.blocks[bi].stmts)) for x in t.args]
    am = a[0]
    if not (am[0] == "call" and am[1].endswith("::and_modify") and len(am[2]) == 2 and am[2][1][0] == "closure"):
        return None
    ent = am[2][0]
    probs = []
    if ent != ("call", "std::collections::HashMap::entry", (("field", selfp, "known"), ("param", 2, add.local_name(2)))):
        probs.append("the entry looked up is %s, expected known.entry(t)" % fmt(ent))
    # occupied: C0 stores f + 1 into the value it is given, nothing else
    c0 = prog.fn(am[2][1][1])
    occ = "?"
    if c0 is not None:
        ctx.analysed_fns.add(c0.key)
        ws = [w for w in all_writes(ctx, c0) if w["how"] != "borrow"]
        if len(ws) == 1 and ws[0]["root"] == ("param", 2) and ws[0]["path"] == ("f",) and ws[0]["how"] == "store" \
                and ws[0]["value"] == mk("Add", const(1), ("field", ("param", 2, c0.local_name(2)), "f")):
            occ = "f+1"
        else:
            occ = "; ".join("%s <- %s" % (".".join(w["path"]), fmt(w["value"]) if w.get("value") else w["how"]) for w in ws) or "nothing"
    # vacant: value of C1 / the or_insert operand
    vac = None
    flag_local = None
    if t.callee_name() == "or_insert":
        vac = a[1]
    elif a[1][0] == "closure":
        vac = apply_closure(a[1], ())
        c1 = prog.fn(a[1][1])
        if c1 is not None:
            ctx.analysed_fns.add(c1.key)
            ws = [w for w in all_writes(ctx, c1) if w["how"] != "borrow"]
            # the only side effect allowed: setting a captured flag to true
            flags = [w for w in ws if w["root"] == ("param", 1) and len(w["path"]) == 1 and w["how"] == "store" and w["value"] == const(True)]
            if len(flags) != len(ws):
                probs.append("the inserting closure has other side effects")
            if len(flags) == 1:
                # which local of add is captured in that slot?
                slot = int(flags[0]["path"][0])
                for blk in add.blocks:
                    for st in blk.stmts:
                        if st.k == "assign" and st.rv.k == "aggregate" and st.rv.j.get("ak") == "closure" and st.rv.j.get("def", st.rv.j.get("closure", "")) in (a[1][1], "") and len(st.rv.ops) > slot:
                            o = st.rv.ops[slot]
                            if o.place is not None and o.place.is_local():
                                for (b2, i2, kind, obj) in add.defs().get(o.place.local, []):
                                    if kind == "stmt" and obj.rv.k == "ref" and obj.rv.place.is_local():
                                        flag_local = obj.rv.place.local
    # every returning path runs the chain
    for p in paths:
        if not any(e["kind"] == "call" and e["name"] == t.callee_name() for e in p.events):
            probs.append("a path returns without touching the entry")
    # the result: `true` exactly for a new key
    r = tb.return_term()
    if flag_local is not None:
        inits = [obj for (b2, i2, kind, obj) in add.defs().get(flag_local, []) if kind == "stmt"]
        init_false = len(inits) == 1 and inits[0].rv.k == "use" and inits[0].rv.ops[0].k == "const" and inits[0].rv.ops[0].value() is False
        alts = r[1] if r[0] == "phi" else (r,)
        if not (init_false and all(x == ("clobber", flag_local) for x in alts)):
            probs.append("add returns %s, expected the flag that only the inserting closure sets" % fmt(r)[:100])
    else:
        # no flag: the result must be `the entry was vacant` on every path (e.g. `matches!(slot, Entry::Vacant(_))` taken before
        # the entry is consumed) — decided on the paths, which assume Occupied / Vacant at the entry() call
        n_v = n_o = 0
        for p in paths:
            asm = [e["variant"] for e in p.events if e["kind"] == "assume" and e["of"]["name"] == "entry"]
            if len(asm) != 1:
                probs.append("a path looks the entry up %d times" % len(asm))
            elif (asm[0] == "Vacant") != (p.ret == "true") or p.ret not in ("true", "false"):
                probs.append("add returns %s for %s entry" % (p.ret, "a vacant" if asm[0] == "Vacant" else "an occupied"))
            else:
                n_v += asm[0] == "Vacant"
                n_o += asm[0] == "Occupied"
        if not (n_v and n_o):
            probs.append("add returns %s: cannot relate it to `the key was new`" % fmt(r)[:100])
    return {"vacant": vac, "occupied": occ, "problems": probs}


def phi_guarded(ctx, add, tb, at_end):
    """`if at_window_end { 0 } else { 1 }`: the constant 0 is assigned under the fact at_end, 1 under its negation"""
    found = {}
    for bi, blk in enumerate(add.blocks):
        if blk.cleanup:
            continue
        for si, st in enumerate(blk.stmts):
            if st.k == "assign" and st.place.is_local() and st.rv.k == "use" and st.rv.ops[0].k == "const" and add.local_ty(st.place.local) == "usize":
                v = st.rv.ops[0].value()
                if v in (0, 1):
                    facts = {repr(c): t for c, t in atomic_facts(add, ctx.prog, bi, tb)}
                    if repr(at_end) in facts:
                        found.setdefault(st.place.local, {})[v] = facts[repr(at_end)]
    return any(d.get(0) is True and d.get(1) is False for d in found.values())
