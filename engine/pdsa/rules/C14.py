"""C14 — CuckooFilter is an exact multiset over fingerprint classes (result codes, accounting, sibling helpers)."""
from ..paths import PathEnumerator
from ..terms import TermBuilder, fmt, const, mk
from .common import SELF, self_field, self_field_term, is_self

EXPLANATION = (
    "R14-ok-true: constant propagation over the insert call graph — every Ok(..) that can flow out of "
    "<CuckooFilter as Filter>::insert carries the constant `true` (documented contract). R14-accounting: path summaries of "
    "insert_internal / delete / the bucket helpers — exactly one `n_elements += 1` and one successful slot placement on every "
    "Ok path, none on Err paths; delete decrements exactly when a slot was cleared and returns true then; remove/write touch at "
    "most one slot and return immediately. R14-siblings: write_to_bucket/has_in_bucket/remove_from_bucket scan the same slot "
    "range i*bucketsize .. i*bucketsize+bucketsize and compare/write at the scanned slot. R14-first-insert: the first action of "
    "insert_internal is an unconditional placement attempt in bucket i1 that yields Ok on success."
    " R14-full-scan: a bucket helper returns false only after the iterator over the bucket is exhausted (loop form) or is an `any` over the whole range. C12's restore rules are applied to the cuckoo filter."
)
from .common import NEW_WRITERS_NOTE as _NWN
EXPLANATION = EXPLANATION + _NWN % "14"
NOT_DECIDED = "exact multiset behaviour through arbitrary eviction chains for every RNG outcome (needs reachability facts about table contents)"
ASSUMPTIONS = ["IntVec::get/IntVecMut::set read/write exactly the addressed element", "payload constants of Result::Ok aggregates are literal booleans"]

CF = "filters::cuckoofilter::CuckooFilter"
INSERT = "<filters::cuckoofilter::CuckooFilter as filters::Filter[T]>::insert"


def n_elem_writes(p):
    return [e for e in p.events if e["kind"] == "write" and self_field(e) == "n_elements"]


def table_sets(p):
    return [e for e in p.events if e["kind"] == "write" and self_field(e) == "table" and e["how"] == "call"]


def any_form(ctx, h):
    """(range term, predicate body over elem(dummy)) if the helper is `range.any(|x| pred)`, else None"""
    from ..terms import apply_closure
    if h.loop_heads():
        return None
    r = TermBuilder(h, ctx.prog).return_term()
    if r[0] == "call" and r[1].endswith("::any") and len(r[2]) == 2 and r[2][1][0] == "closure":
        body = apply_closure(r[2][1], (("elem", ("dummy",)),))
        return r[2][0], body
    return None


def find_form(ctx, h):
    """The helper delegates its scan to `range.find(|x| pred)` — directly or through one crate-local finder function —
    and only looks at the Option it gets back. Returns {"rng", "body" (pred over elem(dummy)), "call" (term of the Option),
    "slot" (term of the found position)} or None."""
    from ..terms import apply_closure, _closure_hook
    if h.loop_heads():
        return None
    prog = ctx.prog
    tb = TermBuilder(h, prog)
    cands = []
    for bi, t in h.calls():
        if t.callee_is_local() and prog.fn(t.callee()) is not None and prog.fn(t.callee()).kind != "Closure":
            g = prog.fn(t.callee())
            if g.loop_heads():
                continue
            a = [tb.operand(x, bi, len(h.blocks[bi].stmts)) for x in t.args]
            r = TermBuilder(g, prog, {i + 1: x for i, x in enumerate(a)}, 1).return_term()
            _closure_hook[0] = tb._apply_closure_hook
            if r[0] == "call" and r[1].endswith("::find") and len(r[2]) == 2 and r[2][1][0] == "closure":
                ctx.analysed_fns.add(g.key)
                cands.append((("call", t.callee(), tuple(a)), r))
        elif t.callee_decl() == "std::iter::Iterator::find":
            a = [tb.operand(x, bi, len(h.blocks[bi].stmts)) for x in t.args]
            if len(a) == 2 and a[1][0] == "closure":
                r = ("call", t.callee(), tuple(a))
                cands.append((r, r))
    if len(cands) != 1:
        return None
    call, r = cands[0]
    body = apply_closure(r[2][1], (("elem", ("dummy",)),))
    rng = r[2][0]
    if rng[0] == "map" and rng[2][0] == "closure":
        # `(first..end).map(|x| x as u64).find(..)`: positions of the same range in another integer type
        cb = apply_closure(rng[2], (("elem", ("dummy",)),))
        if cb == ("elem", ("dummy",)) or (cb[0] == "cast" and cb[2] == ("elem", ("dummy",))):
            rng = rng[1]
    return {"rng": rng, "body": body, "call": call, "slot": ("field", ("variant", call, "Some"), "0")}


def run(ctx):
    from .common import check_new_writers
    check_new_writers(ctx, "R14-new-writers", ['filters::cuckoofilter::CuckooFilter'])
    prog = ctx.prog
    ins = ctx.anchor(INSERT)
    ii = ctx.anchor(CF + "::insert_internal")
    dele = ctx.anchor(CF + "::delete")
    wtb = ctx.anchor(CF + "::write_to_bucket")
    hib = ctx.anchor(CF + "::has_in_bucket")
    rfb = ctx.anchor(CF + "::remove_from_bucket")
    if None in (ins, ii, dele, wtb, hib, rfb):
        return

    # ---- R14-ok-true ---------------------------------------------------------------
    n_ok = 0
    for f in (ii, ins):
        pe = PathEnumerator(f, prog, ctx.summ)
        seen = {}
        for p in pe.paths():
            if p.exit_kind == "return" and p.ret == "Ok":
                key = repr(p.ret_payload)
                seen.setdefault(key, p)
        for key, p in sorted(seen.items()):
            n_ok += 1
            pl = p.ret_payload
            # `match self.insert_internal(..) { Ok(v) => Ok(v), Err(e) => .. }`: the payload handed on is insert_internal's own Ok payload,
            # which is judged in insert_internal's turn
            inner_ = pl[1] if pl and pl[0] == "term" and len(pl) == 2 else pl
            if f is ins and inner_ and inner_[0] == "field" and inner_[2] == "0" and inner_[1][0] == "variant" and inner_[1][2] == "Ok" \
                    and inner_[1][1][0] == "call" and inner_[1][1][1] == ii.key:
                ctx.ok("R14-ok-true", "%s:Ok(forwarded)" % f.key, "insert hands on the Ok payload of insert_internal unchanged", nontrivial=False)
                continue
            # locate the Ok aggregate for the report
            where = p.fn.blocks[p.blocks[-1]].term.span
            for b in reversed(p.blocks):
                for st in p.fn.blocks[b].stmts:
                    if st.k == "assign" and st.place.is_local() and st.place.local == 0 and st.rv.k == "aggregate" and st.rv.j.get("variant") == "Ok":
                        where = st.span
                        break
                else:
                    continue
                break
            ctx.check(pl == ("const", True), "R14-ok-true", "%s:Ok(%s)" % (f.key, "true" if pl == ("const", True) else ("false" if pl == ("const", False) else "?")), where,
                      "success exit carries Ok(true)",
                      "a successful insert can return Ok(%s) — documented: `always report Ok(true) in case of success`" % (fmt(pl) if pl and pl[0] != "const" else (pl[1] if pl else "?")))
    ctx.floor("R14-ok-true", n_ok, 2, "distinct Ok payloads on insert paths")

    # ---- R14-accounting: insert_internal --------------------------------------------
    pe = PathEnumerator(ii, prog, ctx.summ)
    n_paths = {"Ok": 0, "Err": 0}
    bad_ok, bad_err = [], []
    for p in pe.paths():
        if p.exit_kind != "return":
            continue
        nw = n_elem_writes(p)
        placed = [e for e in p.events if e["kind"] == "call" and e["name"] == "write_to_bucket" and e["ret"] == "true"]
        if p.ret == "Ok":
            n_paths["Ok"] += 1
            good = len(nw) == 1 and len(placed) == 1 and nw[0]["how"] == "store" and nw[0]["value"] == ("op", "Add", (const(1), ("field", ("param", 1, "self"), "n_elements")))
            if not good:
                bad_ok.append((p, len(nw), len(placed)))
        elif p.ret == "Err":
            n_paths["Err"] += 1
            if nw:
                bad_err.append(p)
    ctx.check(not bad_ok and n_paths["Ok"] >= 3, "R14-accounting", ii.key + ":Ok", ii,
              "all %d Ok paths: exactly one `n_elements += 1` and exactly one successful write_to_bucket" % n_paths["Ok"],
              "an Ok path of insert_internal has %s n_elements update(s) and %s successful placement(s) (expected exactly one each, +1)" % (bad_ok[0][1] if bad_ok else "?", bad_ok[0][2] if bad_ok else "?"))
    ctx.check(not bad_err and n_paths["Err"] >= 1, "R14-accounting", ii.key + ":Err", ii,
              "all %d Err paths leave n_elements untouched" % n_paths["Err"],
              "an Err path of insert_internal changes n_elements")

    # ---- R14-first-insert --------------------------------------------------------------
    # on every path: the first thing that touches the table is a direct placement attempt in bucket i1 (the first of the two
    # candidates); a successful attempt ends the call with Ok; nothing is evicted before both direct attempts have failed
    tb = TermBuilder(ii, prog)
    i1p, i2p = ("param", 3, "i1"), ("param", 4, "i2")
    probs = []
    n_first = 0
    for p in PathEnumerator(ii, prog, ctx.summ).paths():
        if p.exit_kind != "return":
            continue
        seq = []
        for e in p.events:
            if e["kind"] == "call" and e["name"] == "write_to_bucket":
                seq.append(("try", e))
            elif e["kind"] == "write" and e["root"] == SELF and self_field(e) == "table" and e["how"] != "borrow" and not e.get("via"):
                seq.append(("evict", e))
        if not seq:
            probs.append("a path returns without attempting a placement")
            continue
        n_first += 1
        k0, e0 = seq[0]
        if k0 != "try" or e0["args"][1] not in (i1p, ("elem", ("array", (i1p, i2p)))) or e0["args"][2][:2] != ("param", 2):
            probs.append("the first table access is not write_to_bucket(i1, f)")
        elif e0["ret"] == "true" and (p.ret != "Ok" or len(seq) != 1):
            probs.append("a successful first placement does not end the call with Ok")
        ev_at = [n for n, (k_, _) in enumerate(seq) if k_ == "evict"]
        if ev_at and not (ev_at[0] >= 2 and all(k_ == "try" and e_["ret"] == "false" for k_, e_ in seq[:2])):
            # the second direct attempt may be skipped when both candidates are the SAME bucket (it has just been found full)
            from ..guards import fv as _fv
            fd_ = {repr(c_): t_ for c_, t_ in PathEnumerator.path_facts(p)}
            same_bucket = _fv(fd_, mk("Eq", i1p, i2p)) is True
            if not (same_bucket and ev_at[0] >= 1 and seq[0][0] == "try" and seq[0][1]["ret"] == "false"):
                probs.append("a slot is overwritten before both direct placements have failed")
    ctx.check(not probs and n_first >= 3, "R14-first-insert", ii.key, ii, "first action is write_to_bucket(i1, f); success returns Ok; eviction only after both direct attempts failed",
              "; ".join(sorted(set(probs))[:2]) or "fewer than three placement paths")

    # an evicted fingerprint must land in ITS alternate bucket, or it can no longer be found or deleted (C01's kick-loop rule)
    from .C01 import kick_loop
    kick_loop(ctx, ii)
    delete_rules(ctx, dele)
    helper_rules(ctx, wtb, hib, rfb, q_needed=True)


def delete_rules(ctx, dele):
    """delete removes exactly one copy from i1 or else i2 and decrements once (also C01's premise: an element inserted more often
    than deleted is still found)"""
    prog = ctx.prog
    # ---- R14-accounting: delete ----------------------------------------------------------
    pe = PathEnumerator(dele, prog, ctx.summ)
    problems = []
    cnt = {"true": 0, "false": 0}
    for p in pe.paths():
        if p.exit_kind != "return":
            continue
        nw = n_elem_writes(p)
        removed = [e for e in p.events if e["kind"] == "call" and e["name"] == "remove_from_bucket" and e["ret"] == "true"]
        ts = table_sets(p)
        if p.ret in cnt:
            cnt[p.ret] += 1
        if p.ret == "true":
            good = len(removed) == 1 and len(nw) == 1 and nw[0]["value"] == ("op", "Sub", (("field", ("param", 1, "self"), "n_elements"), const(1))) and len(ts) == 1
            if not good:
                problems.append("a `true` path has %d removal(s), %d n_elements update(s), %d slot write(s)" % (len(removed), len(nw), len(ts)))
        elif p.ret == "false":
            if nw or ts or removed:
                problems.append("a `false` path modifies the filter")
        else:
            problems.append("a path returns an untracked value")
    ctx.check(not problems and cnt["true"] >= 2 and cnt["false"] >= 1, "R14-accounting", dele.key, dele,
              "delete: %d true paths each clear one slot and decrement once; %d false paths write nothing" % (cnt["true"], cnt["false"]),
              "delete accounting broken: %s" % "; ".join(sorted(set(problems))[:3]))
    # delete tries i1 then i2 from start()
    tb = TermBuilder(dele, prog)
    buckets = []
    for bi, t in dele.calls():
        if t.callee_name() == "remove_from_bucket":
            a = [tb.operand(x, bi, len(dele.blocks[bi].stmts)) for x in t.args]
            buckets.append((a[1], a[2]))
    start_t = ("call", CF + "::start", (("param", 1, "self"), ("param", 2, dele.local_name(2))))
    exp = [(("tfield", start_t, 1), ("tfield", start_t, 0)), (("tfield", start_t, 2), ("tfield", start_t, 0))]
    ctx.check(sorted(map(repr, buckets)) == sorted(map(repr, exp)), "R14-delete-buckets", dele.key, dele,
              "delete probes buckets i1 and i2 of start(t) with fingerprint f of start(t)",
              "delete does not probe exactly the two candidate buckets of start(t): %s" % [(fmt(a), fmt(b)) for a, b in buckets])



def helper_rules(ctx, wtb, hib, rfb, q_needed=True):
    prog = ctx.prog
    # ---- helpers: at most one slot touched, immediate return ---------------------------------
    for h, kind in ((wtb, "write"), (rfb, "remove")):
        pe = PathEnumerator(h, prog, ctx.summ, max_back=2)
        probs = []
        n = 0
        for p in pe.paths():
            if p.exit_kind != "return":
                continue
            n += 1
            ts = table_sets(p)
            if p.ret == "true":
                if len(ts) != 1:
                    probs.append("a `true` path performs %d slot writes" % len(ts))
                elif kind == "remove" and ts[0]["args"][2] != const(0):
                    probs.append("removal does not write the free marker 0")
                elif kind == "write" and ts[0]["args"][2][:2] != ("param", 3):
                    probs.append("placement does not write the fingerprint argument")
                # the set must be the last event before return (no further slot visited)
                if ts and p.events and [e for e in p.events if e["kind"] == "write"][-1] is not ts[-1]:
                    probs.append("writes continue after the slot update")
            elif p.ret == "false":
                if ts:
                    probs.append("a `false` path writes a slot")
        ctx.check(not probs and n >= 2, "R14-one-slot", h.key, h, "%d paths: writes exactly one slot iff it returns true" % n,
                  "%s: %s" % (h.name, "; ".join(sorted(set(probs))[:3])))

    # ---- R14-full-scan: a helper may give up (return false) only after the iterator over the bucket is exhausted ------
    for h in (wtb, hib, rfb):
        if any_form(ctx, h) is not None:
            ctx.ok("R14-full-scan", h.key, "iterator `any` over the whole slot range: false only after every slot was examined")
            continue
        ff = find_form(ctx, h)
        if ff is not None:
            # `find` gives None only after the whole range was examined: the helper may answer false only for None
            r = TermBuilder(h, prog).return_term()
            okf = r == ("call", "std::option::Option::is_some", (ff["call"],))
            if not okf:
                pe = PathEnumerator(h, prog, ctx.summ, max_back=1)
                fp = [p for p in pe.paths() if p.exit_kind == "return" and p.ret == "false"]
                disc = ("call", "discriminant", (ff["call"],))
                finder = ff["call"][1]
                okf = bool(fp) and all(any((e["kind"] == "branch" and e.get("cond") == disc and (e["value"] == 0 or (e["value"] == "otherwise" and tuple(e.get("arm_values", ())) == (1,))))
                                           or (e["kind"] == "call" and e["callee"] == finder and e["ret"] == "None") for e in p.events) for p in fp)
            ctx.check(okf, "R14-full-scan", h.key, h, "`find` over the whole slot range: false only when it found nothing",
                      "%s answers false although `find` returned a slot" % h.name)
            continue
        pe = PathEnumerator(h, prog, ctx.summ, max_back=1)
        heads = h.loop_heads()
        body = h.natural_loop(heads[0]) if len(heads) == 1 else set()
        probs = []
        nf = 0
        for p in pe.paths():
            if p.exit_kind != "return" or p.ret != "false":
                continue
            nf += 1
            loop_branches = [e for e in p.events if e["kind"] == "branch" and e["bb"] in body]
            last = loop_branches[-1] if loop_branches else None
            exhausted = last is not None and last.get("cond") is not None and last["cond"][0] == "call" and last["cond"][1] == "discriminant" and last["value"] == 0
            if not exhausted:
                probs.append("returns false after leaving the slot loop early (not every slot of the bucket was examined)")
        ctx.check(len(heads) == 1 and nf >= 1 and not probs, "R14-full-scan", h.key, h, "`false` only after all bucketsize slots were examined (%d such paths)" % nf,
                  "; ".join(sorted(set(probs))) or "helper has %d loops / no false-returning path" % len(heads))

    # ---- R14-siblings: slot range and tested/written slot -------------------------------------
    shapes = {}
    for h in (wtb, hib, rfb):
        af = any_form(ctx, h)
        if af is not None:
            rng_a, body_a = af
            get_a = [x for x in body_a[2] if x[0] == "call" and x[1].endswith("::get")] if body_a[0] == "op" else []
            slots_a = {("get", repr(get_a[0][2][1]), self_field_term(get_a[0][2][0]))} if get_a else set()
            shapes[h.key] = (rng_a, slots_a, {repr(body_a)})
            continue
        ff = find_form(ctx, h)
        if ff is not None:
            tbh = TermBuilder(h, prog)
            get_f = [x for x in ff["body"][2] if x[0] == "call" and x[1].endswith("::get")] if ff["body"][0] == "op" else []
            slots_f = {("get", repr(get_f[0][2][1]), self_field_term(get_f[0][2][0]))} if get_f else set()
            # a slot written by the helper must be the slot that `find` returned
            for bi, t in h.calls():
                if t.callee_name() == "set":
                    a = [tbh.operand(x, bi, len(h.blocks[bi].stmts)) for x in t.args]
                    pos = a[1][2] if a[1][0] == "cast" else a[1]
                    slots_f.add(("set", repr(("elem", ("dummy",))) if pos == ff["slot"] else repr(pos), self_field_term(a[0])))
            shapes[h.key] = (ff["rng"], slots_f, {repr(ff["body"])})
            continue
        tb = TermBuilder(h, prog)
        rng = None
        for bi, t in h.calls():
            if t.callee_name() == "into_iter":
                rng = tb.operand(t.args[0], bi, len(h.blocks[bi].stmts))
        slots = set()
        cmp_against = set()
        cmp_fmt = []
        for bi, t in h.calls():
            if t.callee_name() in ("get", "set"):
                a = [tb.operand(x, bi, len(h.blocks[bi].stmts)) for x in t.args]
                slots.add((t.callee_name(), repr(a[1]), self_field_term(a[0])))
        # comparison operand of the guard
        for bi, blk in enumerate(h.blocks):
            if blk.cleanup:
                continue
            for si, st in enumerate(blk.stmts):
                if st.k == "assign" and st.rv.k == "binop" and st.rv.j["op"] == "Eq":
                    t_ = tb.rvalue(st.rv, bi, si)
                    cmp_against.add(repr(t_))
                    cmp_fmt.append(fmt(t_))
        shapes[h.key] = (rng, slots, cmp_against)
    i_p = ("param", 2, "i")
    bsz = ("field", ("param", 1, "self"), "bucketsize")
    off = mk("Mul", i_p, bsz)
    exp_rng = ("adt", "std::ops::Range", "Range", (("start", off), ("end", mk("Add", off, bsz))))
    n_sib = 0
    for h in (wtb, hib, rfb):
        rng, slots, cmps = shapes[h.key]
        n_sib += 1
        elem = ("elem", exp_rng)
        good_rng = rng == exp_rng
        good_slots = all(s[1] == repr(elem) and s[2] == "table" for s in slots) and any(s[0] == "get" for s in slots)
        get_t = ("call", "<succinct::IntVector as succinct::IntVec>::get", (("field", ("param", 1, "self"), "table"), elem))
        want_cmp = const(0) if h is wtb else ("param", 3, "f")
        good_cmp = any(c == repr(mk("Eq", get_t, want_cmp)) for c in cmps)
        if any_form(ctx, h) is not None or find_form(ctx, h) is not None:
            # in the iterator form the closure's element is elem(dummy) of the range it is applied to
            dummy = ("elem", ("dummy",))
            get_d = ("call", "<succinct::IntVector as succinct::IntVec>::get", (("field", ("param", 1, "self"), "table"), dummy))
            good_slots = all(s_[1] == repr(dummy) and s_[2] == "table" for s_ in slots) and bool(slots)
            good_cmp = any(c == repr(mk("Eq", get_d, want_cmp)) for c in cmps)
        ctx.check(good_rng and good_slots and good_cmp, "R14-siblings", h.key, h,
                  "scans slots i*bucketsize .. i*bucketsize+bucketsize of self.table, tests slot == %s" % fmt(want_cmp),
                  "bucket helper deviates from the common slot-scan shape (range ok=%s, slots ok=%s, guard ok=%s): range is %s" % (good_rng, good_slots, good_cmp, fmt(rng) if rng else None))
    ctx.floor("R14-siblings", n_sib, 3, "bucket helpers")

    # ---- query: tests both buckets; len/is_empty read n_elements --------------------------------
    q = ctx.anchor("<filters::cuckoofilter::CuckooFilter as filters::Filter[T]>::query")
    if q is not None:
        tb = TermBuilder(q, prog)
        probes = []
        for bi, t in q.calls():
            if t.callee_name() == "has_in_bucket":
                a = [tb.operand(x, bi, len(q.blocks[bi].stmts)) for x in t.args]
                probes.append((a[1], a[2]))
        st = ("call", CF + "::start", (("param", 1, "self"), ("param", 2, q.local_name(2))))
        exp = [(("tfield", st, 1), ("tfield", st, 0)), (("tfield", st, 2), ("tfield", st, 0))]
        pe = PathEnumerator(q, prog, ctx.summ)
        sem = True
        for p in pe.paths():
            if p.exit_kind != "return":
                continue
            hits = [e for e in p.events if e["kind"] == "call" and e["name"] == "has_in_bucket" and e["ret"] == "true"]
            hits += [c for c, tr in pe.path_facts(p) if tr and c[0] == "call" and c[1].endswith("::has_in_bucket")]
            if (p.ret == "true") != bool(hits):
                sem = False
        ctx.check(sorted(map(repr, probes)) == sorted(map(repr, exp)) and sem, "R14-query", q.key, q,
                  "query is true iff has_in_bucket(i1,f) or has_in_bucket(i2,f) of start(obj)",
                  "query does not test exactly the two candidate buckets: %s" % [(fmt(a), fmt(b)) for a, b in probes])
    # a failed insert/union must leave the multiset untouched (C12's restore rules on the cuckoo filter)
    from .C12 import run_restore_rules
    run_restore_rules(ctx, only_adt=CF, floor=2)
    for nm in ("len", "is_empty"):
        f = ctx.anchor("<filters::cuckoofilter::CuckooFilter as filters::Filter[T]>::%s" % nm)
        if f is None:
            continue
        tb = TermBuilder(f, prog)
        r = tb.return_term()
        ne = ("field", ("param", 1, "self"), "n_elements")
        exp = ne if nm == "len" else mk("Eq", const(0), ne)
        ctx.check(r == exp, "R14-len", f.key, f, "%s reads n_elements only (%s)" % (nm, fmt(r)), "%s is %s, expected %s" % (nm, fmt(r), fmt(exp)))
