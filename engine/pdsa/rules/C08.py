"""C08 — CountMinSketch built from (epsilon, delta) has the Cormode–Muthukrishnan dimensions."""
from ..terms import TermBuilder, fmt, mk, const, subterms
from ..guards import atomic_facts
from ..intervals import ieval, float_facts_to_env, cancel_products
import math

EXPLANATION = (
    "R08-formula: in with_point_query_properties_and_hasher the columns argument of with_params_and_hasher normalises to "
    "ceil(e/epsilon) as usize and the rows argument to ceil(ln(1/delta)) as usize (equivalently ceil(-ln delta)). R08-dependency: "
    "columns depend on epsilon and not on delta, rows on delta and not on epsilon (taint), and by R02-stride columns is the m of "
    "the hash iterator and rows its k. R08-lower-bounds: under the function's asserts (epsilon > 0, 0 < delta < 1) both are >= 1."
    " R08-double-hashing (as R07). The sketch's clear() is checked with C19's rules incl. `clear must not change w, d or the hasher`."
)
from .common import NEW_WRITERS_NOTE as _NWN
EXPLANATION = EXPLANATION + _NWN % "08"
NOT_DECIDED = "whether enhanced double hashing makes the d rows independent enough to deliver delta — an empirical property of the hash family"
ASSUMPTIONS = ["real-number semantics for f64"]

CMS = "countminsketch::CountMinSketch"


def run(ctx):
    from .common import check_new_writers
    check_new_writers(ctx, "R08-new-writers", ['countminsketch::CountMinSketch'])
    prog = ctx.prog
    f = ctx.anchor(CMS + "::with_point_query_properties_and_hasher")
    ctor = ctx.anchor(CMS + "::with_params_and_hasher")
    if f is None or ctor is None:
        return
    tb = TermBuilder(f, prog)
    site = [(bi, t) for bi, t in f.calls() if t.callee() == ctor.key]
    if len(site) != 1:
        ctx.shape("R08-formula", f.key, f, "expected exactly one call of with_params_and_hasher, found %d" % len(site))
        return
    bi, t = site[0]
    a = [cancel_products(tb.operand(x, bi, len(f.blocks[bi].stmts))) for x in t.args]
    eps, delta = ("param", 1, "epsilon"), ("param", 2, "delta")
    cols, rows = a[0], a[1]
    E = const(math.e)
    want_cols = ("cast", "usize", mk("ceil", mk("Div", E, eps)))
    want_rows = [("cast", "usize", mk("ceil", mk("ln", mk("Div", const(1.0), delta)))),
                 ("cast", "usize", mk("ceil", mk("Neg", mk("ln", delta))))]
    ctx.check(cols == want_cols, "R08-formula", f.key + ":w", t.span, "columns = ceil(e / epsilon)", "columns are computed as %s, documented: ceil(e/epsilon)" % fmt(cols))
    ctx.check(rows in want_rows, "R08-formula", f.key + ":d", t.span, "rows = ceil(ln(1/delta))", "rows are computed as %s, documented: ceil(ln(1/delta))" % fmt(rows))

    def params(t_):
        return {s[1] for s in subterms(t_) if s[0] == "param"}
    ctx.check(params(cols) == {1}, "R08-dependency", f.key + ":w", t.span, "columns depend on epsilon only", "columns depend on parameters %s (expected epsilon only)" % sorted(params(cols)))
    ctx.check(params(rows) == {2}, "R08-dependency", f.key + ":d", t.span, "rows depend on delta only", "rows depend on parameters %s (expected delta only)" % sorted(params(rows)))
    # wiring into the constructor: arg0 is `w`, arg1 is `d`
    ctx.check(ctor.local_name(1) == "w" and ctor.local_name(2) == "d", "R08-dependency", ctor.key + ":params", ctor, "constructor parameters are (w, d, hasher)", "constructor parameter order changed")
    from .common import double_hashing_rules
    double_hashing_rules(ctx, "R08-double-hashing")
    # the (epsilon, delta) dimensions must survive clear(): C19's clear rules on the sketch
    from .C19 import run_clear_rules
    run_clear_rules(ctx, only_adt=CMS, floor=1)
    env = float_facts_to_env(atomic_facts(f, prog, bi, tb))
    for name, term in (("w", cols), ("d", rows)):
        iv = ieval(term, env)
        ctx.check(iv.ge(1), "R08-lower-bounds", "%s:%s" % (f.key, name), t.span, "%s in %r" % (name, iv), "%s can be 0 (%r) for admissible (epsilon, delta)" % (name, iv))
