"""C13 — QuotientFilter: result codes and counter accounting of insert (the slot bookkeeping itself is not decided)."""
from ..paths import PathEnumerator
from ..terms import TermBuilder, fmt, mk, const
from .common import SELF, self_field

EXPLANATION = (
    "R13-contract: the returning paths of QuotientFilter::insert_internal partition by the facts on the path: scan(..).present => "
    "Ok(false) and no write; not present and n_elements == is_occupied.len() => Err and no write; otherwise exactly one "
    "`n_elements += 1`, is_occupied.set(quotient,true), remainders.set(position, remainder) and Ok(true). len/is_empty read "
    "n_elements only; query is scan(q, r, false).present with (q, r) from the same calc_quotient_remainder(obj) that insert uses."
)
NOT_DECIDED = ("the heart of C13: that scan() finds the run of a quotient and that the swap chain keeps is_occupied/is_continuation/"
               "is_shifted consistent for every layout including wrap-around — an inductive invariant over four parallel arrays, "
               "outside what path/shape rules can decide")
ASSUMPTIONS = ["FixedBitSet::set / IntVecMut::set write exactly the addressed slot"]

QF = "filters::quotientfilter::QuotientFilter"


def run(ctx):
    prog = ctx.prog
    ii = ctx.anchor(QF + "::insert_internal")
    if ii is None:
        return
    pe = PathEnumerator(ii, prog, ctx.summ)
    selfp = ("param", 1, "self")
    scan_t = ("call", QF + "::scan", (selfp, ("param", 2, "quotient"), ("param", 3, "remainder"), const(True)))
    present = ("field", scan_t, "present")
    full = mk("Eq", ("call", "fixedbitset::FixedBitSet::len", (("field", selfp, "is_occupied"),)), ("field", selfp, "n_elements"))
    classes = {"present": [], "full": [], "insert": [], "other": []}
    for p in pe.paths():
        if p.exit_kind != "return":
            continue
        facts = dict((repr(c), t) for c, t in pe.path_facts(p))
        pr = facts.get(repr(present))
        fu = facts.get(repr(full))
        if pr is True:
            classes["present"].append(p)
        elif pr is False and fu is True:
            classes["full"].append(p)
        elif pr is False and fu is False:
            classes["insert"].append(p)
        else:
            classes["other"].append(p)
    ctx.check(not classes["other"] and all(classes[k] for k in ("present", "full", "insert")), "R13-contract", ii.key + ":partition", ii,
              "paths partition into present (%d) / full (%d) / insert (%d) by scan(..).present and n_elements == is_occupied.len()" % (len(classes["present"]), len(classes["full"]), len(classes["insert"])),
              "insert_internal's paths are not partitioned by `scan(q,r,true).present` and `n_elements == is_occupied.len()` (%d unclassified; present=%d full=%d insert=%d)" % (len(classes["other"]), len(classes["present"]), len(classes["full"]), len(classes["insert"])))

    def selfwrites(p):
        return [e for e in p.events if e["kind"] == "write" and e["root"] == SELF and e["how"] != "borrow"]

    bad = [p for p in classes["present"] if not (p.ret == "Ok" and p.ret_payload == ("const", False) and not selfwrites(p))]
    ctx.check(not bad, "R13-contract", ii.key + ":present", ii, "known class: Ok(false), no write", "a path with scan(..).present returns %s or writes state" % (bad[0].ret if bad else ""))
    bad = [p for p in classes["full"] if not (p.ret == "Err" and not selfwrites(p))]
    ctx.check(not bad, "R13-contract", ii.key + ":full", ii, "new class at capacity: Err, no write", "the capacity path returns %s or writes state before failing" % (bad[0].ret if bad else ""))
    probs = []
    for p in classes["insert"]:
        ws = selfwrites(p)
        ne = [e for e in ws if self_field(e) == "n_elements"]
        occ = [e for e in ws if self_field(e) == "is_occupied" and e.get("name") == "set"]
        rem = [e for e in ws if self_field(e) == "remainders" and e.get("name") == "set"]
        if not (p.ret == "Ok" and p.ret_payload == ("const", True)):
            probs.append("returns %s(%s)" % (p.ret, p.ret_payload))
        if not (len(ne) == 1 and ne[0]["value"] == mk("Add", ("field", selfp, "n_elements"), const(1))):
            probs.append("%d n_elements updates" % len(ne))
        if not any(e["args"][1][:2] == ("param", 2) and e["args"][2] == const(True) for e in occ):
            probs.append("is_occupied[quotient] not set")
        if not (rem and rem[0]["args"][1] == ("field", scan_t, "position") and rem[0]["args"][2][:2] == ("param", 3)):
            probs.append("remainder not stored at scan position")
        if ws and ws[0] is not rem[0] if rem else True:
            probs.append("first write is not remainders.set(position, remainder)")
    ctx.check(not probs, "R13-contract", ii.key + ":insert", ii,
              "all %d inserting paths: remainders.set(position, remainder), is_occupied.set(quotient, true), one n_elements += 1, Ok(true)" % len(classes["insert"]),
              "inserting path breaks the contract: %s" % "; ".join(sorted(set(probs))[:3]))

    # wrappers
    ins = ctx.anchor("<%s as filters::Filter[T]>::insert" % QF)
    qry = ctx.anchor("<%s as filters::Filter[T]>::query" % QF)
    if ins is not None and qry is not None:
        tb = TermBuilder(ins, prog)
        r = tb.return_term()
        cq = ("call", QF + "::calc_quotient_remainder", (selfp, ("param", 2, ins.local_name(2))))
        exp = ("call", QF + "::insert_internal", (selfp, ("tfield", cq, 0), ("tfield", cq, 1)))
        ctx.check(r == exp, "R13-wrappers", ins.key, ins, "insert == insert_internal(calc_quotient_remainder(obj))", "insert is %s" % fmt(r))
        tb = TermBuilder(qry, prog)
        r = tb.return_term()
        cq = ("call", QF + "::calc_quotient_remainder", (selfp, ("param", 2, qry.local_name(2))))
        exp = ("field", ("call", QF + "::scan", (selfp, ("tfield", cq, 0), ("tfield", cq, 1), const(False))), "present")
        ctx.check(r == exp, "R13-wrappers", qry.key, qry, "query == scan(calc_quotient_remainder(obj), false).present", "query is %s" % fmt(r))
    for nm in ("len", "is_empty"):
        f = ctx.anchor("<%s as filters::Filter[T]>::%s" % (QF, nm))
        if f is None:
            continue
        r = TermBuilder(f, prog).return_term()
        ne = ("field", selfp, "n_elements")
        exp = ne if nm == "len" else mk("Eq", const(0), ne)
        ctx.check(r == exp, "R13-len", f.key, f, "%s reads n_elements only" % nm, "%s is %s" % (nm, fmt(r)))
    # scan is read-only
    sc = ctx.anchor(QF + "::scan")
    if sc is not None:
        alts = ctx.summ.alternatives(sc.key) or []
        ws = [w for (wevs, _, _) in alts for w in wevs if w["root"] == SELF]
        ctx.check(not ws and sc.local_ty(1).startswith("&") and not sc.local_ty(1).startswith("&mut"), "R13-scan-readonly", sc.key, sc,
                  "scan takes &self and writes nothing", "scan writes filter state")
