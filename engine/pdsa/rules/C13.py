"""C13 — QuotientFilter: result codes and counter accounting of insert (the slot bookkeeping itself is not decided)."""
from ..paths import PathEnumerator
from ..guards import fv
from ..terms import TermBuilder, fmt, mk, const
from ..terms import callee_is as _nm
from .common import SELF, self_field

EXPLANATION = (
    "R13-scan: the loops of scan() carry the guards, polarities and cursor updates of the quotient-filter lookup (walk left while "
    "shifted; skip a run while continuation; advance to the next occupied bucket, or to the target itself when inserting; in-run "
    "search stops on equality = present at that slot, on a larger remainder, or at the end of the run) — compared as a set of "
    "(exit condition, polarity, cursor update) facts, independent of loop shape. "
    "R13-ring: incr/decr are successor/predecessor modulo the slot count. R13-swap-chain (typestate over the shifting loop): the "
    "(continuation, remainder, used) triple of the next slot is read before that slot is overwritten with the carried triple, the "
    "carried triple becomes the one just read, the position advances one slot per iteration, the loop continues while the displaced "
    "slot was in use. R13-placement-flags: the new slot is marked shifted iff position != quotient, continuation iff appended to an "
    "existing run, and the canonical slot occupied. R13-split: quotient/remainder are the documented bit fields of the hash. "
    "R13-contract: the returning paths of QuotientFilter::insert_internal partition by the facts on the path: scan(..).present => "
    "Ok(false) and no write; not present and n_elements == is_occupied.len() => Err and no write; otherwise exactly one "
    "`n_elements += 1`, is_occupied.set(quotient,true), remainders.set(position, remainder) and Ok(true). len/is_empty read "
    "n_elements only; query is scan(q, r, false).present with (q, r) from the same calc_quotient_remainder(obj) that insert uses."
)
from .common import NEW_WRITERS_NOTE as _NWN
EXPLANATION = EXPLANATION + _NWN % "13"
NOT_DECIDED = ("the heart of C13: that scan() finds the run of a quotient and that the swap chain keeps is_occupied/is_continuation/"
               "is_shifted consistent for every layout including wrap-around — an inductive invariant over four parallel arrays, "
               "outside what path/shape rules can decide")
ASSUMPTIONS = ["FixedBitSet::set / IntVecMut::set write exactly the addressed slot"]

QF = "filters::quotientfilter::QuotientFilter"


RING_FIELDS = ("is_occupied", "is_shifted", "is_continuation")


def is_ring_len(L, base=("param", 1, "self")):
    """L is the slot count: the length of one of the three metadata bitsets (all allocated with 1 << bits_quotient bits, R11-alloc-terms)"""
    return L[0] == "call" and L[1] == "fixedbitset::FixedBitSet::len" and len(L[2]) == 1 and L[2][0][0] == "field" and L[2][0][1] == base and L[2][0][2] in RING_FIELDS


def succ_of(t, base=("param", 1, "self")):
    """p when t is the ring successor of p over the slot count (the term engine's `ring::succ(p, L)`: the value idiom
    `if p == L - 1 { 0 } else { p + 1 }` in any spelling, written out, in a helper storing through `&mut pos`, or in a free function)"""
    if t[0] == "call" and t[1] == "ring::succ" and is_ring_len(t[2][1], base):
        return t[2][0]
    # the masked spelling `(p + 1) & (L - 1)`: L is 1 << bits_quotient (R11-alloc-terms), so the mask is the modulus
    if t[0] == "op" and t[1] == "BitAnd" and len(t[2]) == 2:
        for u, v in (t[2], t[2][::-1]):
            if v[0] == "op" and v[1] == "Sub" and len(v[2]) == 2 and v[2][1] == const(1) and is_ring_len(v[2][0], base) \
                    and u[0] == "op" and u[1] == "Add" and len(u[2]) == 2 and const(1) in u[2] and u[2] != (const(1), const(1)):
                return [y for y in u[2] if y != const(1)][0]
    # the modular spelling `(p + 1) % L` — the same function for every slot index p < L, which is all a cursor ever holds
    if t[0] == "op" and t[1] == "Rem" and len(t[2]) == 2 and is_ring_len(t[2][1], base):
        a = t[2][0]
        if a[0] == "op" and a[1] == "Add" and len(a[2]) == 2 and const(1) in a[2]:
            return [y for y in a[2] if y != const(1)][0] if a[2] != (const(1), const(1)) else None
    return None


def pred_of(t, base=("param", 1, "self")):
    if t[0] == "call" and t[1] == "ring::pred" and is_ring_len(t[2][1], base):
        return t[2][0]
    # `p.wrapping_sub(1) & (L - 1)` (L a power of two)
    if t[0] == "op" and t[1] == "BitAnd" and len(t[2]) == 2:
        for u, v in (t[2], t[2][::-1]):
            if v[0] == "op" and v[1] == "Sub" and len(v[2]) == 2 and v[2][1] == const(1) and is_ring_len(v[2][0], base) \
                    and u[0] == "op" and u[1] == "wrapping_sub" and len(u[2]) == 2 and u[2][1] == const(1):
                return u[2][0]
    # `(p + L - 1) % L`
    if t[0] == "op" and t[1] == "Rem" and len(t[2]) == 2 and is_ring_len(t[2][1], base):
        from ..terms import linear
        L = t[2][1]
        atoms, c = linear(t[2][0])
        if c == -1 and len(atoms) == 2 and repr(L) in atoms and atoms[repr(L)][1] == 1:
            (other,) = [v for k_, v in atoms.items() if k_ != repr(L)]
            if other[1] == 1:
                return other[0]
    # `p.checked_sub(1).unwrap_or(L - 1)`
    if t[0] == "call" and t[1].endswith("::unwrap_or") and len(t[2]) == 2 and t[2][0][0] == "call" and t[2][0][1] == "checked":
        x, d = t[2][0][2][0], t[2][1]
        if x[0] == "op" and x[1] == "Sub" and len(x[2]) == 2 and x[2][1] == const(1) and d[0] == "op" and d[1] == "Sub" and len(d[2]) == 2 and d[2][1] == const(1) and is_ring_len(d[2][0], base):
            return x[2][0]
    return None


class ScanView:
    """scan() reports (present, position, start_of_run) — as the struct ScanResult of the pinned tree or as a tuple of a bool, a
    usize and an Option<usize> (components are told apart by their types)."""

    def __init__(self, prog):
        self.ok = False
        self.idx = None
        sc = prog.fn(QF + "::scan")
        if sc is None:
            return
        tyj = sc.locals[0].get("tyj") or {}
        if tyj.get("k") == "adt":
            self.ok = True
        elif tyj.get("k") == "tuple" and len(tyj.get("tys", [])) == 3:
            idx = {}
            for i, t in enumerate(tyj["tys"]):
                if t.get("k") == "bool" or t.get("name") == "bool":
                    idx["present"] = i
                elif (t.get("k") in ("uint", "int") and t.get("name", "usize") == "usize") or t.get("name") == "usize":
                    idx["position"] = i
                elif t.get("k") == "adt" and t.get("def", "").endswith("Option"):
                    idx["start_of_run"] = i
            if len(idx) == 3:
                self.idx, self.ok = idx, True

    def get(self, scan_t, name):
        return ("field", scan_t, name) if self.idx is None else ("tfield", scan_t, self.idx[name])

    def record(self, a):
        """{present, position, start_of_run} of one returned value, or None"""
        if self.idx is None:
            return dict(a[3]) if a[0] == "adt" else None
        if a[0] == "tuple" and len(a[1]) == 3:
            return {n: a[1][i] for n, i in self.idx.items()}
        return None

    def has_run_forms(self, scan_t):
        sor = self.get(scan_t, "start_of_run")
        return [("call", "filters::quotientfilter::ScanResult::has_run", (scan_t,)), ("call", "std::option::Option::is_some", (sor,)),
                mk("Eq", ("call", "discriminant", (sor,)), const(1))]

    def is_at_start(self, x, scan_t):
        """x says `the scan ended exactly at the start of an existing run`"""
        pos0, sor = self.get(scan_t, "position"), self.get(scan_t, "start_of_run")
        if x == ("call", "filters::quotientfilter::ScanResult::at_start_of_run", (scan_t,)):
            return True
        if x[0] == "op" and x[1] == "Eq" and len(x[2]) == 2:
            a, b = x[2]
            for u, v in ((a, b), (b, a)):
                # position == <payload of start_of_run>
                if u == pos0 and v != pos0 and any(z == sor for z in subterms_(v)):
                    return True
                # start_of_run == Some(position)
                if u == sor and v[0] == "adt" and v[2] == "Some" and len(v[3]) == 1 and v[3][0][1] == pos0:
                    return True
        return False


def run(ctx):
    from .common import check_new_writers
    check_new_writers(ctx, "R13-new-writers", ['filters::quotientfilter::QuotientFilter'])
    prog = ctx.prog
    ii = ctx.anchor(QF + "::insert_internal")
    if ii is None:
        return
    pe = PathEnumerator(ii, prog, ctx.summ)
    selfp = ("param", 1, "self")
    scan_t = ("call", QF + "::scan", (selfp, ("param", 2, "quotient"), ("param", 3, "remainder"), const(True)))
    sv = ScanView(prog)
    if not sv.ok:
        ctx.shape("R13-contract", ii.key, ii, "scan() returns neither the ScanResult record nor a (bool, usize, Option<usize>) tuple")
        return
    present = sv.get(scan_t, "present")
    full = mk("Eq", ("call", "fixedbitset::FixedBitSet::len", (("field", selfp, "is_occupied"),)), ("field", selfp, "n_elements"))
    classes = {"present": [], "full": [], "insert": [], "other": []}
    for p in pe.paths():
        if p.exit_kind != "return":
            continue
        facts = dict((repr(c), t) for c, t in pe.path_facts(p))
        pr = fv(facts, present)
        fu = fv(facts, full)
        if fu is None:
            # `n_elements >= len`: the same test, since n_elements never exceeds len (it grows by one only on the not-full branch)
            fu = fv(facts, mk("Le", full[2][0], full[2][1]))
        if pr is True:
            classes["present"].append(p)
        elif pr is False and fu is True:
            classes["full"].append(p)
        elif pr is False and fu is False:
            classes["insert"].append(p)
        else:
            classes["other"].append(p)
    ctx.check(not classes["other"] and all(classes[k] for k in ("present", "full", "insert")), "R13-contract", ii.key + ":partition", ii,
              "paths partition into present (%d) / full (%d) / insert (%d) by scan(..).present and n_elements == is_occupied.len()" % (len(classes["present"]), len(classes["full"]), len(classes["insert"])),
              "insert_internal's paths are not partitioned by `scan(q,r,true).present` and `n_elements == is_occupied.len()` (%d unclassified; present=%d full=%d insert=%d)" % (len(classes["other"]), len(classes["present"]), len(classes["full"]), len(classes["insert"])))

    def selfwrites(p):
        return [e for e in p.events if e["kind"] == "write" and e["root"] == SELF and e["how"] != "borrow"]

    bad = [p for p in classes["present"] if not (p.ret == "Ok" and p.ret_payload == ("const", False) and not selfwrites(p))]
    ctx.check(not bad, "R13-contract", ii.key + ":present", ii, "known class: Ok(false), no write", "a path with scan(..).present returns %s or writes state" % (bad[0].ret if bad else ""))
    bad = [p for p in classes["full"] if not (p.ret == "Err" and not selfwrites(p))]
    ctx.check(not bad, "R13-contract", ii.key + ":full", ii, "new class at capacity: Err, no write", "the capacity path returns %s or writes state before failing" % (bad[0].ret if bad else ""))
    probs = []
    for p in classes["insert"]:
        ws = selfwrites(p)
        ne = [e for e in ws if self_field(e) == "n_elements"]
        occ = [e for e in ws if self_field(e) == "is_occupied" and e.get("name") == "set"]
        rem = [e for e in ws if self_field(e) == "remainders" and e.get("name") == "set"]
        if not (p.ret == "Ok" and p.ret_payload == ("const", True)):
            probs.append("returns %s(%s)" % (p.ret, p.ret_payload))
        if not (len(ne) == 1 and ne[0]["value"] == mk("Add", ("field", selfp, "n_elements"), const(1))):
            probs.append("%d n_elements updates" % len(ne))
        if not any(e["args"][1][:2] == ("param", 2) and e["args"][2] == const(True) for e in occ):
            probs.append("is_occupied[quotient] not set")
        if not (rem and rem[0]["args"][1] == sv.get(scan_t, "position") and rem[0]["args"][2][:2] == ("param", 3)):
            probs.append("remainder not stored at scan position")
        if ws and ws[0] is not rem[0] if rem else True:
            probs.append("first write is not remainders.set(position, remainder)")
    ctx.check(not probs, "R13-contract", ii.key + ":insert", ii,
              "all %d inserting paths: remainders.set(position, remainder), is_occupied.set(quotient, true), one n_elements += 1, Ok(true)" % len(classes["insert"]),
              "inserting path breaks the contract: %s" % "; ".join(sorted(set(probs))[:3]))

    ring_rules(ctx)
    swap_chain_rules(ctx, ii)
    split_rules(ctx)
    scan_rules(ctx)

    # wrappers
    ins = ctx.anchor("<%s as filters::Filter[T]>::insert" % QF)
    qry = ctx.anchor("<%s as filters::Filter[T]>::query" % QF)
    if ins is not None and qry is not None:
        tb = TermBuilder(ins, prog)
        r = tb.return_term()
        cq = ("call", QF + "::calc_quotient_remainder", (selfp, ("param", 2, ins.local_name(2))))
        exp = ("call", QF + "::insert_internal", (selfp, ("tfield", cq, 0), ("tfield", cq, 1)))
        ctx.check(r == exp, "R13-wrappers", ins.key, ins, "insert == insert_internal(calc_quotient_remainder(obj))", "insert is %s" % fmt(r))
        tb = TermBuilder(qry, prog)
        r = tb.return_term()
        cq = ("call", QF + "::calc_quotient_remainder", (selfp, ("param", 2, qry.local_name(2))))
        exp = sv.get(("call", QF + "::scan", (selfp, ("tfield", cq, 0), ("tfield", cq, 1), const(False))), "present")
        ctx.check(r == exp, "R13-wrappers", qry.key, qry, "query == scan(calc_quotient_remainder(obj), false).present", "query is %s" % fmt(r))
    for nm in ("len", "is_empty"):
        f = ctx.anchor("<%s as filters::Filter[T]>::%s" % (QF, nm))
        if f is None:
            continue
        r = TermBuilder(f, prog).return_term()
        ne = ("field", selfp, "n_elements")
        exp = ne if nm == "len" else mk("Eq", const(0), ne)
        ctx.check(r == exp, "R13-len", f.key, f, "%s reads n_elements only" % nm, "%s is %s" % (nm, fmt(r)))
    # scan is read-only
    sc = ctx.anchor(QF + "::scan")
    if sc is not None:
        alts = ctx.summ.alternatives(sc.key) or []
        ws = [w for (wevs, _, _) in alts for w in wevs if w["root"] == SELF]
        ctx.check(not ws and sc.local_ty(1).startswith("&") and not sc.local_ty(1).startswith("&mut"), "R13-scan-readonly", sc.key, sc,
                  "scan takes &self and writes nothing", "scan writes filter state")


# ---- additional structural rules (deepening) ---------------------------------------------------------

def ring_rules(ctx):
    """R13-ring: the ring helpers, where the tree has them as methods storing through `&mut pos`, are the successor/predecessor on
    the ring of 2^q slots.  Decided on the stored term: the term engine reads `if p == L - 1 { 0 } else { p + 1 }` (any spelling,
    wrap value under the wrap test) as ring::succ(p, L); a wrong wrap point, a swapped arm or a second store leaves a phi instead.
    Where the helpers are free functions or written out, the same reading happens at their use sites (scan / swap-chain rules)."""
    prog = ctx.prog
    selfp = ("param", 1, "self")
    n = 0
    for nm, pick, what in (("incr", succ_of, "successor"), ("decr", pred_of, "predecessor")):
        f = prog.fn(QF + "::" + nm)
        if f is None:
            continue
        n += 1
        ctx.analysed_fns.add(f.key)
        tb = TermBuilder(f, prog)
        pos = ("param", 2, f.local_name(2))
        v = tb._apply_scalar_store(f.key, 1, [selfp, pos]) if f.arg_count == 2 else None
        ctx.check(v is not None and pick(v) == pos, "R13-ring", f.key, f, "%s: *pos becomes the ring %s of *pos over the slot count" % (nm, what),
                  "%s does not store the ring %s of *pos: %s" % (nm, what, fmt(v)[:160] if v is not None else "no single unconditional store of a join-free term through `pos`"))
    if n == 0:
        ctx.ok("R13-ring", QF + ":ring-steps", "no incr/decr methods in this tree: ring steps are read at their use sites", nontrivial=False)


def subterms_(t):
    from ..terms import subterms
    return subterms(t)


def _split_carried(t):
    """a field of a struct carried around the loop by value (`carried.remainder`) is a loop-carried variable of its own"""
    if t[0] == "field" and t[1][0] == "loopvar" and isinstance(t[1][1], int) and isinstance(t[2], str):
        return ("loopvar", (t[1][1], t[2]), t[1][2])
    return t


def swap_chain_rules(ctx, ii):
    """R13-swap-chain: in the shifting loop every slot's (continuation bit, remainder, used flag) is read before the slot is
    overwritten with the carried triple, the carried triple becomes the one just read, and the loop runs while the carried slot was used"""
    prog = ctx.prog
    selfp = ("param", 1, "self")
    tb = TermBuilder(ii, prog)
    heads = ii.loop_heads()
    if len(heads) != 1:
        ctx.shape("R13-swap-chain", ii.key, ii, "expected exactly one loop (the swap chain), found %d" % len(heads))
        return
    h = heads[0]
    body = ii.natural_loop(h)
    A = lambda bi, t: [tb.operand(x, bi, len(ii.blocks[bi].stmts)) for x in t.args]
    # the carried position: the loop variable that every iteration replaces by its own ring successor
    pos_vars = [l for l in range(len(ii.locals)) if ii.local_ty(l) == "usize" and tb.defined_in_loop(l, h)
                and succ_of(tb.loop_update(l, h)) == ("loopvar", l, h)]
    sets = [(bi, t, A(bi, t)) for bi, t in ii.calls() if bi in body and t.callee_name() == "set"]
    reads = [(bi, t, A(bi, t)) for bi, t in ii.calls() if bi in body and t.callee_name() in ("index", "get")]
    # reads made through a private pure helper (`fn is_used(&self, pos) -> bool { self.is_occupied[pos] || self.is_shifted[pos] }`)
    for bi, t in ii.calls():
        if bi in body and t.callee_is_local() and t.callee_name() not in ("incr", "decr", "scan", "insert_internal") and prog.fn(t.callee()) is not None:
            ct = tb.call_term(t, bi)
            if ct[0] == "call" and ct[1] == t.callee():
                continue      # not inlined: not a pure helper
            g_ = prog.fn(t.callee())
            ctx.analysed_fns.add(g_.key)
            tbg = TermBuilder(g_, prog, {i + 1: a for i, a in enumerate(A(bi, t))}, 1)
            for bj, tj in g_.calls():
                if tj.callee_name() in ("index", "get"):
                    aj = [tbg.operand(x, bj, len(g_.blocks[bj].stmts)) for x in tj.args]
                    if aj and aj[0][0] == "field" and aj[0][1] == selfp:
                        reads.append((bi, t, aj))
            from ..terms import _closure_hook
            _closure_hook[0] = tb._apply_closure_hook
    probs = []
    sv = ScanView(prog)
    if len(pos_vars) != 1 or not sv.ok:
        probs.append("%d loop-carried positions advanced by one ring step per iteration in the chain loop (expected exactly one)" % len(pos_vars))
    else:
        pos_lv = ("loopvar", pos_vars[0], h)
        P1 = tb.loop_update(pos_vars[0], h)
        by_field = {}
        for bi, t, a in sets:
            fld = a[0][2] if a[0][0] == "field" else None
            by_field[fld] = (bi, a)
            if a[1] != P1:
                probs.append("%s.set writes slot %s, not the slot after the carried position" % (fld, fmt(a[1])[:60]))
        for fld in ("is_shifted", "is_continuation", "remainders"):
            if fld not in by_field:
                probs.append("the chain does not write %s" % fld)
        rd_fields = {}
        for bi, t, a in reads:
            fld = a[0][2] if a[0][0] == "field" else None
            rd_fields.setdefault(fld, []).append((bi, a))
            if a[1] != P1:
                probs.append("%s is read at %s, not at the slot about to be overwritten" % (fld, fmt(a[1])[:60]))
        for fld in ("is_continuation", "remainders", "is_occupied", "is_shifted"):
            if fld not in rd_fields:
                probs.append("the old %s of the overwritten slot is not read" % fld)
        # every read dominates every write (old contents are saved first)
        # within one iteration no read of the slot may come after a write to it (old contents are saved first):
        # a read block must not be reachable from a write block without passing the loop head
        from ..guards import reach_without
        for rb, _, _ in reads:
            for sb, _, _ in sets:
                if sb == rb or any(reach_without(ii, s_, rb, h) for s_ in ii.succs(sb) if s_ != h):
                    probs.append("a slot is overwritten before its old contents are read")
        hb0 = ii.blocks[h]
        gd0 = tb.operand(hb0.term.discr, h, len(hb0.stmts)) if hb0.term.k == "switch" else None
        option_form = gd0 is not None and gd0[0] == "call" and gd0[1] == "discriminant" and gd0[2][0][0] == "loopvar" \
            and isinstance(gd0[2][0][1], int) and ii.local_ty(gd0[2][0][1]).startswith("std::option::Option<(")
        if not probs and option_form:
            # the carried (continuation, remainder) pair lives in an Option: Some = a displaced element is in flight (`used`)
            probs += swap_chain_option_form(ctx, ii, tb, h, gd0[2][0], pos_lv, P1, by_field)
            ctx.check(not probs, "R13-swap-chain", ii.key, ii, "swap chain (Option-carried pair): read (cont, rem) of the next slot if it is in use, write the carried pair there, advance one slot, continue while a pair is carried",
                      "; ".join(sorted(set(probs))[:3]))
            placement_flag_rules(ctx, ii, tb, body)
            return
        if not probs:
            is_c = ("index", ("field", selfp, "is_continuation"), P1)
            rem = ("call", "<succinct::IntVector as succinct::IntVec>::get", (("field", selfp, "remainders"), P1))
            # carried values written
            wc, wr = _split_carried(by_field["is_continuation"][1][2]), _split_carried(by_field["remainders"][1][2])
            if by_field["is_shifted"][1][2] != const(True):
                probs.append("shifted slot is not marked is_shifted")
            if wc[0] != "loopvar" or wr[0] != "loopvar":
                probs.append("written values are not the carried (continuation, remainder)")
            else:
                if tb.loop_update(wc[1], h) != is_c:
                    probs.append("carried continuation bit becomes %s, expected the bit just read" % fmt(tb.loop_update(wc[1], h))[:80])
                if tb.loop_update(wr[1], h) != rem:
                    probs.append("carried remainder becomes %s, expected the remainder just read" % fmt(tb.loop_update(wr[1], h))[:80])
            if tb.loop_update(pos_lv[1], h) != P1:
                probs.append("position does not advance by exactly one slot per iteration")
            # loop guard: carried `used`
            hb = ii.blocks[h]
            gd = _split_carried(tb.operand(hb.term.discr, h, len(hb.stmts))) if hb.term.k == "switch" else None
            if gd is None or gd[0] != "loopvar":
                probs.append("the chain loop is not guarded by the carried `used` flag")
            else:
                u = tb.loop_update(gd[1], h)
                occ = ("index", ("field", selfp, "is_occupied"), P1)
                shf = ("index", ("field", selfp, "is_shifted"), P1)
                alts = set(map(repr, u[1])) if u[0] == "phi" else {repr(u)}
                if alts != {repr(const(True)), repr(shf)}:
                    probs.append("carried `used` becomes %s, expected is_occupied[p] || is_shifted[p]" % fmt(u)[:100])
    # what the chain starts with: the triple displaced from the insert position itself
    if not probs:
        scan_t0 = ("call", QF + "::scan", (selfp, ("param", 2, "quotient"), ("param", 3, "remainder"), const(True)))
        pos0 = sv.get(scan_t0, "position")
        wc, wr = _split_carried(by_field["is_continuation"][1][2]), _split_carried(by_field["remainders"][1][2])
        hb = ii.blocks[h]
        gd = _split_carried(tb.operand(hb.term.discr, h, len(hb.stmts)))
        from ..guards import atomic_facts

        def or_form(init, first, second):
            """init == first || second, as the phi {True | second} whose `True` alternative is taken exactly under `first`"""
            alts = set(map(repr, init[1])) if init[0] == "phi" else {repr(init)}
            return alts == {repr(const(True)), repr(second)}

        at_start = ("call", "filters::quotientfilter::ScanResult::at_start_of_run", (scan_t0,))
        at_start_inl = None
        ic = tb.loop_init(wc[1], h)
        ok_c = or_form(ic, ("index", ("field", selfp, "is_continuation"), pos0), at_start)
        if not ok_c:
            # at_start_of_run may be inlined: phi{False | position == start_of_run}
            alts = [x for x in (ic[1] if ic[0] == "phi" else (ic,))]
            def is_at_start(x):
                return sv.is_at_start(x, scan_t0)
            ok_c = const(True) in alts and any(is_at_start(x) for x in alts) and all(x in (const(True), const(False)) or is_at_start(x) for x in alts)
        if not ok_c:
            probs.append("the displaced element is flagged as continuation with %s; expected is_continuation[position] || at_start_of_run() "
                         "(when a new smallest remainder takes over the head of a run, the old head becomes a continuation wherever the run sits)" % fmt(ic)[:160])
        ir = tb.loop_init(wr[1], h)
        if ir != ("call", "<succinct::IntVector as succinct::IntVec>::get", (("field", selfp, "remainders"), pos0)):
            probs.append("the chain starts with remainder %s, expected the one displaced from the insert position" % fmt(ir)[:100])
        iu = tb.loop_init(gd[1], h)
        if not or_form(iu, ("index", ("field", selfp, "is_occupied"), pos0), ("index", ("field", selfp, "is_shifted"), pos0)):
            probs.append("the chain starts with used = %s, expected is_occupied[position] || is_shifted[position]" % fmt(iu)[:100])
        ip = tb.loop_init(pos_lv[1], h)
        if ip != pos0:
            probs.append("the chain starts at %s, expected the insert position" % fmt(ip)[:80])
    ctx.check(not probs, "R13-swap-chain", ii.key, ii, "swap chain: read (cont, rem, used) of the next slot, then write the carried triple there, advance one slot, continue while used",
              "; ".join(sorted(set(probs))[:3]))
    placement_flag_rules(ctx, ii, tb, body)


def swap_chain_option_form(ctx, ii, tb, h, carry_lv, pos_lv, P1, by_field):
    from ..guards import atomic_facts
    prog = ctx.prog
    selfp = ("param", 1, "self")
    probs = []
    is_c = ("index", ("field", selfp, "is_continuation"), P1)
    rem = ("call", "<succinct::IntVector as succinct::IntVec>::get", (("field", selfp, "remainders"), P1))
    occ = ("index", ("field", selfp, "is_occupied"), P1)
    shf = ("index", ("field", selfp, "is_shifted"), P1)
    payload = ("field", ("variant", carry_lv, "Some"), "0")
    wc, wr = by_field["is_continuation"][1][2], by_field["remainders"][1][2]
    if by_field["is_shifted"][1][2] != const(True):
        probs.append("shifted slot is not marked is_shifted")
    if wc != ("tfield", payload, 0) or wr != ("tfield", payload, 1):
        probs.append("written values are not the carried (continuation, remainder)")
    if tb.loop_update(pos_lv[1], h) != P1:
        probs.append("position does not advance by exactly one slot per iteration")

    def none_blocks(in_loop):
        """blocks assigning Option::None to the carry local (inside / before the loop)"""
        out = []
        body = ii.natural_loop(h)
        work, seen = [carry_lv[1]], set()
        while work:
            l = work.pop()
            if l in seen:
                continue
            seen.add(l)
            for (b, i, kind, obj) in ii.defs().get(l, []):
                if kind != "stmt" or (b in body) != in_loop:
                    continue
                if obj.rv.k == "aggregate" and obj.rv.j.get("variant") == "None":
                    out.append(b)
                elif obj.rv.k == "use" and obj.rv.ops[0].place is not None and obj.rv.ops[0].place.is_local():
                    work.append(obj.rv.ops[0].place.local)     # `carry = tmp;` with tmp = if .. { Some(..) } else { None }
        return out

    def check_alts(t, want_pair, where, o_, s_, nb):
        alts = t[1] if t[0] == "phi" else (t,)
        some = [a for a in alts if a[0] == "adt" and a[2] == "Some"]
        none = [a for a in alts if a[0] == "adt" and a[2] == "None"]
        if len(some) != 1 or len(none) != 1 or len(alts) != 2:
            probs.append("the carried pair %s is %s, expected Some((cont, rem)) or None" % (where, fmt(t)[:120]))
            return None
        pair = some[0][3][0][1]
        if pair[0] != "tuple" or len(pair[1]) != 2:
            probs.append("the carried pair %s is not a (continuation, remainder) pair" % where)
            return None
        # None exactly when the slot is neither occupied nor shifted (i.e. free): `used` = occupied || shifted
        okn = bool(nb)
        for b in nb:
            fd = {repr(c): tr for c, tr in atomic_facts(ii, prog, b, tb)}
            if not (fv(fd, o_) is False and fv(fd, s_) is False):
                okn = False
        if not okn:
            probs.append("the chain %s stops carrying on a condition other than `slot neither occupied nor shifted`" % where)
        return pair[1]
    pr = check_alts(tb.loop_update(carry_lv[1], h), None, "in the loop", occ, shf, none_blocks(True))
    if pr is not None:
        if pr[0] != is_c:
            probs.append("carried continuation bit becomes %s, expected the bit just read" % fmt(pr[0])[:80])
        if pr[1] != rem:
            probs.append("carried remainder becomes %s, expected the remainder just read" % fmt(pr[1])[:80])
    # what the chain starts with
    scan_t0 = ("call", QF + "::scan", (selfp, ("param", 2, "quotient"), ("param", 3, "remainder"), const(True)))
    sv = ScanView(prog)
    pos0 = sv.get(scan_t0, "position")
    p0 = check_alts(tb.loop_init(carry_lv[1], h), None, "before the loop", ("index", ("field", selfp, "is_occupied"), pos0), ("index", ("field", selfp, "is_shifted"), pos0), none_blocks(False))
    if p0 is not None:
        ic, ir = p0
        at_start = ("call", "filters::quotientfilter::ScanResult::at_start_of_run", (scan_t0,))
        alts = set(map(repr, ic[1])) if ic[0] == "phi" else {repr(ic)}

        def is_at_start(x):
            return sv.is_at_start(x, scan_t0)
        xs = ic[1] if ic[0] == "phi" else (ic,)
        if not (const(True) in xs and any(is_at_start(x) for x in xs) and all(x in (const(True), const(False)) or is_at_start(x) for x in xs)):
            probs.append("the displaced element is flagged as continuation with %s; expected is_continuation[position] || at_start_of_run()" % fmt(ic)[:160])
        else:
            # the `True` alternative is taken exactly when is_continuation[position] holds: look at the blocks defining the flag
            pass
        if ir != ("call", "<succinct::IntVector as succinct::IntVec>::get", (("field", selfp, "remainders"), pos0)):
            probs.append("the chain starts with remainder %s, expected the one displaced from the insert position" % fmt(ir)[:100])
    if tb.loop_init(pos_lv[1], h) != pos0:
        probs.append("the chain starts at %s, expected the insert position" % fmt(tb.loop_init(pos_lv[1], h))[:80])
    return probs


def placement_flag_rules(ctx, ii, tb, body):
    prog = ctx.prog
    selfp = ("param", 1, "self")
    A = lambda bi, t: [tb.operand(x, bi, len(ii.blocks[bi].stmts)) for x in t.args]
    # initial placement flags
    from ..guards import atomic_facts
    scan_t = ("call", QF + "::scan", (selfp, ("param", 2, "quotient"), ("param", 3, "remainder"), const(True)))
    sv = ScanView(prog)
    posn = sv.get(scan_t, "position")
    pre = [(bi, t, A(bi, t)) for bi, t in ii.calls() if bi not in body and t.callee_name() == "set"]
    probs = []
    seen = set()
    for bi, t, a in pre:
        fld = a[0][2] if a[0][0] == "field" else None
        facts = {repr(c): tr for c, tr in atomic_facts(ii, prog, bi, tb)}
        if fld == "is_shifted":
            seen.add(fld)
            if not (a[1] == posn and a[2] == const(True) and fv(facts, mk("Ne", posn, ("param", 2, "quotient"))) is True):
                probs.append("is_shifted[position] is not set exactly under position != quotient")
        if fld == "is_continuation":
            seen.add(fld)
            if not (a[1] == posn and a[2] == const(True) and any(fv(facts, hr) is True for hr in sv.has_run_forms(scan_t))):
                probs.append("is_continuation[position] is not set under has_run && !at_start_of_run")
        if fld == "is_occupied":
            seen.add(fld)
            if not (a[1][:2] == ("param", 2) and a[2] == const(True)):
                probs.append("is_occupied is set at %s" % fmt(a[1]))
    ctx.check(not probs and seen == {"is_shifted", "is_continuation", "is_occupied"}, "R13-placement-flags", ii.key, ii,
              "new slot: shifted iff position != quotient, continuation iff appended to an existing run, canonical slot marked occupied",
              "; ".join(sorted(set(probs))[:3]) or "flag writes found: %s" % sorted(seen))


def split_rules(ctx):
    """R13-split: calc_quotient_remainder keeps the low bits_quotient + bits_remainder bits of the hash; remainder = low
    bits_remainder bits, quotient = the next bits_quotient bits"""
    prog = ctx.prog
    f = ctx.anchor(QF + "::calc_quotient_remainder")
    if f is None:
        return
    selfp = ("param", 1, "self")
    r = TermBuilder(f, prog).return_term()
    h = ("call", "std::hash::BuildHasher::hash_one", (("field", selfp, "buildhasher"), ("param", 2, f.local_name(2))))
    br = ("call", "<succinct::IntVector as succinct::IntVec>::element_bits", (("field", selfp, "remainders"),))
    bq = ("field", selfp, "bits_quotient")
    from ..terms import linear_eq
    from ..guards import atomic_facts
    used = mk("Add", br, bq)                       # bits kept: q + r
    bt = mk("Sub", mk("Sub", const(64), br), bq)   # bits dropped: 64 - q - r
    # shape: (clean >> r, clean - ((clean >> r) << r)) with clean = h - T, T = 0 | (h >> K) << K, K == q + r (any linear spelling)
    okr, why = False, fmt(r)[:300]
    if r[0] == "tuple" and len(r[1]) == 2:
        Q, R = r[1]
        if Q[0] == "op" and Q[1] == "Shr" and Q[2][1] == br and R == mk("Sub", Q[2][0], mk("Shl", Q, br)):
            clean = Q[2][0]
            if clean[0] == "op" and clean[1] == "Sub" and clean[2][0] == h:
                T = clean[2][1]
                alts = T[1] if T[0] == "phi" else (T,)
                nz = [a for a in alts if a != const(0)]
                if len(nz) == 1 and const(0) in alts and nz[0][0] == "op" and nz[0][1] == "Shl" and nz[0][2][0][0] == "op" and nz[0][2][0][1] == "Shr" \
                        and nz[0][2][0][2][0] == h and nz[0][2][0][2][1] == nz[0][2][1] and linear_eq(nz[0][2][1], used):
                    okr = True
                else:
                    why = "the dropped part is %s, expected 0 | (hash >> (q+r)) << (q+r)" % fmt(T)[:200]
    mask_form_ok = False
    if not okr and r[0] == "tuple" and len(r[1]) == 2:
        # the same split written with masks: clean = if q + r < 64 { h & ((1 << (q + r)) - 1) } else { h },
        # quotient = clean >> r, remainder = clean & ((1 << r) - 1)
        from ..terms import PHI_GUARD
        Q, R = r[1]
        low = lambda bits_: mk("Sub", mk("Shl", const(1), bits_), const(1))

        def is_lowmask(m_, bits_, total_only=False):
            """m_ is the mask of the low `bits_` bits: (1 << bits) - 1 (valid for bits < 64) or the branch-free u64::MAX >> (64 - bits)
            (valid for 1 <= bits <= 64)"""
            if m_[0] == "op" and m_[1] == "Shr" and len(m_[2]) == 2 and m_[2][0] in (const(2 ** 64 - 1),) + tuple(x for x in (m_[2][0],) if x[0] == "call" and _nm(x[1], "max_value")) \
                    and linear_eq(m_[2][1], mk("Sub", const(64), bits_)):
                return True
            if total_only:
                return False
            return m_[0] == "op" and m_[1] == "Sub" and m_[2][1] == const(1) and m_[2][0][0] == "op" and m_[2][0][1] == "Shl" and m_[2][0][2][0] == const(1) and linear_eq(m_[2][0][2][1], bits_)
        def rest_after(R_, clean_):
            """R_ = clean_ & m (BitAnd is kept flat: the factors of clean_ appear among R_'s): returns m or None"""
            if not (R_[0] == "op" and R_[1] == "BitAnd"):
                return None
            cargs = list(clean_[2]) if (clean_[0] == "op" and clean_[1] == "BitAnd") else [clean_]
            rargs = list(R_[2])
            for c_ in cargs:
                if c_ in rargs:
                    rargs.remove(c_)
                else:
                    return None
            return rargs[0] if len(rargs) == 1 else None
        m_r = rest_after(R, Q[2][0]) if (Q[0] == "op" and Q[1] == "Shr" and len(Q[2]) == 2) else None
        if m_r is not None and Q[2][1] == br and is_lowmask(m_r, br):
            clean = Q[2][0]
            # branch-free: clean = h & (u64::MAX >> (64 - (q + r))) keeps everything when q + r = 64, so no case split is needed
            if clean[0] == "op" and clean[1] == "BitAnd" and len(clean[2]) == 2 and h in clean[2] and is_lowmask([x for x in clean[2] if x != h][0], used, total_only=True):
                okr = mask_form_ok = True
            g = PHI_GUARD.get(repr(clean)) if clean[0] == "phi" else None
            if g is not None:
                c_, a_t, a_f = g
                masked, plain = (a_t, a_f) if a_t != h else (a_f, a_t)
                mk_ok = plain == h and masked[0] == "op" and masked[1] == "BitAnd" and len(masked[2]) == 2 and h in masked[2]
                if mk_ok:
                    m_ = [x for x in masked[2] if x != h][0]
                    mk_ok = m_[0] == "op" and m_[1] == "Sub" and m_[2][1] == const(1) and m_[2][0][0] == "op" and m_[2][0][1] == "Shl" and m_[2][0][2][0] == const(1) \
                        and linear_eq(m_[2][0][2][1], used)
                # the masked value is taken exactly when some bits are dropped (q + r < 64)
                sel = None
                if mk_ok and c_[0] == "op" and len(c_[2]) == 2:
                    sel = says_no_trash_for_mask(c_, masked is a_t, used, bt)
                if mk_ok and sel:
                    okr = mask_form_ok = True
                else:
                    why = "the masked split keeps %s under %s; expected h & ((1 << (q+r)) - 1) exactly when q + r < 64" % (fmt(clean)[:160], fmt(c_)[:80])
    ctx.check(okr, "R13-split", f.key, f, "quotient = clean >> bits_remainder, remainder = clean - (quotient << bits_remainder), clean = hash without its top 64-q-r bits",
              "calc_quotient_remainder returns %s" % why)
    # the trash branch: 0 exactly when bits_trash == 0
    tb = TermBuilder(f, prog)

    def says_no_trash(c, tr):
        """fact (c, tr) states 64 - q - r == 0"""
        if c[0] == "op" and len(c[2]) == 2:
            a, b = c[2]
            x = b if a == const(0) else (a if b == const(0) else None)
            if x is not None and linear_eq(x, bt):
                if c[1] == "Eq":
                    return tr
                if c[1] == "Ne":
                    return not tr
                if c[1] == "Lt" and a == const(0):
                    return not tr          # !(0 < x)  on an unsigned x
                if c[1] == "Le" and b == const(0):
                    return tr              # x <= 0
            # the same test on the number of bits kept: q + r < 64  <=>  some bits are dropped
            if c[1] == "Lt" and b == const(64) and linear_eq(a, used):
                return not tr
            if c[1] == "Le" and a == const(64) and linear_eq(b, used):
                return tr
            if c[1] in ("Eq", "Ne") and const(64) in (a, b) and linear_eq(b if a == const(64) else a, used):
                return tr if c[1] == "Eq" else not tr
        return None
    oks = False
    for bi, blk in enumerate(f.blocks):
        for si, st in enumerate(blk.stmts):
            if st.k == "assign" and st.rv.k == "use" and st.rv.ops[0].k == "const" and st.rv.ops[0].value() == 0 and f.local_ty(st.place.local) == "u64":
                vs = [says_no_trash(c, tr) for c, tr in atomic_facts(f, prog, bi, tb)]
                if True in vs and False not in vs:
                    oks = True
    if not oks:
        # the case split written as a combinator: `(bits_trash > 0).then(|| ..).unwrap_or(0)`
        from ..terms import PHI_GUARD, subterms as _st
        for x in _st(r):
            g = PHI_GUARD.get(repr(x)) if x[0] == "phi" else None
            if g is not None and const(0) in (g[1], g[2]):
                c, a_t, a_f = g
                zero_when = True if a_t == const(0) else False
                if says_no_trash(c, zero_when) is True:
                    oks = True
    oks = oks or mask_form_ok
    ctx.check(oks, "R13-split", f.key + ":no-trash", f, "no bits are dropped exactly when q + r == 64", "the `bits_trash > 0` case split is missing or inverted")


def says_no_trash_for_mask(c, masked_when_true, used, bt):
    """the test c selects the masked value (when true iff masked_when_true) exactly when bits are dropped, i.e. q + r < 64"""
    from ..terms import linear_eq
    a, b = c[2]
    drops_when_true = None
    if c[1] == "Lt" and b == const(64) and linear_eq(a, used):
        drops_when_true = True            # q + r < 64
    elif c[1] == "Le" and a == const(64) and linear_eq(b, used):
        drops_when_true = False           # 64 <= q + r
    elif c[1] in ("Eq", "Ne") and const(64) in (a, b) and linear_eq(b if a == const(64) else a, used):
        drops_when_true = (c[1] == "Ne")
    elif c[1] == "Lt" and a == const(0) and linear_eq(b, bt):
        drops_when_true = True            # 0 < 64 - q - r
    elif c[1] in ("Eq", "Ne") and const(0) in (a, b) and linear_eq(b if a == const(0) else a, bt):
        drops_when_true = (c[1] == "Ne")
    if drops_when_true is None:
        return False
    return drops_when_true == masked_when_true


def scan_rules(ctx):
    """R13-scan: the loops of scan() have the guards, polarities and cursor updates of the quotient-filter lookup:
    walk LEFT (decr) while is_shifted to the cluster start; per occupied bucket skip one run (incr while is_continuation) and
    advance to the next occupied bucket (incr until is_occupied, or the target itself when inserting) until the bucket is the
    target quotient; inside the run stop on equality (present, at that slot), on a larger remainder (runs are sorted) or at the
    end of the run. Loop *shape* is free; what is compared is the set of (exit condition, polarity, cursor update) facts."""
    prog = ctx.prog
    sc = ctx.anchor(QF + "::scan")
    if sc is None:
        return
    selfp = ("param", 1, "self")
    quot, rem_p, on_ins = ("param", 2, "quotient"), ("param", 3, "remainder"), ("param", 4, "on_insert")
    tb = TermBuilder(sc, prog)
    loops = []
    for h in sc.loop_heads():
        body = sc.natural_loop(h)
        carried = {}
        for l in range(len(sc.locals)):
            if sc.local_name(l) and tb.defined_in_loop(l, h):
                carried[l] = (tb.loop_init(l, h), tb.loop_update(l, h))
        exits = []
        for b in sorted(body):
            t = sc.blocks[b].term
            if t.k != "switch":
                continue
            outs = [s for s in sc.succs(b) if s not in body and sc.can_return(s)]
            if not outs:
                continue
            cond = tb.operand(t.discr, b, len(sc.blocks[b].stmts))
            arms = {int(v): bb for v, bb in t.j["arms"]}
            if cond[0] == "call" and cond[1] == "discriminant" and cond[2][0][0] == "call" and cond[2][0][1].endswith("::cmp"):
                # `match stored.cmp(&remainder)`: every arm that leaves the loop is the comparison it stands for
                from ..guards import checked_outcome
                for o in outs:
                    vals = [v for v, bb in arms.items() if bb == o]
                    if not vals:
                        exits.append((cond, True, b))       # the otherwise arm: left as it is (not a documented stop)
                    for v in vals:
                        co = checked_outcome(mk("Eq", cond, const(v)), True)
                        exits.append((co[0], co[1], b) if co else (cond, True, b))
                continue
            for o in outs:
                val = [v for v, bb in arms.items() if bb == o]
                pol = (val[0] != 0) if val else True      # `otherwise` of a bool switch is the true edge
                exits.append((cond, pol, b))
        loops.append((h, carried, exits))

    def out(fnname, x):
        return ("call", "%s::%s::out2" % (QF, fnname), (selfp, x))

    recognised = set()

    def has_exit(pred):
        hits = [(h, c, pol, b) for h, carried, exits in loops for (c, pol, b) in exits if pred(h, carried, c, pol)]
        recognised.update((h, b, pol) for h, c, pol, b in hits)
        return [(h, c, pol) for h, c, pol, b in hits]

    def lv_updated_by(carried, lv, fnname):
        pick = succ_of if fnname == "incr" else pred_of
        if not (lv[0] == "loopvar" and lv[1] in carried):
            return False
        src = pick(carried[lv[1]][1])
        return src is not None and src[0] == "loopvar" and src[1] == lv[1]

    probs = []
    # E1: cluster start
    e1 = has_exit(lambda h, ca, c, pol: c[0] == "index" and c[1] == ("field", selfp, "is_shifted") and c[2][0] == "loopvar" and pol is False
                  and lv_updated_by(ca, c[2], "decr") and ca[c[2][1]][0] == quot)
    if not e1:
        probs.append("no loop walks left from the quotient (decr) while is_shifted and stops at the first unshifted slot")
    # E2: run skipping / end-of-run tests on is_continuation at the incremented cursor, exit on false
    def cursor_advanced_by_incr(ca, x):
        # the tested slot is incr(cursor), or a loop-carried cursor that enters the loop already advanced (incr before the loop)
        # and is advanced again (incr) by every iteration: `incr(c); while test(c) { incr(c) }` == `loop { incr(c); if !test(c) { break } }`
        if succ_of(x) is not None:
            return True
        return x[0] == "loopvar" and x[1] in ca and all(succ_of(y) is not None for y in ca[x[1]])
    e2 = has_exit(lambda h, ca, c, pol: c[0] == "index" and c[1] == ("field", selfp, "is_continuation") and cursor_advanced_by_incr(ca, c[2]) and pol is False)
    if len({h for h, _, _ in e2}) < 2:
        probs.append("expected two loops that advance a slot cursor (incr) until is_continuation is false (run skip, in-run search); found %d" % len({h for h, _, _ in e2}))
    # E3: next occupied bucket
    e3a = has_exit(lambda h, ca, c, pol: c[0] == "index" and c[1] == ("field", selfp, "is_occupied") and cursor_advanced_by_incr(ca, c[2]) and pol is True)
    # the second stop of the bucket walk: `on_insert && cursor == quotient`, tested in either order (one is the exit test, the other
    # a fact dominating it)
    from ..guards import atomic_facts

    def is_cursor_eq_quot(ca, x):
        return x[0] == "op" and x[1] == "Eq" and quot in x[2] and any(cursor_advanced_by_incr(ca, y) for y in x[2] if y != quot)
    e3b = []
    for h, carried, exits in loops:
        for (c, pol, b) in exits:
            if pol is not True:
                continue
            fs = atomic_facts(sc, prog, b, tb)
            if c == on_ins and any(tr and is_cursor_eq_quot(carried, x) for x, tr in fs):
                e3b.append((h, c, pol))
                recognised.add((h, b, pol))
            elif is_cursor_eq_quot(carried, c) and any(tr and x == on_ins for x, tr in fs):
                e3b.append((h, c, pol))
                recognised.add((h, b, pol))
    if not e3a:
        probs.append("no loop advances the bucket cursor (incr) until is_occupied")
    if not e3b:
        probs.append("the bucket walk does not stop at the target quotient itself (`on_insert && cursor == quotient`) when inserting")
    # E4: outer loop until the bucket cursor is the quotient
    e4 = has_exit(lambda h, ca, c, pol: c[0] == "op" and c[1] == "Ne" and quot in c[2] and any(x[0] == "loopvar" for x in c[2]) and pol is False)
    if not e4:
        probs.append("no outer loop `while bucket != quotient`")
    # E5: in-run search
    def is_rem_at_lv(x):
        return x[0] == "call" and x[1].endswith("::get") and x[2][0] == ("field", selfp, "remainders") and x[2][1][0] == "loopvar"
    e5eq = has_exit(lambda h, ca, c, pol: c[0] == "op" and c[1] == "Eq" and rem_p in c[2] and any(is_rem_at_lv(x) for x in c[2]) and pol is True)
    # `r > remainder` or (after the equality exit) the equivalent `r >= remainder`
    e5gt = has_exit(lambda h, ca, c, pol: c[0] == "op" and c[1] in ("Lt", "Le") and c[2][0] == rem_p and is_rem_at_lv(c[2][1]) and pol is True)
    # one merged exit `stored remainder >= remainder` covers the equality stop
    e5ge = has_exit(lambda h, ca, c, pol: c[0] == "op" and c[1] == "Le" and c[2][0] == rem_p and is_rem_at_lv(c[2][1]) and pol is True)
    if not e5eq and not e5ge:
        probs.append("the run search does not stop on `stored remainder == remainder`")
    if not e5gt:
        probs.append("the run search does not stop on `stored remainder > remainder` (sorted run)")
    # closed world: a loop of the lookup has no exit beyond the documented ones (an extra stop condition ends a walk early)
    for h, carried, exits in loops:
        for (c, pol, b) in exits:
            if (h, b, pol) not in recognised:
                probs.append("a loop of scan() has an additional exit when `%s` is %s, which is not one of the documented stop conditions of the lookup" % (fmt(c)[:120], "true" if pol else "false"))
    ctx.check(not probs, "R13-scan", sc.key, sc, "scan: cluster-start walk, run skipping, next-occupied walk, sorted in-run search with the documented guards and polarities (%d loops)" % len(loops),
              "; ".join(probs[:3]))
    # result records
    r = tb.return_term()
    alts = r[1] if r[0] == "phi" else (r,)
    probs = []
    sv = ScanView(prog)
    recs = [sv.record(a) for a in alts] if sv.ok else []
    if not sv.ok or any(d is None for d in recs):
        ctx.shape("R13-scan-results", sc.key, sc, "scan() returns %s — neither ScanResult records nor (bool, usize, Option<usize>) tuples" % fmt(r)[:160])
        return
    pres = [d for d in recs if d.get("present") == const(True)]
    maybe = [d for d in recs if d.get("present") not in (const(True), const(False))]
    if not pres and len(maybe) == 1:
        # one record built after the search: present = (stored remainder at the final cursor == remainder)
        d = maybe[0]
        pa = d["present"][1] if d["present"][0] == "phi" else (d["present"],)
        posa = d.get("position", ("x",))
        posa = posa[1] if posa[0] == "phi" else (posa,)
        # `present` may be a flag set where the match is found: the blocks storing `true` into a bool local
        flag_blocks = [bi for bi, blk in enumerate(sc.blocks) if not blk.cleanup for st in blk.stmts
                       if st.k == "assign" and st.place.is_local() and sc.local_ty(st.place.local) == "bool" and sc.local_name(st.place.local)
                       and st.rv.k == "use" and st.rv.ops[0].k == "const" and st.rv.ops[0].value() in (1, True)]
        flag_facts = [atomic_facts(sc, prog, bi, tb) for bi in flag_blocks]
        sor_t = d.get("start_of_run", ("x",))
        for a in pa:
            if a == const(False):
                continue
            if a == const(True) and flag_blocks:
                for fs in flag_facts:
                    hit = [x[2][1] for c_, tr_ in fs if tr_ and c_[0] == "op" and c_[1] == "Eq" and rem_p in c_[2] for x in c_[2] if is_rem_at_lv(x)]
                    if not hit:
                        probs.append("present is set to true where `stored remainder == remainder` is not established")
                    elif hit[0] not in posa:
                        probs.append("present is decided at slot %s but position reports %s" % (fmt(hit[0]), fmt(d.get("position"))[:80]))
                    if sor_t[0] == "call" and sor_t[1] == "bool::then_some" and fv({repr(c_): tr_ for c_, tr_ in fs}, sor_t[2][0]) is not True:
                        probs.append("a present result whose start_of_run may be None")
                continue
            slot = [x[2][1] for x in (a[2] if a[0] == "op" and a[1] == "Eq" else ()) if is_rem_at_lv(x)]
            if not (a[0] == "op" and a[1] == "Eq" and rem_p in a[2] and slot):
                probs.append("present is %s, expected `stored remainder == remainder`" % fmt(a)[:120])
            elif slot[0] not in posa:
                probs.append("present is decided at slot %s but position reports %s" % (fmt(slot[0]), fmt(d.get("position"))[:80]))
        if not (sor_t[0] == "call" and sor_t[1] == "bool::then_some" and flag_blocks) and (sor_t[0] != "adt" or sor_t[2] != "Some"):
            probs.append("a possibly-present result without a start_of_run")
    elif len(pres) != 1:
        probs.append("%d result records with present: true" % len(pres))
    else:
        d = pres[0]
        # position must be the cursor compared in the equality test
        eqc = [c for h, c, pol in e5eq]
        cursor = [x[2][1] for c in eqc for x in c[2] if is_rem_at_lv(x)]
        if not cursor or d.get("position") != cursor[0]:
            probs.append("present: true reports position %s, not the slot whose remainder matched" % fmt(d.get("position")))
        if d.get("start_of_run", ("x",))[0] != "adt" or d["start_of_run"][2] != "Some":
            probs.append("present: true without a start_of_run")
    fast = [d for d in recs if d.get("position") == quot and d.get("present") == const(False)]
    if not fast:
        probs.append("no fast path `run does not exist and not inserting => absent at the canonical slot`")
    ctx.check(not probs, "R13-scan-results", sc.key, sc, "present only at the matching slot with its run start; absent fast path at the canonical slot", "; ".join(probs[:3]))
    # fast path guard: !run_exists && !on_insert, run_exists = is_occupied[quotient]
    from ..paths import PathEnumerator
    pe = PathEnumerator(sc, prog, ctx.summ, max_back=0, limit=2000)
    okf = False
    bad_fast = False
    heads_ = set(sc.loop_heads())
    occ_q = ("index", ("field", selfp, "is_occupied"), quot)
    for p in pe.paths():
        if p.exit_kind != "return":
            continue
        facts = {repr(c): t for c, t in pe.path_facts(p)}
        # the fast path is the return that reaches no loop at all
        if not (set(p.blocks) & heads_) and fv(facts, occ_q) is False and fv(facts, on_ins) is False:
            okf = True
        elif not (set(p.blocks) & heads_):
            bad_fast = True
    ctx.check(okf and not bad_fast, "R13-scan-results", sc.key + ":fast-path", sc, "fast path taken exactly under !is_occupied[quotient] && !on_insert", "the query fast path is not guarded by !is_occupied[quotient] && !on_insert")
