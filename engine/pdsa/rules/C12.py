"""C12 — a failed filter insert or union leaves the filter unchanged (R12-restore)."""
from ..paths import PathEnumerator
from ..terms import TermBuilder, fmt, subterms, const
from ..terms import callee_is as _nm
from .common import SELF, self_field, is_self, self_field_term, rng_fields, INTERIOR_MUT, loop_exits_only_on_exhaustion

EXPLANATION = (
    "R12-restore: for every fallible Filter::insert/union implementation, every CFG path (callees inlined through "
    "return-correlated effect summaries, each loop back edge taken at most once more, explored as an explicit-state search "
    "with visited-state pruning) that ends in `return Err` must have undone every write to a field of self by one of the "
    "repository's idioms: (i) whole-field backup restored from a snapshot that dominates all writes, (ii) undo log: "
    "`log.push((x, F.get(x)))` paired with `F.set(x, ..)` and a verified reverse-replay helper on the tail, "
    "(iii) no write at all. (For (ii) the push may come directly before or directly after the store: the old value is read before "
    "the store either way — C01's kick-loop rule decides that read.) RNG-typed fields are exempt (trait doc: internal state may change). Also: `other` is `&Self` "
    "without interior mutability (type tree)."
    ' A log that was filled before a whole-field snapshot restore is stale: replaying it afterwards is a write that nothing undoes.'
)
from .common import NEW_WRITERS_NOTE as _NWN
EXPLANATION = EXPLANATION + _NWN % "12"
NOT_DECIDED = "nothing in the state clause; RNG state advancing on a failed cuckoo insert is explicitly allowed by the trait."
ASSUMPTIONS = [
    "external mutators behave as their names say (IntVecMut::set stores one element, Vec::push appends, FixedBitSet::set sets one bit)",
    "a snapshot `let b = self.F.clone()` / copy denotes the value of F at that point; restoring it re-establishes F exactly",
]


def fallible_mutators(ctx):
    out = []
    for f in ctx.prog.fns.values():
        if f.impl_trait == "filters::Filter" and f.name in ("insert", "union") and f.ret_ty and f.ret_ty.startswith("std::result::Result<"):
            if "Infallible" in f.local_ty(0):
                continue  # cannot fail: nothing to restore
            out.append(f)
    return sorted(out, key=lambda f: f.key)


def replay_helpers(ctx):
    """local fns whose only self-writes are `self.F.set(e.0, e.1)` for e over rev(<slice param>) in a
    loop that runs to exhaustion: returns {key: (field, log_param_index)}"""
    out = {}
    for f in ctx.prog.fns.values():
        if f.kind != "AssocFn" or f.arg_count != 2 or f.local_name(1) != "self":
            continue
        if not f.local_ty(1).startswith("&mut"):
            continue
        if not any(x in f.local_ty(2) for x in ("[(", "Vec<(", "VecDeque<(")):
            continue        # the second parameter is not a log of pairs
        tb = TermBuilder(f, ctx.prog)
        sets = []
        other_writes = False
        for bi, t in f.calls():
            nm = t.callee_name()
            if nm == "set" and len(t.args) == 3:
                a = [tb.operand(x, bi, len(f.blocks[bi].stmts)) for x in t.args]
                sets.append((bi, a))
        if len(sets) != 1:
            continue
        bi, a = sets[0]
        fld = self_field_term(a[0])
        if fld is None:
            continue
        pos, data = a[1], a[2]
        # expected: elem(rev(param2)).0 / .1
        def comp(t, i):
            return t[0] == "tfield" and t[2] == i and t[1][0] == "elem"
        if not (comp(pos, 0) and comp(data, 1) and pos[1] == data[1]):
            out[f.key] = {"field": fld, "ok": False, "why": "set(pos, data) arguments are not the two components of one log entry: %s / %s" % (fmt(pos), fmt(data))}
            continue
        stream = pos[1][1]
        rev = stream[0] == "rev" and stream[1][0] == "param" and stream[1][1] == 2
        heads = f.loop_heads()
        full = len(heads) == 1 and loop_exits_only_on_exhaustion(f, heads[0]) and bi in f.natural_loop(heads[0])
        # the set call must be executed on every iteration: no way round the loop from its head back to its head avoids the set block
        every = False
        if full:
            body_ = f.natural_loop(heads[0])
            seen_, todo_ = set(), [s_ for s_ in f.succs(heads[0]) if s_ in body_ and s_ != bi]
            skipping = False
            while todo_:
                b_ = todo_.pop()
                if b_ in seen_ or b_ == bi:
                    continue
                seen_.add(b_)
                for s_ in f.succs(b_):
                    if s_ == heads[0]:
                        skipping = True
                    elif s_ in body_ and s_ != bi:
                        todo_.append(s_)
            every = not skipping
            if skipping:
                # the only tolerated way round the write: a bounds test of the entry's own position against the table's length
                # (`if pos < self.table.len() { set }` — a position outside the table was never logged; the unguarded write would panic)
                from ..guards import facts_at
                inloop = [(c_, tr_) for c_, tr_, sw_ in facts_at(f, ctx.prog, bi, tb) if sw_ in body_]

                def _is_bound(c_, tr_):
                    if c_[0] == "op" and c_[1] == "Eq" and any(z_[0] == "call" and z_[1].rsplit("::", 1)[-1] in ("next", "pop", "discriminant") for z_ in subterms(c_)):
                        return True                  # the loop's own `Some(entry)` test
                    if c_ == const(True) or (c_[0] == "call" and "debug_assertions" in c_[1]):
                        return True
                    if tr_ is True and c_[0] == "op" and c_[1] == "Lt" and len(c_[2]) == 2:
                        l_, r_ = c_[2]
                        l_ = l_[2] if l_[0] == "cast" else l_
                        return l_ == pos and r_[0] == "call" and r_[1].rsplit("::", 1)[-1] == "len" and len(r_[2]) == 1 and self_field_term(r_[2][0]) == fld
                    return False
                every = bool(inloop) and all(_is_bound(c_, tr_) for c_, tr_ in inloop)
        out[f.key] = {"field": fld, "ok": rev and full and every,
                      "why": "" if (rev and full and every) else ("log is not replayed in reverse order (stream %s)" % fmt(stream) if not rev else
                                                                  "some log entries are skipped (the write is not executed for every entry)" if full else "replay loop can exit early or skip entries")}
    return out


def inline_replay_loops(ctx, m, pe):
    """The same replay written out inside the mutator: a loop of m whose only self-write is `self.F.set(e.0, e.1)` with e running
    over the undo log from its end (`for e in log.iter().rev()`, `while let Some(e) = log.pop()`), executed on every iteration of a
    loop that runs to exhaustion.  Returns [{"body", "field", "root", "ok", "why", "head"}]."""
    out = []
    tb = pe.tb
    vec_locals = [l for l in range(len(m.locals)) if m.local_ty(l).startswith("std::vec::Vec<(")]
    for h in m.loop_heads():
        body = m.natural_loop(h)
        sets = []
        other_self_calls = False
        for bi, t in m.calls():
            if bi not in body:
                continue
            if t.callee_name() == "set" and len(t.args) == 3:
                sets.append((bi, [tb.operand(x, bi, len(m.blocks[bi].stmts)) for x in t.args]))
        if len(sets) != 1:
            continue
        bi, a = sets[0]
        fld = self_field_term(a[0])
        if fld is None:
            continue
        pos, data = a[1], a[2]
        if not (pos[0] == "tfield" and data[0] == "tfield" and pos[2] == 0 and data[2] == 1 and pos[1] == data[1]):
            continue            # not a loop over (pos, data) pairs: some other loop that writes the field
        e = pos[1]
        why = ""
        root = ("local", vec_locals[0]) if len(vec_locals) == 1 else None
        if e[0] == "elem":
            stream = e[1]
            rev = stream[0] == "rev"
            full = loop_exits_only_on_exhaustion(m, h)
            if not rev:
                why = "log is not replayed in reverse order (stream %s)" % fmt(stream)[:120]
        elif e[0] == "field" and e[1][0] == "variant" and e[1][2] == "Some" and e[1][1][0] == "call" and e[1][1][1].endswith("::pop") and not _nm(e[1][1][1], "pop_front"):
            # entries taken from the end of the log until it is empty
            pops = [(bj, t) for bj, t in m.calls() if bj in body and t.callee_name() == "pop"]
            full = loop_exits_only_on_exhaustion(m, h, producers=("pop",))
            if len(pops) == 1 and pops[0][1].args and pops[0][1].args[0].place is not None and pops[0][1].args[0].place.is_local():
                o = pe.origins.of_local(pops[0][1].args[0].place.local)
                if o is not None:
                    root = o.root
        else:
            why = "log entries are taken with %s — not from the end of the log" % fmt(e)[:120]
            full = False
        if not why and not full:
            why = "replay loop can exit early or skip entries"
        # the store happens on every iteration: every back edge comes from a block the store dominates
        if not why:
            for b in body:
                if h in m.succs(b) and not m.dominates(bi, b):
                    why = "an iteration of the replay loop can skip the store"
        if not why and root is None:
            why = "cannot tell which undo log the loop replays"
        out.append({"body": body, "head": h, "field": fld, "root": root, "ok": not why, "why": why, "set_bb": bi})
    return out


def run(ctx):
    from .common import check_new_writers
    check_new_writers(ctx, "R12-new-writers", ['filters::cuckoofilter::CuckooFilter', 'filters::quotientfilter::QuotientFilter'])
    run_restore_rules(ctx)


def run_restore_rules(ctx, only_adt=None, floor=4):
    """the restore rules; C01 (no false negative across failed operations) and C14 (exact multiset across failed inserts)
    re-use them for their filters, because a lost or duplicated fingerprint after a failed call is a violation of those too"""
    prog = ctx.prog
    ms = [m for m in fallible_mutators(ctx) if only_adt is None or m.impl_self == only_adt]
    ctx.floor("R12-restore", len(ms), floor, "fallible Filter::insert/union implementations")
    helpers = replay_helpers(ctx)
    for k, h in sorted(helpers.items()):
        f = prog.fn(k)
        ctx.analysed_fns.add(k)
        ctx.check(h["ok"], "R12-replay-helper", k, f, "replays (pos,data) of the log in reverse with %s.set(pos,data), loop runs to exhaustion" % h["field"],
                  "undo-log replay helper is not a faithful reverse replay: %s" % h["why"])
    good_helpers = {k: h for k, h in helpers.items() if h["ok"]}

    for m in ms:
        ctx.analysed_fns.add(m.key)
        adt = m.impl_self
        exempt = rng_fields(prog, adt)
        check_mutator(ctx, m, exempt, good_helpers)
        # R12-other-untouched
        if m.name == "union":
            ty2 = m.local_ty(2)
            a = prog.adts.get(adt)
            bad = []
            if a is not None:
                for fl in a["variants"][0]["fields"]:
                    for r in fl["reach"]:
                        if r in INTERIOR_MUT:
                            bad.append("%s:%s" % (fl["name"], r))
            ctx.check(ty2.startswith("&") and not ty2.startswith("&mut") and not bad, "R12-other-untouched", m.key, m,
                      "`other` is %s and %s has no interior mutability in its type tree" % (ty2, adt),
                      "`other` can be modified: type %s, interior mutability %s" % (ty2, bad))


def check_mutator(ctx, m, exempt, helpers):
    prog = ctx.prog
    pe = PathEnumerator(m, prog, ctx.summ, limit=400000)
    # side tables filled during exploration
    write_sites = {}     # field -> set of site bbs in m's frame
    snapshots = {}       # field -> set of (value_local)
    err_states = []
    n_err = [0]
    n_exit = [0]

    # state: (dirty frozenset((field, where)), logged frozenset((field, logroot)), pending push or None)
    init = (frozenset(), frozenset(), None, frozenset(), frozenset())   # dirty, logged, pending, logs with entries (field, log), stale (field, log)
    loops = inline_replay_loops(ctx, m, pe)
    for lp_ in loops:
        ctx.check(lp_["ok"], "R12-replay-helper", "%s:inline-replay@%s" % (m.key, lp_["field"]), m.blocks[lp_["set_bb"]].term.span,
                  "replays (pos,data) of the log from its end with %s.set(pos,data) in a loop of %s that runs to exhaustion" % (lp_["field"], m.name),
                  "undo-log replay loop is not a faithful reverse replay: %s" % lp_["why"])
    loops = [lp_ for lp_ in loops if lp_["ok"]]

    def in_replay_loop(ev):
        if ev.get("via") or ev.get("origin_fn") != m.key:
            return None
        for lp_ in loops:
            if ev.get("bb") in lp_["body"]:
                return lp_
        return None

    def site_of(ev):
        return "%s@%s:%d" % (ev.get("origin_fn", "?").split("::")[-1], ev["span"]["file"].split("/")[-1], ev["span"]["line"])

    def log_push_of(ev):
        """(field, log root) if ev is `log.push((x, self.F.get(x)))`"""
        if ev["kind"] == "write" and self_field(ev) is None and ev.get("name") == "push" and len(ev["args"]) == 2 and ev["args"][1][0] == "tuple" and len(ev["args"][1][1]) == 2:
            x, old = ev["args"][1][1]
            if old[0] == "call" and old[1].endswith("::get") and len(old[2]) == 2 and old[2][1] == x:
                f_old = self_field_term(old[2][0])
                if f_old is not None:
                    return (f_old, ev["root"])
        return None

    def snapshot_restore_of(ev):
        if ev["kind"] != "write" or ev.get("via"):
            return None
        fld = self_field(ev)
        if fld is None:
            return None
        if ev["how"] == "store" and len(ev["path"]) == 1 and ev.get("value") is not None and self_field_term(ev["value"]) == fld:
            return fld
        if ev["how"] == "call" and ev.get("name") in ("swap", "replace") and len(ev["args"]) == 2 and self_field_term(ev["args"][1 - ev.get("argi", 0)]) == fld:
            return fld
        return None

    def step(state, ev):
        d_, l_, p_, filled, stale = state
        if ev["kind"] == "branch" and ev.get("discr_ty") == "bool" and ev.get("cond") is not None and l_:
            # `if result.is_err() && !log.is_empty() { replay }`: on the branch that found the (local) log empty nothing was logged
            c_ = ev["cond"]
            neg = False
            while c_[0] == "op" and c_[1] == "Not" and len(c_[2]) == 1:
                c_, neg = c_[2][0], not neg
            if c_[0] == "call" and c_[1].endswith("::is_empty") and len(c_[2]) == 1 and not (c_[2][0][0] == "field" and c_[2][0][1][:2] == ("param", 1)) \
                    and ev.get("value") in (0, 1) and (bool(ev["value"]) != neg):
                state = (d_, frozenset(), p_, filled, stale)
                d_, l_, p_, filled, stale = state
        lp_ = in_replay_loop(ev)
        if lp_ is not None:
            # reaching the loop replays the whole log (the loop is verified to run to exhaustion and to store on every iteration);
            # its own stores and its pops are not new work
            nl = frozenset(x for x in l_ if not (x[0] == lp_["field"] and x[1] == lp_["root"]))
            nd = d_
            if (lp_["field"], lp_["root"]) in stale:
                write_sites.setdefault(lp_["field"], set())
                nd = nd | {(lp_["field"], "replay of a stale undo log over the restored snapshot @%s:%d" % (ev["span"]["file"].split("/")[-1], ev["span"]["line"]))}
            if ev["kind"] == "write" and (self_field(ev) == lp_["field"] or ev.get("root") == lp_["root"]):
                return (nd, nl, None, filled, stale)
            d_, l_ = nd, nl
        nd, nl, np_ = step3((d_, l_, p_), ev)
        lp = log_push_of(ev)
        if lp is not None:
            filled = filled | {lp}
        sr = snapshot_restore_of(ev)
        if sr is not None:
            # the field is back to its snapshot, but logs filled since then still hold values from the aborted work
            stale = stale | frozenset(x for x in filled if x[0] == sr)
        if ev["kind"] == "call" and ev["callee"] in helpers:
            h = helpers[ev["callee"]]
            pa = ev["ptr_args"]
            root = pa[1][1].root if (len(pa) > 1 and pa[1] is not None and pa[1][1] is not None) else None
            if (h["field"], root) in stale:
                write_sites.setdefault(h["field"], set())
                nd = nd | {(h["field"], "replay of a stale undo log over the restored snapshot @%s:%d" % (ev["span"]["file"].split("/")[-1], ev["span"]["line"]))}
        return (nd, nl, np_, filled, stale)

    def step3(state, ev):
        dirty, logged, pend = state
        k = ev["kind"]
        if k == "call":
            if ev["callee"] in helpers:
                h = helpers[ev["callee"]]
                pa = ev["ptr_args"]
                root = pa[1][1].root if (len(pa) > 1 and pa[1] is not None and pa[1][1] is not None) else None
                logged = frozenset(x for x in logged if not (x[0] == h["field"] and x[1] == root))
            return (dirty, logged, None) if ev["local"] else (dirty, logged, pend)
        if k != "write":
            return state
        if any(v in helpers for v in ev.get("via", ())):
            if ev.get("hof") and ev.get("closure"):
                # the helper was called from a closure handed to a combinator (`.map_err(|e| { self.restore_state(&log); e })`): the
                # closure's call events are not on the path, its effects are — a store of the replay helper means the helper ran
                # (to exhaustion: R12-replay-helper), i.e. the log of that field was replayed
                hk = [v for v in ev.get("via", ()) if v in helpers][0]
                roots = {x[1] for x in logged if x[0] == helpers[hk]["field"]}
                # .. provided EVERY path of the closure runs the helper (a replay under a condition is no replay)
                cfn_ = prog.fn(ev["closure"])
                cbs_ = [bi_ for bi_, t_ in cfn_.calls() if t_.callee() == hk] if cfn_ is not None else []
                must = bool(cbs_) and all(any(cfn_.dominates(cb_, r_) for cb_ in cbs_) for r_ in cfn_.exits())
                if len(roots) == 1 and must:
                    logged = frozenset(x for x in logged if x[0] != helpers[hk]["field"])
                return (dirty, logged, pend)
            return state  # the replay helper's own stores
        fld = self_field(ev)
        if fld is None:
            # a push onto a log vector?
            if ev.get("name") == "push" and len(ev["args"]) == 2 and ev["args"][1][0] == "tuple" and len(ev["args"][1][1]) == 2:
                x, old = ev["args"][1][1]
                f_old = None
                if old[0] == "call" and old[1].endswith("::get") and len(old[2]) == 2 and old[2][1] == x:
                    f_old = self_field_term(old[2][0])
                if f_old is not None:
                    if pend is not None and pend[0] == "set" and pend[2] == x and pend[3] == f_old and pend[1] in dirty:
                        # `F.set(x, new); log.push((x, old))`: same pairing, other order
                        return (dirty - {pend[1]}, logged | {(f_old, ev["root"])}, None)
                    return (dirty, logged, ("push", ev["root"], x, f_old))
            return (dirty, logged, pend) if ev["root"][0] != "param" else (dirty, logged, None)
        if fld in exempt:
            return state
        if ev["how"] == "borrow":
            return state
        write_sites.setdefault(fld, set())
        # restore by snapshot?
        if ev["how"] == "store" and len(ev["path"]) == 1 and ev.get("value") is not None and self_field_term(ev["value"]) == fld and not ev.get("via"):
            snapshots.setdefault(fld, set()).add(ev.get("value_local"))
            dirty = frozenset(x for x in dirty if x[0] != fld)
            logged = frozenset(x for x in logged if x[0] != fld)  # a whole-field restore supersedes the undo log
            return (dirty, logged, None)
        if ev["how"] == "call" and ev.get("name") in ("swap", "replace") and len(ev["args"]) == 2 and not ev.get("via"):
            other = ev["args"][1 - ev.get("argi", 0)]
            if self_field_term(other) == fld:
                snapshots.setdefault(fld, set()).add(None)
                dirty = frozenset(x for x in dirty if x[0] != fld)
                logged = frozenset(x for x in logged if x[0] != fld)
                return (dirty, logged, None)
        # a real write
        write_sites[fld].add((ev.get("via", ()), ev["bb"]))
        if pend is not None and pend[0] == "push" and ev.get("name") == "set" and len(ev["args"]) == 3 and pend[3] == fld and ev["args"][1] == pend[2]:
            logged = logged | {(fld, pend[1])}
            return (dirty, logged, None)
        entry = (fld, site_of(ev))
        dirty = dirty | {entry}
        if ev.get("name") == "set" and len(ev["args"]) == 3:
            # the log entry may also be pushed right AFTER the store (the old value was read before): remember the store
            return (dirty, logged, ("set", entry, ev["args"][1], fld))
        return (dirty, logged, None)

    def on_exit(state, q):
        n_exit[0] += 1
        if q.exit_kind == "return" and q.ret == "Err":
            n_err[0] += 1
            err_states.append((state, q))

    pe.fold(init, step, on_exit)
    if pe.truncated:
        ctx.fail("R12-restore", m.key + ":exploration", m, "state exploration truncated at %d exits — cannot decide" % pe.limit)
        return
    if n_err[0] == 0:
        ctx.fail("anchor-missing", "R12-restore:" + m.key, m, "no path of %s returns Err — rule would be vacuous" % m.key)
        return

    # collect violations per field
    bad = {}
    for (dirty, logged, _, _f, _s), q in err_states:
        for (fld, where) in dirty:
            bad.setdefault(fld, {"unlogged": set(), "unreplayed": set(), "q": q})["unlogged"].add(where)
        for (fld, root) in logged:
            bad.setdefault(fld, {"unlogged": set(), "unreplayed": set(), "q": q})["unreplayed"].add(str(root))
    fields_written = sorted(write_sites)
    for fld in fields_written:
        if fld in bad:
            b = bad[fld]
            parts = []
            if b["unlogged"]:
                parts.append("write(s) at %s reach `return Err` without being undone (no backup restored, not in the undo log)" % ", ".join(sorted(b["unlogged"])))
            if b["unreplayed"]:
                parts.append("logged writes are never replayed before `return Err`")
            q = b["q"]
            ctx.fail("R12-restore", "%s:%s" % (m.key, fld), q.fn.blocks[q.blocks[-1]].term.span if q.blocks else m,
                     "field `%s` of %s: %s" % (fld, m.impl_self.split("::")[-1], "; ".join(parts)),
                     {"err_exit_block": q.blocks[-1], "path_blocks": q.blocks[-40:]})
        else:
            how = "snapshot restore" if fld in snapshots else "undo log / no write on Err paths"
            ctx.ok("R12-restore", "%s:%s" % (m.key, fld), "every write to `%s` is undone on all %d Err-exit states (%s)" % (fld, n_err[0], how))
    if not fields_written:
        ctx.ok("R12-restore", "%s:<none>" % m.key, "no write to self reaches any of the %d Err exits (check-before-write)" % n_err[0])

    # snapshot validity: the backup definition must dominate every write to the field in m's frame
    dom = m.dominators()
    for fld, locs in snapshots.items():
        for l in locs:
            if l is None:
                continue
            l0 = l
            # follow `tmp = copy backup` chains to the statement that read self.F
            guard = 0
            while guard < 8:
                guard += 1
                defs = m.defs().get(l0, [])
                if len(defs) == 1 and defs[0][2] == "stmt" and defs[0][3].rv.k == "use" and defs[0][3].rv.ops[0].place is not None and defs[0][3].rv.ops[0].place.is_local():
                    l0 = defs[0][3].rv.ops[0].place.local
                elif len(defs) == 1 and defs[0][2] == "stmt" and defs[0][3].rv.k == "use" and defs[0][3].rv.ops[0].place is not None \
                        and len(defs[0][3].rv.ops[0].place.proj) == 1 and defs[0][3].rv.ops[0].place.proj[0]["k"] == "field":
                    # the backups are kept together in a tuple: `let backup = (a.clone(), b.clone()); .. let (x, y) = backup;`
                    # (or in a struct: `let snap = Snapshot { a: self.a.clone(), .. }; .. self.a = snap.a;`, possibly handed on by move)
                    pl = defs[0][3].rv.ops[0].place
                    k_ = pl.proj[0].get("i")
                    holder = pl.local
                    for _hop in range(4):
                        tdefs = m.defs().get(holder, [])
                        if len(tdefs) == 1 and tdefs[0][2] == "stmt" and tdefs[0][3].rv.k == "use" and tdefs[0][3].rv.ops[0].place is not None and tdefs[0][3].rv.ops[0].place.is_local():
                            holder = tdefs[0][3].rv.ops[0].place.local
                        else:
                            break
                    tdefs = m.defs().get(holder, [])
                    if len(tdefs) == 1 and tdefs[0][2] == "stmt" and tdefs[0][3].rv.k == "aggregate" and tdefs[0][3].rv.j.get("ak") in ("tuple", "adt") \
                            and k_ is not None and k_ < len(tdefs[0][3].rv.ops) and tdefs[0][3].rv.ops[k_].place is not None and tdefs[0][3].rv.ops[k_].place.is_local():
                        l0 = tdefs[0][3].rv.ops[k_].place.local
                    else:
                        break
                else:
                    break
            defs = m.defs().get(l0, [])
            okk = len(defs) == 1
            why = "backup local has %d definitions" % len(defs)
            if okk:
                db, di = defs[0][0], defs[0][1]
                for bi, blk in enumerate(m.blocks):
                    if blk.cleanup or bi not in dom:
                        continue
                    wpos = None
                    if blk.term.k == "call":
                        t = blk.term
                        if t.callee_is_local() and ctx.summ.alternatives(t.callee()) is not None:
                            for (wevs, _, _) in ctx.summ.alternatives(t.callee()):
                                if any(w["root"] == SELF and w["path"][:1] == (fld,) and w["how"] != "borrow" for w in wevs):
                                    # is self passed on?
                                    wpos = len(blk.stmts)
                        else:
                            for a in t.args:
                                if a.place is not None and a.place.is_local() and m.local_ty(a.place.local).startswith("&mut"):
                                    o = pe.origins.of_local(a.place.local)
                                    if o is not None and o.root == SELF and o.path[:1] == (fld,) and t.callee_name() not in ("index_mut", "get_mut", "deref_mut"):
                                        wpos = len(blk.stmts)
                    for si, st in enumerate(blk.stmts):
                        if st.k == "assign" and st.place.proj:
                            o = pe.origins.of_place(st.place)
                            if o is not None and o.root == SELF and o.path[:1] == (fld,):
                                # the restoring store itself is not a write-before-snapshot
                                tv = pe.tb.rvalue(st.rv, bi, si)
                                if self_field_term(tv) == fld:
                                    continue
                                wpos = si if wpos is None else min(wpos, si)
                    if wpos is None:
                        continue
                    if not (db in dom[bi] and (db != bi or di < wpos)):
                        okk = False
                        why = "write in bb%d is not dominated by the backup at bb%d" % (bi, db)
            ctx.check(okk, "R12-snapshot-dominates", "%s:%s" % (m.key, fld), m,
                      "backup of `%s` is taken once, at a point dominating every write to it" % fld,
                      "backup of `%s` does not dominate every write to it (%s)" % (fld, why))
    ctx.ok("R12-exploration", m.key, "%d distinct program states explored, %d exit states, %d Err exits" % (pe.explored_states, n_exit[0], n_err[0]))
