"""C18 — reservoir contents are always a valid sample of the stream."""
from ..paths import PathEnumerator
from ..guards import fv
from ..terms import TermBuilder, fmt, mk, const, subterms
from ..terms import callee_is as _nm
from ..guards import panic_sites
from .common import SELF, self_field, config_fields

EXPLANATION = (
    "R18-length: reservoir.push occurs only on paths with the fact i < k, `i += 1` happens exactly once on every returning path of "
    "add (=> len = min(i,k) by the standard induction, whose three premises are what is decided). R18-index-in-range: every "
    "indexed store into the reservoir lies on a path with !(i < k) and uses an index j with the fact j < k or drawn from "
    "gen_range(0..k). R18-only-stream-items: the only value ever stored is the `obj` argument of add, at most once per call; the "
    "fill phase appends (prefix order). R18-no-panic: the may-panic sites of add are exactly allow-listed arithmetic checks; every "
    "gen_range range is non-empty given k >= 1 (asserted in new; k is never written afterwards). Getters read the fields."
    " Completeness: every path of add either appends or refutes i < k (no item of the fill phase is dropped). A float draw feeding ln(1 - x) must come from the half-open range. C19's clear rule is applied to the sampler."
)
from .common import NEW_WRITERS_NOTE as _NWN
EXPLANATION = EXPLANATION + _NWN % "18"
NOT_DECIDED = "nothing of the validity clause; uniformity is C05"
ASSUMPTIONS = ["rand::Rng::gen_range(a..b) returns a value in [a,b) and panics only on an empty range", "Vec::push appends one element; IndexMut on Vec panics only when out of range"]

RS = "reservoirsampling::ReservoirSampling"


def run(ctx):
    from .common import check_new_writers
    check_new_writers(ctx, "R18-new-writers", ['reservoirsampling::ReservoirSampling'])
    prog = ctx.prog
    add = ctx.anchor(RS + "::add")
    new = ctx.anchor(RS + "::new")
    if add is None or new is None:
        return
    selfp = ("param", 1, "self")
    i_f = ("field", selfp, "i")
    k_f = ("field", selfp, "k")
    fill = mk("Lt", i_f, k_f)
    fill_len = mk("Lt", ("call", "std::vec::Vec::len", (("field", selfp, "reservoir"),)), k_f)   # equivalent guard: len = min(i, k)
    pe = PathEnumerator(add, prog, ctx.summ)
    n = 0
    probs_len, probs_idx, probs_val = [], [], []
    n_push = n_store = n_infeasible = 0
    _lem = []

    def gap_lemma():
        if not _lem:
            from .common import gap_window_lemma
            _lem.append(gap_window_lemma(ctx, bound="k"))
            ctx.ok("R18-length", RS + ":skip-window-invariant", _lem[0][1]) if _lem[0][0] else None
        return _lem[0]
    for p in pe.paths():
        if p.exit_kind != "return":
            continue
        n += 1
        facts = pe.path_facts(p)
        fd = {repr(c): t for c, t in facts}
        # induction hypothesis at entry of add: len(reservoir) == min(i, k) (its step is what R18-length decides below), so a
        # path that assumes `len < k` together with `i >= k`, or `len >= k` together with `i < k`, is infeasible
        _lk, _ik = fv(fd, fill_len), fv(fd, fill)
        if _lk is not None and _ik is not None and _lk != _ik:
            n_infeasible += 1
            continue
        if _lk is True and fv(fd, mk("Le", i_f, k_f)) is False:
            n_infeasible += 1
            continue
        if repr(fill) not in fd and repr(fill_len) in fd:
            fd[repr(fill)] = fd[repr(fill_len)]
        ws = [e for e in p.events if e["kind"] == "write" and e["root"] == SELF]
        iw = [e for e in ws if self_field(e) == "i"]
        if not (len(iw) == 1 and iw[0]["value"] == mk("Add", i_f, const(1))):
            probs_len.append("a path updates `i` %d times" % len(iw))
        pushes = [e for e in ws if self_field(e) == "reservoir" and e.get("name") == "push"]
        stores = [e for e in ws if self_field(e) == "reservoir" and e["how"] == "store"]
        other = [e for e in ws if self_field(e) == "reservoir" and e["how"] == "call" and e.get("name") != "push"]
        if other:
            probs_val.append("reservoir modified through %s" % other[0].get("name"))
        for e in pushes:
            n_push += 1
            if fv(fd, fill) is not True:
                probs_len.append("push outside the `i < k` branch")
            if e["args"][1][:2] != ("param", 2):
                probs_val.append("pushed value is %s, not the added item" % fmt(e["args"][1]))
        for e in stores:
            n_store += 1
            if e["value"][:2] != ("param", 2):
                probs_val.append("stored value is %s, not the added item" % fmt(e["value"]))
            if fv(fd, fill) is not False:
                probs_idx.append("indexed store on a path where `i < k` is not refuted (reservoir may be shorter than k)")
            # index term
            idx = None
            for b in [x for x in p.events if x["kind"] == "write" and x.get("name") in ("index_mut", "get_mut") and self_field(x) == "reservoir"]:
                idx = b["args"][1]
            if idx is None:
                probs_idx.append("store without a recognisable index")
                continue
            from .common import full_reservoir_facts
            fd_full = {repr(c_): t_ for c_, t_ in full_reservoir_facts(facts)}
            in_range = fv(fd, mk("Lt", idx, k_f)) is True or fv(fd_full, mk("Lt", idx, k_f)) is True
            if idx[0] == "call" and _nm(idx[1], "gen_range") and len(idx[2]) >= 2:
                r = idx[2][1]
                if r[0] == "adt" and r[1] == "std::ops::Range":
                    d = dict(r[3])
                    if d.get("start") == const(0) and d.get("end") == k_f:
                        in_range = True
            if not in_range:
                probs_idx.append("index %s is neither guarded by `< k` nor drawn from 0..k" % fmt(idx))
        if len(pushes) + len(stores) > 1:
            probs_val.append("more than one store per add")
        # len = min(i, k) needs every call in the fill phase to append: a path must either append or refute `i < k`
        if not pushes and fv(fd, fill) is None and fv(fd, mk("Le", ("field", selfp, "skip_until"), i_f)) is False and gap_lemma()[0]:
            pass        # inside a skip window: i < skip_until implies i >= k (inductive invariant of the type), so the fill phase is over
        elif not pushes and fv(fd, fill) is not False:
            probs_len.append("a path neither appends the item nor establishes i >= k (an item of the fill phase can be dropped, so len < min(n, k))")
    ctx.check(not probs_len and n_push >= 1, "R18-length", add.key, add, "%d paths: push only under i < k; i += 1 exactly once per call" % n,
              "; ".join(sorted(set(probs_len))[:3]) or "no push found")
    ctx.check(not probs_idx and n_store >= 2, "R18-index-in-range", add.key, add, "%d indexed stores, all with j < k on paths with i >= k" % n_store,
              "; ".join(sorted(set(probs_idx))[:3]) or "fewer than 2 indexed stores found (%d)" % n_store)
    ctx.check(not probs_val, "R18-only-stream-items", add.key, add, "every stored value is the `obj` argument (moved), at most one store per call; fill phase appends",
              "; ".join(sorted(set(probs_val))[:3]))

    # state kept across clear() breaks the invariants for the next stream: C19's clear rules on the sampler
    from .C19 import run_clear_rules
    run_clear_rules(ctx, only_adt=RS, floor=1)
    # ---- no panic ---------------------------------------------------------------------
    cf = config_fields(ctx, RS)
    ctx.check("k" in cf, "R18-config", RS + ":k", add, "k is never written outside the constructor", "field k is written by a method: the `k >= 1` invariant from new() is not stable")
    tbn = TermBuilder(new, prog)
    from ..guards import atomic_facts, int_bounds
    from .common import construction_blocks
    agg_bb = (construction_blocks(ctx, new, RS) or [None])[-1]
    lo = None
    if agg_bb is not None:
        lo, _ = int_bounds(atomic_facts(new, prog, agg_bb, tbn), ("param", 1, "k"))
    ctx.check(lo is not None and lo >= 1, "R18-k-positive", new.key, new, "new() establishes k >= %s before building the sampler" % lo, "new() does not establish k >= 1")
    allowed = {"Assert:Overflow:Mul", "Assert:Overflow:Add"}
    ps = panic_sites(add)
    for (bi, kind, detail, span) in ps:
        ctx.check(kind in allowed, "R18-no-panic", "%s:%s" % (add.key, kind), span,
                  "%s — arithmetic overflow check on usize counters (needs a stream of ~2^62 items)" % kind,
                  "add can panic: %s %s" % (kind, detail or ""))
    # with overflow checks compiled out (the thorough tier's release-like configuration) these assertions do not exist in the MIR
    ctx.floor("R18-no-panic", len(ps), 3 if prog.overflow_checks else 0, "arithmetic checks in add (k*4, i+1, i+g)")
    # gen_range ranges are non-empty: end is k, i or i+1 (on paths with i >= k >= 1), or a float literal range
    tb = TermBuilder(add, prog)
    for bi, t in add.calls():
        if t.callee_name() == "gen_range":
            r = tb.operand(t.args[1], bi, len(add.blocks[bi].stmts))
            okr = False
            if r[0] == "adt" and r[1] in ("std::ops::Range", "std::ops::RangeInclusive"):
                d = dict(r[3])
                s, e = d.get("start"), d.get("end")
                if s == const(0) and e in (k_f, i_f, mk("Add", i_f, const(1))):
                    # i >= k must be known here when the end is i
                    facts = {repr(c): tr for c, tr in atomic_facts(add, prog, bi, tb)}
                    okr = e != i_f or fv(facts, fill) is False or fv(facts, fill_len) is False
                if s and e and s[0] == "const" and e[0] == "const" and s[1] < e[1]:
                    okr = True
                    # a float draw that feeds ln(1 - x) must exclude 1.0 (ln 0 = -inf saturates the gap and `i + g` overflows)
                    if isinstance(e[1], float) and r[1] != "std::ops::Range":
                        okr = False
            elif r[0] == "call" and _nm(r[1], "RangeInclusive::new") and r[2][0] == const(0) and not isinstance(r[2][0][1], float) and r[2][1] in (i_f, k_f):
                okr = True
            ctx.check(okr, "R18-no-panic", "%s:gen_range(%s)" % (add.key, fmt(r)), t.span, "range %s is non-empty (k >= 1, i >= k on this path)" % fmt(r),
                      "gen_range over %s may be empty" % fmt(r))
    # ln() of a uniform draw must not see 0: ln 0 = -inf makes the gap saturate at usize::MAX and `i + gap` overflows (a panic with
    # overflow checks on). A draw from [0,1) is fine as ln(1 - x), a draw from (0,1] as ln(x); the other two combinations are not.
    from .common import all_writes
    from ..terms import subterms as _subterms

    def draw_interval(x):
        """(includes 0?, includes 1?) of a unit-interval draw, or None"""
        if x[0] != "call":
            return None
        nm_ = x[1].rsplit("::", 1)[-1]
        if nm_ == "gen_range" and len(x[2]) >= 2:
            r_ = x[2][1]
            if r_[0] == "adt" and r_[1] in ("std::ops::Range", "std::ops::RangeInclusive"):
                d_ = dict(r_[3])
                if d_.get("start") == const(0.0) and d_.get("end") == const(1.0):
                    return (True, r_[1] != "std::ops::Range")
            if r_[0] == "call" and _nm(r_[1], "RangeInclusive::new") and r_[2][0] == const(0.0) and r_[2][1] == const(1.0):
                return (True, True)
            return None
        if nm_ == "sample" and len(x[2]) >= 2 and x[2][1][0] == "adt":
            dist = x[2][1][1].rsplit("::", 1)[-1]
            return {"OpenClosed01": (False, True), "Open01": (False, False), "Standard": (True, False)}.get(dist)
        if nm_ == "gen" and len(x[2]) >= 1:
            return (True, False)
        return None
    n_ln = 0
    for w in all_writes(ctx, add):
        if w.get("value") is None:
            continue
        for lt in _subterms(w["value"]):
            if not (lt[0] == "op" and lt[1] == "ln" and len(lt[2]) == 1):
                continue
            a_ = lt[2][0]
            draws_ = [y for y in _subterms(a_) if draw_interval(y) is not None]
            if not draws_:
                continue
            n_ln += 1
            inc0, inc1 = draw_interval(draws_[0])
            if a_ == draws_[0]:
                zero = inc0
            elif a_ == mk("Sub", const(1.0), draws_[0]):
                zero = inc1
            else:
                zero = True
            ctx.check(not zero, "R18-no-panic", "%s:ln-of-draw" % add.key, w.get("span") or add, "ln(%s) never sees 0" % fmt(a_)[:80],
                      "ln(%s) can be ln(0) = -inf: the skip length saturates at usize::MAX and `i + gap` overflows — add() panics on one RNG outcome" % fmt(a_)[:120])
    ctx.floor("R18-no-panic:ln", n_ln, 1, "ln() of a uniform draw in the gap computation")
    for nm, exp in (("i", i_f), ("k", k_f), ("is_empty", mk("Eq", const(0), i_f)), ("reservoir", ("field", selfp, "reservoir"))):
        f = ctx.anchor(RS + "::" + nm)
        if f is not None:
            r = TermBuilder(f, prog).return_term()
            ctx.check(r == exp, "R18-getters", f.key, f, "%s() is %s" % (nm, fmt(exp)), "%s() is %s, expected %s" % (nm, fmt(r), fmt(exp)))
