"""C16 — T-Digest aggregates are exact regardless of compression (mass conservation in merge)."""
from ..paths import PathEnumerator
from ..guards import fv
from ..terms import TermBuilder, fmt, mk, const, subterms, elem_of
from ..terms import callee_is as _nm
from ..guards import atomic_facts
from .common import SELF, self_field

EXPLANATION = (
    "R16-fuse: Centroid::fuse returns {count: a.count + b.count, sum: a.sum + b.sum}. R16-insert: insert_weighted pushes "
    "{count: w, sum: x*w}, updates min <- min(min,x), max <- max(max,x); the public wrapper asserts finiteness first and returns "
    "before touching inner when w == 0. R16-conservation (linear use in merge): the sort buffer is centroids.drain(..) chained with "
    "backlog.drain(..) (both complete), each mapped to (mean, itself); the second buffer takes the second component of every "
    "entry; the fuse loop runs over buffer[1..] with current = buffer[0]; on every iteration the element is either fused into "
    "current or becomes the new current after the old one was pushed to result; current is pushed after the loop and "
    "self.centroids = result — no centroid is dropped on any path. R16-reads: count/sum sum the respective field over centroids "
    "(after R15-merge-before-read), mean = sum/count, min/max return the fields, is_empty == centroids.is_empty() && backlog.is_empty()."
    " insert_weighted also counts n_samples by exactly one. C19's clear rules are applied to TDigest/TDigestInner."
)
from .common import NEW_WRITERS_NOTE as _NWN
EXPLANATION = EXPLANATION + _NWN % "16"
NOT_DECIDED = "floating-point accumulation accuracy"
ASSUMPTIONS = ["sort_by permutes its slice", "Vec::drain(range) yields exactly the elements of the range", "collect gathers every item"]

TI = "tdigest::TDigestInner"
TD = "tdigest::TDigest"
CE = "tdigest::Centroid"


def insert_rules(ctx):
    prog = ctx.prog
    selfp = ("param", 1, "self")
    iw = ctx.anchor(TI + "::insert_weighted")
    _insert_weighted_inner(ctx, iw, selfp)


def run(ctx):
    from .common import check_new_writers
    check_new_writers(ctx, "R16-new-writers", ['tdigest::TDigest', 'tdigest::TDigestInner'])
    # a digest that keeps state across clear() answers for a mixture of the old and the new data: C19's clear rules for TDigest
    from .C19 import run_clear_rules
    run_clear_rules(ctx, only_adt="tdigest::TDigestInner", floor=1)
    run_clear_rules(ctx, only_adt="tdigest::TDigest", floor=1)
    prog = ctx.prog
    selfp = ("param", 1, "self")
    fu = prog.fn(CE + "::fuse")
    if fu is None:
        # the helper may have been inlined into merge: the fused centroid is then an aggregate built in the fuse loop, and
        # R16-conservation compares it with {count: a.count + b.count, sum: a.sum + b.sum} directly
        ctx.ok("R16-fuse", CE + "::fuse", "no Centroid::fuse helper in this tree: the fused centroid is checked where it is built (R16-conservation)", nontrivial=False)
    else:
        ctx.analysed_fns.add(fu.key)
        r = TermBuilder(fu, prog).return_term()
        a, b = ("param", 1, "self"), ("param", 2, "other")
        want = {"count": mk("Add", ("field", a, "count"), ("field", b, "count")), "sum": mk("Add", ("field", a, "sum"), ("field", b, "sum"))}
        ctx.check(r[0] == "adt" and dict(r[3]) == want, "R16-fuse", fu.key, fu, "fuse adds counts and sums", "Centroid::fuse is %s" % fmt(r))
    iw = ctx.anchor(TI + "::insert_weighted")
    _insert_weighted_inner(ctx, iw, selfp)
    pw = ctx.anchor(TD + "::insert_weighted")
    _rest(ctx, pw, selfp)


def _insert_weighted_inner(ctx, iw, selfp):
    prog = ctx.prog
    if iw is not None:
        pe = PathEnumerator(iw, prog, ctx.summ)
        x, w = ("param", 2, "x"), ("param", 3, "w")
        probs = []
        n = 0
        for p in pe.paths():
            if p.exit_kind != "return":
                continue
            n += 1
            ws = [e for e in p.events if e["kind"] == "write" and e["root"] == SELF and not e.get("via")]
            push = [e for e in ws if self_field(e) == "backlog" and e.get("name") == "push"]
            if not (len(push) == 1 and push[0]["args"][1][0] == "adt" and dict(push[0]["args"][1][3]) == {"count": w, "sum": mk("Mul", x, w)}):
                probs.append("backlog.push gets %s" % (fmt(push[0]["args"][1]) if push else "nothing"))
            mn = [e for e in ws if self_field(e) == "min"]
            mx = [e for e in ws if self_field(e) == "max"]
            if not (len(mn) == 1 and mn[0]["value"] == mk("min", ("field", selfp, "min"), x)):
                probs.append("min <- %s" % (fmt(mn[0]["value"]) if mn else "not updated"))
            if not (len(mx) == 1 and mx[0]["value"] == mk("max", ("field", selfp, "max"), x)):
                probs.append("max <- %s" % (fmt(mx[0]["value"]) if mx else "not updated"))
            ns = [e for e in ws if self_field(e) == "n_samples"]
            if not (len(ns) == 1 and ns[0]["value"] == mk("Add", ("field", selfp, "n_samples"), const(1))):
                probs.append("n_samples <- %s (the scale functions K2/K3 take it as the number of inserted samples: +1 per insert)" % (fmt(ns[0]["value"]) if ns else "not updated"))
        ctx.check(not probs and n >= 2, "R16-insert", iw.key, iw, "push {count: w, sum: x*w}; min/max folded with x (%d paths)" % n, "; ".join(sorted(set(probs))[:3]))


def _rest(ctx, pw, selfp):
    prog = ctx.prog
    if pw is not None:
        pe = PathEnumerator(pw, prog, ctx.summ)
        w = ("param", 3, "w")
        zero = mk("Eq", w, const(0.0))
        probs = []
        seen_zero = False
        for p in pe.paths():
            if p.exit_kind != "return":
                continue
            facts = {repr(c): t for c, t in pe.path_facts(p)}
            ws = [e for e in p.events if e["kind"] == "write" and e["root"] == SELF and e["how"] != "borrow"]
            z_ = fv(facts, zero)
            if z_ is None:
                # `if w > 0. { insert }` after the validation `w >= 0.`: not(0 < w) and 0 <= w is w == 0
                lt_, le_ = fv(facts, mk("Lt", const(0.0), w)), fv(facts, mk("Le", const(0.0), w))
                if lt_ is False and le_ is True:
                    z_ = True
                elif lt_ is True:
                    z_ = False
            if z_ is True:
                seen_zero = True
                if ws or any(e["kind"] == "call" and e["name"] == "borrow_mut" for e in p.events):
                    probs.append("zero-weight insert touches the digest")
            elif not any(e["kind"] == "call" and e["callee"] == TI + "::insert_weighted" for e in p.events):
                probs.append("a non-zero-weight path does not reach inner.insert_weighted")
            fin = [c for c, t in pe.path_facts(p) if c[0] == "op" and c[1] == "is_finite" and t]
            if len(fin) < 2:
                probs.append("finiteness of x and w is not asserted on a returning path")
        ctx.check(seen_zero and not probs, "R16-insert", pw.key, pw, "asserts finiteness, returns early for w == 0, otherwise forwards (x, w)", "; ".join(sorted(set(probs))[:3]) or "no `w == 0` early return")
    pi = ctx.anchor(TD + "::insert")
    if pi is not None:
        tbp = TermBuilder(pi, prog)
        c = [(bi, t) for bi, t in pi.calls() if t.callee() == TD + "::insert_weighted"]
        okp = len(c) == 1 and [tbp.operand(a, c[0][0], len(pi.blocks[c[0][0]].stmts)) for a in c[0][1].args][1:] == [("param", 2, "x"), const(1.0)]
        ctx.check(okp, "R16-insert", pi.key, pi, "insert(x) == insert_weighted(x, 1.0)", "insert does not forward (x, 1.0)")

    # ---- conservation -----------------------------------------------------------------------------
    mg = ctx.anchor(TI + "::merge")
    if mg is not None:
        conservation(ctx, mg)

    # ---- reads ----------------------------------------------------------------------------------------
    cents = ("field", selfp, "centroids")
    x = ("elem", ("dummy",))
    for nm, fld in (("count", "count"), ("sum", "sum")):
        f = ctx.anchor(TI + "::" + nm)
        if f is None:
            continue
        r = TermBuilder(f, prog).return_term()
        okr = r[0] == "call" and _nm(r[1], "Iterator::sum") and r[2][0][0] == "map" and r[2][0][1] == cents and elem_of(("map", ("dummy",), r[2][0][2])) == ("field", x, fld)
        ctx.check(okr, "R16-reads", f.key, f, "%s() sums c.%s over centroids" % (nm, fld), "%s() is %s" % (nm, fmt(r)))
    ie = ctx.anchor(TI + "::is_empty")
    if ie is not None:
        r = TermBuilder(ie, prog).return_term()
        e1 = ("call", "std::vec::Vec::is_empty", (cents,))
        e2 = ("call", "std::vec::Vec::is_empty", (("field", selfp, "backlog"),))
        alts = set(map(repr, r[1])) if r[0] == "phi" else {repr(r)}
        oke = alts == {repr(const(False)), repr(e2)} or r == mk("BitAnd", e1, e2)
        if not oke:
            # decision table over the returning paths: true exactly when both vectors are established empty
            pe_ = PathEnumerator(ie, prog, ctx.summ)
            rows = []
            for p in pe_.paths():
                if p.exit_kind != "return":
                    continue
                fd = {repr(c): t for c, t in pe_.path_facts(p)}
                def empty(v):
                    a = fv(fd, ("call", "std::vec::Vec::is_empty", (v,)))
                    return a if a is not None else fv(fd, mk("Eq", const(0), ("call", "std::vec::Vec::len", (v,))))
                ec, eb = empty(cents), empty(("field", selfp, "backlog"))
                if p.ret == "true":
                    rows.append(ec is True and eb is True)
                elif p.ret == "false":
                    rows.append(ec is False or eb is False)
                else:
                    rows.append(False)
            oke = len(rows) >= 2 and all(rows)
        ctx.check(oke, "R16-reads", ie.key, ie, "is_empty == centroids.is_empty() && backlog.is_empty()", "is_empty is %s" % fmt(r))
    inner = ("field", selfp, "inner")
    for nm in ("min", "max"):
        f = ctx.anchor(TD + "::" + nm)
        if f is not None:
            r = TermBuilder(f, prog).return_term()
            ctx.check(r == ("field", inner, nm), "R16-reads", f.key, f, "%s() returns the tracked extreme" % nm, "%s() is %s" % (nm, fmt(r)))
    f = ctx.anchor(TD + "::mean")
    if f is not None:
        r = TermBuilder(f, prog).return_term()
        ctx.check(r == mk("Div", ("call", TI + "::sum", (inner,)), ("call", TI + "::count", (inner,))), "R16-reads", f.key, f, "mean == sum / count", "mean is %s" % fmt(r))
    for nm in ("count", "sum"):
        f = ctx.anchor(TD + "::" + nm)
        if f is not None:
            r = TermBuilder(f, prog).return_term()
            fi_ = prog.fn(TI + "::" + nm)
            same_expr = False
            if fi_ is not None:       # the inner method's own expression, written out (closures compared by what they compute)
                from ..terms import apply_closure
                want_ = TermBuilder(fi_, prog, {1: inner}, 1).return_term()
                def canon(t_):
                    if t_[0] == "call" and len(t_[2]) == 1 and t_[2][0][0] == "map":
                        return (t_[1].split("::")[-1], t_[2][0][1], apply_closure(t_[2][0][2], (("elem", ("dummy",)),)))
                    return t_
                same_expr = canon(r) == canon(want_)
            ctx.check(r == ("call", TI + "::" + nm, (inner,)) or same_expr, "R16-reads", f.key, f, "%s() forwards to the merged inner digest" % nm, "%s() is %s" % (nm, fmt(r)))


def conservation(ctx, mg):
    prog = ctx.prog
    selfp = ("param", 1, "self")
    tb = TermBuilder(mg, prog)
    full = ("adt", "std::ops::RangeFull", "RangeFull", ())
    d_c = ("call", "std::vec::Vec::drain", (("field", selfp, "centroids"), full))
    d_b = ("call", "std::vec::Vec::drain", (("field", selfp, "backlog"), full))
    from .common import fuse_loop
    h = fuse_loop(mg, tb)
    if h is None:
        ctx.shape("R16-conservation", mg.key, mg, "merge has %d loops, none or several of which grow a cluster" % len(mg.loop_heads()))
        return
    body = mg.natural_loop(h)
    # the loop stream
    it = None
    for l in range(len(mg.locals)):
        if tb.defined_in_loop(l, h):
            upd = tb.loop_update(l, h)
            if upd == ("clobber", l):
                it = tb.loop_init(l, h)
    probs = []
    X1 = None
    rest_of_buffer = it is not None and it[0] == "call" and (
        (_nm(it[1], "Vec::drain") and it[2][1] == ("adt", "std::ops::RangeFrom", "RangeFrom", (("start", const(1)),)))
        or (_nm(it[1], "Iterator::skip") and len(it[2]) == 2 and it[2][1] == const(1)))     # buffer.into_iter().skip(1)
    took_first = it is not None and it[0] == "rest"      # `let mut rest = buffer.into_iter(); let first = rest.next()..; loop over rest`
    if not rest_of_buffer and not took_first:
        probs.append("the fuse loop does not run over buffer.drain(1..) / buffer.into_iter().skip(1): %s" % (fmt(it)[:160] if it else "?"))
    else:
        X1 = it[1] if took_first else it[2][0]
        # the projected buffer: materialised (`.map(|t| t.1).collect()`) or a lazy iterator over the sorted pairs (`.into_iter().map(|t| t.1)`)
        M1 = X1[2][0] if (X1[0] == "call" and _nm(X1[1], "collect") and X1[2][0][0] == "map") else (X1 if X1[0] == "map" else None)
        okx = M1 is not None
        if okx:
            src = M1[1]
            proj = elem_of(("map", ("dummy",), M1[2]))
            okx = proj == ("tfield", ("elem", ("dummy",)), 1)
            if okx:
                # the first buffer is consumed either by drain(..) or by into_iter()
                X0 = src[2][0] if (src[0] == "call" and _nm(src[1], "Vec::drain") and src[2][1] == full) else src
                okx = X0[0] == "call" and _nm(X0[1], "collect") and X0[2][0][0] == "map" and X0[2][0][1][0] == "chain" and {repr(X0[2][0][1][1]), repr(X0[2][0][1][2])} == {repr(d_c), repr(d_b)}
                if okx:
                    pair = elem_of(("map", ("dummy",), X0[2][0][2]))
                    e = ("elem", ("dummy",))
                    okx = pair[0] == "tuple" and len(pair[1]) == 2 and pair[1][1] == e
        if not okx and X1[0] == "chain" and {repr(X1[1]), repr(X1[2])} == {repr(("field", selfp, "centroids")), repr(("field", selfp, "backlog"))}:
            # the centroids themselves are sorted (no keyed copy): `let mut v = mem::take(&mut self.centroids); v.append(&mut self.backlog)`
            # — both sources must be emptied by that (take / being the source of append / drain), or their items would be counted twice
            from .common import all_writes
            emptied = {self_field(w_) for w_ in all_writes(ctx, mg) if w_["root"] == SELF and not w_.get("via")
                       and (w_.get("name") in ("take", "drain") or (w_.get("name") == "append" and w_.get("argi") == 1))}
            okx = {"centroids", "backlog"} <= emptied
        if not okx:
            probs.append("the sort buffers are not (mean, c) over centroids.drain(..) ++ backlog.drain(..) projected back to c: %s" % fmt(X1)[:200])
    # current
    nxt = elem_of(it) if it is not None else None
    cur_l = None
    for l in range(len(mg.locals)):
        if mg.local_ty(l) == "tdigest::Centroid" and tb.defined_in_loop(l, h) and mg.local_name(l):
            upd = tb.loop_update(l, h)
            if upd[0] == "phi" and nxt in upd[1]:
                cur_l = l
    if cur_l is None:
        probs.append("no loop-carried `current` centroid that can be replaced by the next element")
    else:
        lv = ("loopvar", cur_l, h)
        init = tb.loop_init(cur_l, h)
        upd = tb.loop_update(cur_l, h)
        # the first buffer element: buffer[0] next to drain(1..)/skip(1), or the item that next() took off the iterator
        first_ok = init == elem_of(X1) if (X1 is not None and took_first) else init == ("index", X1, const(0))
        if X1 is not None and not first_ok:
            probs.append("current starts as %s, expected buffer[0]" % fmt(init)[:120])
        fused = ("adt", CE, "Centroid", tuple(sorted({"sum": mk("Add", ("field", nxt, "sum"), ("field", lv, "sum")), "count": mk("Add", ("field", nxt, "count"), ("field", lv, "count"))}.items())))
        alts = [x for x in upd[1]] if upd[0] == "phi" else [upd]
        norm = []
        for a in alts:
            if a[0] == "adt":
                norm.append(("adt", a[1], a[2], tuple(sorted(a[3]))))
            elif a[0] == "call" and a[1] == CE + "::fuse" and set(map(repr, a[2])) == {repr(lv), repr(nxt)}:
                norm.append(fused)
            else:
                norm.append(a)
        if set(map(repr, norm)) != {repr(fused), repr(nxt)}:
            probs.append("current is updated with %s; expected fuse(current, next) or next" % fmt(upd)[:200])
        # pushes
        pushes = []
        for bi, t in mg.calls():
            if t.callee_name() == "push":
                a = [tb.operand(z, bi, len(mg.blocks[bi].stmts)) for z in t.args]
                pushes.append((bi, a))
        inloop = [(b, a) for b, a in pushes if b in body]
        # pushes after the fuse loop (pushes of earlier loops that build the sort buffer are not the result vector's)
        others = set().union(*[mg.natural_loop(hh) for hh in mg.loop_heads() if hh != h]) if len(mg.loop_heads()) > 1 else set()
        after = [(b, a) for b, a in pushes if b not in body and b not in others and mg.dominates(h, b)]
        res_l = None
        if len(inloop) != 1 or len(after) != 1:
            probs.append("%d pushes inside the loop and %d after it (expected 1 and 1)" % (len(inloop), len(after)))
        else:
            (bi_in, a_in), (bi_af, a_af) = inloop[0], after[0]
            if a_in[1] != lv or a_af[1] != lv:
                probs.append("pushed values are %s / %s, expected the current centroid" % (fmt(a_in[1])[:60], fmt(a_af[1])[:60]))
            direct = False
            if a_in[0][0] == "loopvar" and a_af[0] == a_in[0]:
                res_l = a_in[0][1]
            elif a_in[0] == ("field", selfp, "centroids") and a_af[0] == a_in[0]:
                # the result is built in `self.centroids` itself, whose old items were moved out before (drain / take)
                from .common import all_writes as _aw
                direct = any(self_field(w_) == "centroids" and w_.get("name") in ("drain", "take") and not w_.get("via") for w_ in _aw(ctx, mg))
                if not direct:
                    probs.append("the result is pushed onto self.centroids, which still holds the old centroids")
            else:
                probs.append("the two pushes do not target the same result vector")
            # the definition `current = next` must be dominated by the in-loop push; the fused definition must not be
            for (b, i, kind, obj) in mg.defs().get(cur_l, []):
                if b not in body:
                    continue
                t_def = tb._def_term(cur_l, (b, i, kind, obj))
                is_next = t_def == nxt
                dom_by_push = mg.dominates(bi_in, b) and bi_in in body
                if is_next and not dom_by_push:
                    probs.append("`current = next` is reachable without pushing the old current first (a centroid is dropped)")
                if not is_next and dom_by_push:
                    probs.append("the fused centroid is also pushed (a centroid is duplicated)")
            # after the loop: push post-dominates the loop exit
            exits = [s for b in body for s in mg.succs(b) if s not in body and mg.can_return(s)]
            pd = mg.postdominators()
            if not all(bi_af in pd.get(e, set()) for e in exits):
                probs.append("the final current centroid is not pushed on every path after the loop")
        # final store
        st = [w for w in __import__("pdsa.rules.common", fromlist=["all_writes"]).all_writes(ctx, mg) if self_field(w) == "centroids" and w["how"] == "store"]
        if len(inloop) == 1 and len(after) == 1 and direct:
            pass
        elif not (len(st) == 1 and res_l is not None and (st[0].get("value_local") == res_l or any(s == ("clobber", res_l) or s == ("loopvar", res_l, h) for s in subterms(st[0]["value"])))):
            probs.append("self.centroids is not replaced by the result vector")
    ctx.check(not probs, "R16-conservation", mg.key, mg, "every drained centroid is fused into or becomes `current`, every `current` is pushed exactly once, centroids = result",
              "; ".join(probs[:3]))
