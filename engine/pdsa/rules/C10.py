"""C10 — CMSHeap: no belief-panics on sketch estimates; both indexes stay paired; capacity; ordering."""
from ..paths import PathEnumerator
from ..guards import fv
from ..terms import TermBuilder, fmt, mk, const, subterms, contains
from ..terms import callee_is as _nm
from ..guards import panic_sites, atomic_facts, int_bounds
from .common import SELF, self_field, config_fields

EXPLANATION = (
    "R10-no-belief-panic: every explicit panic site of CMSHeap::add is either allow-listed with its discharge or violates the rule "
    "that no assertion may bound the count-min estimate from above or by equality (the sketch only guarantees a lower bound). "
    "R10-paired: on every returning path of add the operations on `tree` and `obj2count` pair up (same key, same count) so both "
    "indexes hold the same key set. R10-capacity: a net-growing path exists only under `obj2count.len() < k`, and with room a new key "
    "is always inserted. R10-order: TreeEntry::cmp is lexicographic on (n, obj); the displaced entry is tree.iter().next() (the "
    "minimum) under the guard estimate > min.n. R10-sketch-always-fed: cms.add(&item) is executed on every path before anything else."
    " The known-key arm increments the exact counter by exactly one and re-keys the tree entry from n-1 to n. Because displacement decisions use the sketch's return value, C02's rules are run as well."
)
from .common import NEW_WRITERS_NOTE as _NWN
EXPLANATION = EXPLANATION + _NWN % "10"
NOT_DECIDED = "the ranking-quality clause (an element is missing only if k others are within the sketch error E)"
ASSUMPTIONS = ["BTreeSet::iter().next() yields the minimum under Ord", "HashMap/BTreeSet insert/remove act on exactly the given key"]

CH = "topk::cmsheap::CMSHeap"
TE = "topk::cmsheap::TreeEntry"


def mentions_estimate(t):
    return contains(t, lambda s: s[0] == "call" and _nm(s[1], "CountMinSketch::add"))


def run(ctx):
    from .common import check_new_writers
    check_new_writers(ctx, "R10-new-writers", ['topk::cmsheap::CMSHeap'])
    prog = ctx.prog
    add = ctx.anchor(CH + "::add")
    new = ctx.anchor(CH + "::new")
    if add is None or new is None:
        return
    tb = TermBuilder(add, prog)
    selfp = ("param", 1, "self")

    # ---- R10-no-belief-panic --------------------------------------------------------
    ps = panic_sites(add)
    n_checked = 0
    for (bi, kind, detail, span) in ps:
        n_checked += 1
        if kind.startswith("Assert:Overflow"):
            ctx.ok("R10-no-belief-panic", "%s:%s@%s" % (add.key, kind, "arith"), "usize counter arithmetic check (needs ~2^64 adds / n >= 1 on the Occupied arm)", nontrivial=False)
            continue
        facts = atomic_facts(add, prog, bi, tb)
        est = [(c, t) for c, t in facts if mentions_estimate(c)]
        if kind in ("unwrap", "expect"):
            # allowed only as `tree.iter().next().unwrap()` on the branch where size < k is false
            arg = tb.operand(add.blocks[bi].term.args[0], bi, len(add.blocks[bi].stmts))
            full = fv(dict((repr(c), t) for c, t in facts), mk("Lt", ("call", "std::collections::HashMap::len", (("field", selfp, "obj2count"),)), ("field", selfp, "k")))
            is_min = arg[0] == "adt" and arg[2] == "Some" and arg[3][0][1] == ("elem", ("field", selfp, "tree"))
            ctx.check(is_min and full is False, "R10-no-belief-panic", "%s:unwrap" % add.key, span,
                      "tree.iter().next().unwrap() only when size >= k >= 1 (tree non-empty by R10-paired)",
                      "unwrap on %s is not discharged by `size >= k`" % fmt(arg))
            continue
        # the asserted condition is the test that branches into the panic block: the LAST dominating fact (earlier facts mentioning the
        # estimate are ordinary branch conditions of add, not beliefs)
        if kind in ("debug_assert", "assert") and facts:
            c_last, t_last = facts[-1]
            if not mentions_estimate(c_last):
                # `debug_assert!(self.obj2count.remove(&min.obj).is_some())` with min = the tree's first entry: the pairing invariant
                # (R10-paired: tree and map hold the same keys) discharges it
                okp = (t_last is False and c_last[0] == "call" and _nm(c_last[1], "is_some") and c_last[2] and c_last[2][0][0] == "call"
                       and _nm(c_last[2][0][1], "remove") and c_last[2][0][2][0] == ("field", selfp, "obj2count")
                       and ("elem", ("field", selfp, "tree")) in subterms(c_last[2][0][2][1]))
                ctx.check(okp, "R10-no-belief-panic", "%s:%s(structure)" % (add.key, kind), span,
                          "assertion `the evicted minimum was in the map` is the pairing invariant of R10-paired",
                          "add contains an assertion (%s) on %s that no rule discharges" % (kind, fmt(c_last)[:160]))
                continue
            est = [(c_last, t_last)]
        if est:
            c, t = est[-1]
            # the panic is reached when the asserted condition is false: asserted = not(fact)
            asserted = c if not t else ("op", "Not", (c,))
            verdict = classify_belief(c, t)
            ctx.check(verdict == "lower-bound", "R10-no-belief-panic", "%s:%s(estimate)" % (add.key, kind), span,
                      "assertion only bounds the sketch estimate from below",
                      "`%s!` asserts %s on the count-min estimate (%s): a count-min sketch only guarantees estimate >= true count, so with any collision the first sighting of an element has estimate > 1 and add() panics in builds with this assertion enabled"
                      % (kind, "equality" if verdict == "equality" else "an upper bound", fmt(asserted)))
        else:
            ctx.fail("R10-no-belief-panic", "%s:%s" % (add.key, kind), span, "add contains an explicit panic site (%s %s) that is not allow-listed" % (kind, detail or ""))
    ctx.floor("R10-no-belief-panic", n_checked, 3, "may-panic sites examined in add")

    heap_pairing_rules(ctx, add)
    # the estimate used for displacement decisions is the sketch's return value: C10's guarantee is relative to the
    # count-min contract (never below the true count, equal to query_point afterwards), decided by C02's rules
    from . import C02
    C02.run(ctx)
    order_and_config_rules(ctx, add, new)


def heap_pairing_rules(ctx, add):
    """R10-paired / R10-capacity / R10-sketch-always-fed (also the premise of C11's `CMSHeap holds at most k items`)"""
    prog = ctx.prog
    selfp = ("param", 1, "self")
    # ---- paths ----------------------------------------------------------------------------
    pe = PathEnumerator(add, prog, ctx.summ)
    size_lt_k = mk("Lt", ("call", "std::collections::HashMap::len", (("field", selfp, "obj2count"),)), ("field", selfp, "k"))
    probs_pair, probs_cap, probs_fed = [], [], []
    n = 0
    pats = set()
    for p in pe.paths():
        if p.exit_kind != "return":
            continue
        n += 1
        facts = {repr(c): t for c, t in pe.path_facts(p)}
        evs = [e for e in p.events if e["kind"] == "write" and e["root"] == SELF and e["how"] != "borrow"]
        calls = [e for e in p.events if e["kind"] == "call"]
        if not calls or not any(_nm(c["callee"], "CountMinSketch::add") for c in calls[:4]):
            probs_fed.append("a path does not start by feeding the sketch")
        tree_ins = [e for e in evs if self_field(e) == "tree" and e.get("name") == "insert"]
        tree_rem = [e for e in evs if self_field(e) == "tree" and e.get("name") == "remove"]
        # `tree.pop_first()` removes the smallest entry: the same as remove(tree.iter().next())
        for e in evs:
            if self_field(e) == "tree" and e.get("name") == "pop_first":
                e2 = dict(e)
                e2["name"] = "remove"
                e2["args"] = list(e["args"][:1]) + [("elem", ("field", selfp, "tree"))]
                tree_rem.append(e2)
                evs[evs.index(e)] = e2
        map_ins = [e for e in evs if self_field(e) == "obj2count" and e.get("name") == "insert"]
        map_rem = [e for e in evs if self_field(e) == "obj2count" and e.get("name") == "remove"]
        map_upd = [e for e in evs if self_field(e) == "obj2count" and e["how"] == "store"]
        other = [e for e in evs if self_field(e) in ("tree", "obj2count") and e not in tree_ins + tree_rem + map_ins + map_rem + map_upd]
        if other:
            probs_pair.append("unrecognised operation %s on %s" % (other[0].get("name"), self_field(other[0])))
        growth_tree = len(tree_ins) - len(tree_rem)
        growth_map = len(map_ins) - len(map_rem)
        pat = (len(tree_ins), len(tree_rem), len(map_ins), len(map_rem), len(map_upd))
        pats.add(pat)
        if growth_tree != growth_map:
            probs_pair.append("a path changes |tree| by %+d but |obj2count| by %+d" % (growth_tree, growth_map))
        if pat == (1, 1, 0, 0, 1):
            # known key: the exact counter goes up by exactly one and the tree entry is re-keyed from n-1 to n
            val = map_upd[0]["value"]
            cell = [x for x in val[2] if x != const(1)] if (val[0] == "op" and val[1] == "Add" and len(val[2]) == 2 and const(1) in val[2]) else None
            if not cell:
                probs_pair.append("known key: the exact counter is set to %s, expected old + 1 (the tree entry is looked up under new - 1, so any other step leaves a stale entry behind)" % fmt(val)[:160])
            else:
                cell = cell[0]
                rem_e, ins_e = tree_rem[0]["args"][1], tree_ins[0]["args"][1]
                rn = dict(rem_e[3]).get("n") if rem_e[0] == "adt" else None
                inn = dict(ins_e[3]).get("n") if ins_e[0] == "adt" else None
                # `cell` is the counter as read BEFORE the increment (reads after the store are forwarded to the stored value)
                from ..terms import linear_eq
                if rn is None or not (rn == cell or linear_eq(rn, cell)):
                    probs_pair.append("known key: the tree entry removed has count %s, expected the counter before the increment" % (fmt(rn) if rn else "?"))
                if inn is None or not (inn == val or linear_eq(inn, val)):
                    probs_pair.append("known key: the tree entry re-inserted has count %s, expected the new counter" % (fmt(inn) if inn else "?"))
        if pat not in ((1, 1, 0, 0, 1), (1, 0, 1, 0, 0), (1, 1, 1, 1, 0), (0, 0, 0, 0, 0)):
            probs_pair.append("operation pattern tree(+%d -%d) map(+%d -%d upd %d) is none of the four documented cases" % pat)
        # counts agree
        if pat == (1, 0, 1, 0, 0):
            from ..guards import resolve_phi
            tv = tree_ins[0]["args"][1]
            mv = map_ins[0]["args"][1] if len(map_ins[0]["args"]) == 2 else map_ins[0]["args"][-1]
            tn = dict(tv[3]).get("n") if tv[0] == "adt" else None
            tn = resolve_phi(tn, facts) if tn is not None else None
            mv = resolve_phi(mv, facts)
            if tn != mv:
                probs_pair.append("new key: tree count %s but map count %s" % (fmt(tn) if tn else "?", fmt(mv)))
            if fv(facts, size_lt_k) is not True:
                probs_cap.append("a key is added without the guard size < k")
        if pat == (1, 1, 1, 1, 0):
            from ..guards import resolve_phi
            tv = tree_ins[0]["args"][1]
            tn = dict(tv[3]).get("n") if tv[0] == "adt" else None
            mv = map_ins[0]["args"][-1]
            # `let initial = if size < k { 1 } else { ..; estimate }`: on this path the join is the value its test selects
            tn = resolve_phi(tn, facts) if tn is not None else None
            mv = resolve_phi(mv, facts)
            if tn != mv or not mentions_estimate(mv):
                probs_pair.append("displacement: tree count %s / map count %s are not both the sketch estimate" % (fmt(tn) if tn else "?", fmt(mv)))
            rem_t = tree_rem[0]["args"][1]
            if not (rem_t[0] == "elem" and rem_t[1] == ("field", selfp, "tree")):
                probs_pair.append("displaced tree entry is %s, not tree.iter().next()" % fmt(rem_t))
            if map_rem[0]["args"][1] != ("field", rem_t, "obj"):
                probs_pair.append("map entry removed is not the displaced entry's key")
            guard = mk("Lt", ("field", rem_t, "n"), mv)
            if fv(facts, guard) is not True:
                probs_pair.append("displacement is not guarded by estimate > min.n")
        if growth_map > 0 and fv(facts, size_lt_k) is not True:
            probs_cap.append("a net-growing path is not guarded by size < k")
        if fv(facts, size_lt_k) is True and pat not in ((1, 0, 1, 0, 0),):
            if pat != (1, 1, 0, 0, 1):
                probs_cap.append("with room, a new key is not inserted (pattern %s)" % (pat,))
    ctx.check(not probs_pair and len(pats) >= 4, "R10-paired", add.key, add, "%d paths, patterns %s: tree and obj2count change together with equal counts" % (n, sorted(pats)),
              "; ".join(sorted(set(probs_pair))[:3]) or "only %d of the 4 documented cases found" % len(pats))
    ctx.check(not probs_cap, "R10-capacity", add.key, add, "growth only under obj2count.len() < k; with room a new key is always inserted", "; ".join(sorted(set(probs_cap))[:3]))
    ctx.check(not probs_fed, "R10-sketch-always-fed", add.key, add, "cms.add(&item) precedes every branch", "; ".join(sorted(set(probs_fed))[:2]))



def order_and_config_rules(ctx, add, new):
    prog = ctx.prog
    # ---- k >= 1, config ---------------------------------------------------------------------
    cf = config_fields(ctx, CH)
    ctx.check("k" in cf, "R10-config", CH + ":k", add, "k is never written outside the constructor", "field k is written by a method")
    from .common import construction_blocks
    agg_bb = (construction_blocks(ctx, new, CH) or [None])[-1]
    lo = int_bounds(atomic_facts(new, prog, agg_bb), ("param", 1, "k"))[0] if agg_bb is not None else None
    ctx.check(lo is not None and lo >= 1, "R10-k-positive", new.key, new, "new() establishes k >= %s" % lo, "new() does not establish k >= 1")

    # ---- R10-order --------------------------------------------------------------------------------
    cmpf = ctx.anchor("<%s as std::cmp::Ord>::cmp" % TE)
    if cmpf is not None:
        okc, why = lexicographic_cmp(ctx, cmpf)
        ctx.check(okc, "R10-order", cmpf.key, cmpf, "TreeEntry::cmp compares n first and obj only when n is equal", "TreeEntry::cmp is not lexicographic on (n, obj): %s" % why)


def lexicographic_cmp(ctx, cmpf):
    """Decision table of TreeEntry::cmp over its returning paths: n equal -> the result of comparing obj; self.n > other.n ->
    Greater; self.n < other.n -> Less. The relation of the two counters on a path is read from the arm of `self.n.cmp(&other.n)`
    taken, or from the ==/</> tests taken; the `then_with` combinator is the same table by its library semantics."""
    from ..terms import apply_closure
    prog = ctx.prog
    sp, op_ = ("param", 1, "self"), ("param", 2, "other")
    sn, on = ("field", sp, "n"), ("field", op_, "n")
    so, oo = ("field", sp, "obj"), ("field", op_, "obj")
    tbc = TermBuilder(cmpf, prog)
    r = tbc.return_term()
    if r[0] == "call" and _nm(r[1], "then_with") and len(r[2]) == 2 and r[2][0][0] == "call" and r[2][0][1].endswith("::cmp") and r[2][0][2] == (sn, on):
        inner = apply_closure(r[2][1], ())
        ok = inner[0] == "call" and inner[1].endswith("::cmp") and inner[2] == (so, oo)
        return ok, "then_with continues with %s" % fmt(inner)[:80]
    n_cmp = ("call", "discriminant", (("call", "<usize as std::cmp::Ord>::cmp", (sn, on)),))
    pe = PathEnumerator(cmpf, prog, ctx.summ)
    seen = set()
    for p in pe.paths():
        if p.exit_kind != "return":
            continue
        rel = None
        for e in p.events:
            if e["kind"] == "branch" and e.get("cond") == n_cmp and isinstance(e["value"], int):
                rel = {255: "lt", -1: "lt", 0: "eq", 1: "gt"}.get(e["value"])
        if rel is None:
            fd = {repr(c): t for c, t in pe.path_facts(p)}
            eq, gt, lt = fv(fd, mk("Eq", sn, on)), fv(fd, mk("Lt", on, sn)), fv(fd, mk("Lt", sn, on))
            if eq is True:
                rel = "eq"
            elif gt is True or (eq is False and lt is False):
                rel = "gt"
            elif lt is True or (eq is False and gt is False):
                rel = "lt"
        if rel is None:
            return False, "a returning path does not determine how self.n relates to other.n"
        # the value returned on this path: last definition of _0 along it
        rv = None
        for b in reversed(p.blocks):
            blk = cmpf.blocks[b]
            for si in range(len(blk.stmts) - 1, -1, -1):
                st = blk.stmts[si]
                if st.k == "assign" and st.place.is_local() and st.place.local == 0:
                    rv = tbc.rvalue(st.rv, b, si)
                    break
            if rv is None and blk.term.k == "call" and blk.term.dest is not None and blk.term.dest.is_local() and blk.term.dest.local == 0:
                rv = tbc.call_term(blk.term, b)
            if rv is not None:
                break
        want = {"eq": None, "gt": "Greater", "lt": "Less"}[rel]
        if rel == "eq":
            if not (rv is not None and rv[0] == "call" and rv[1].endswith("::cmp") and rv[2] == (so, oo)):
                return False, "equal counters return %s instead of comparing obj" % (fmt(rv) if rv else "?")
        elif not (rv is not None and rv[0] == "adt" and rv[2] == want):
            return False, "self.n %s other.n returns %s" % ("<" if rel == "lt" else ">", fmt(rv) if rv else "?")
        seen.add(rel)
    return seen == {"eq", "gt", "lt"}, "cases covered: %s" % sorted(seen)


def classify_belief(cond, truth):
    """cond holds with `truth` on the way INTO the panic; asserted property is its negation.
    Returns 'equality' | 'upper-bound' | 'lower-bound'."""
    if cond[0] != "op":
        return "equality"
    name, args = cond[1], cond[2]
    if name in ("Eq", "Ne"):
        return "equality"
    if name in ("Lt", "Le") and len(args) == 2:
        a, b = args
        est_left = mentions_estimate(a)
        # fact: (a < b) == truth leads to panic  => asserted: (a < b) == not truth
        asserted_lt = not truth
        # asserted a < b with estimate on the left: upper bound; estimate on the right: lower bound
        if asserted_lt:
            return "upper-bound" if est_left else "lower-bound"
        # asserted !(a < b), i.e. a >= b: estimate left => lower bound
        return "lower-bound" if est_left else "upper-bound"
    return "equality"
