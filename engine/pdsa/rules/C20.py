"""C20 — HyperLogLog survives serialisation and rejects invalid serialised state."""
from ..terms import TermBuilder, fmt, mk, const, subterms
from ..terms import callee_is as _nm
from ..guards import atomic_facts, int_bounds, has_eq_fact, panic_sites
from ..paths import PathEnumerator
from .common import self_field_term

EXPLANATION = (
    "R20-guarded-construction: every Aggregate of ADT HyperLogLog in the crate (constructor, derived clone, deserialiser, any new "
    "site) — unless it only copies the fields of an existing HyperLogLog — must be dominated by branch facts establishing "
    "lo <= b <= hi and registers.len() == 1 << b for the operand terms flowing into `b` and `registers`, with [lo,hi] read from the "
    "constructor's own assert (sibling agreement, no frozen numbers); the same obligation applies to calls of the panicking "
    "constructor from deserialisation code. R20-no-panic-on-input: no explicit panic/unwrap/expect/assert or arithmetic Assert "
    "terminator in the bodies reachable from <HyperLogLog as Deserialize>::deserialize. R20-field-tables: names given to "
    "serialize_field, the FIELDS const, the visit_str arms and the non-phantom struct fields coincide; each serialised value is the "
    "field of the same name; each map key's value flows into the aggregate field of the same name; duplicate and missing keys reach Err."
    ' R20-field-flow: the value read under map key X (Field variant derived from visit_str) flows into the aggregate field named X.'
)
from .common import NEW_WRITERS_NOTE as _NWN
EXPLANATION = EXPLANATION + _NWN % "20"
NOT_DECIDED = "equality of values through an arbitrary serde data format (delegated to Vec<u8>/usize/hasher impls)"
ASSUMPTIONS = ["serde drives visit_map/visit_str only through the Visitor trait; Vec<u8>, usize and the hasher round-trip through their own serde impls"]

HLL = "hyperloglog::HyperLogLog"
CTOR = HLL + "::with_registers_and_hash"


def aggregate_sites(prog, adt):
    out = []
    for f in prog.fns.values():
        for bi, blk in enumerate(f.blocks):
            if blk.cleanup:
                continue
            for si, st in enumerate(blk.stmts):
                if st.k == "assign" and st.rv.k == "aggregate" and st.rv.j.get("adt") == adt:
                    out.append((f, bi, si, st))
    return out


def _plain(t):
    """spellings that do not change the value on the paths where they are used: the `?`-payload of `checked_op(..).ok_or_else(..)` is
    the result of the operation (the path continues only when it did not overflow); an integer cast of a shift amount is the amount
    (the obligation separately requires the amount itself to be range-checked)"""
    if not isinstance(t, tuple) or not t:
        return t
    t = tuple(_plain(x) if isinstance(x, tuple) else x for x in t)
    if t[0] == "field" and t[2] == "0" and t[1][0] == "variant" and t[1][2] == "Continue" and t[1][1][0] == "call" and _nm(t[1][1][1], "Try>::branch"):
        inner = t[1][1][2][0]
        if inner[0] == "call" and inner[1].rsplit("::", 1)[-1] in ("ok_or_else", "ok_or") and inner[2] and inner[2][0][0] == "call" and inner[2][0][1] == "checked":
            return inner[2][0][2][0]
    if t[0] == "op" and t[1] in ("Shl", "Shr") and len(t[2]) == 2 and t[2][1][0] == "cast" and t[2][1][1] in ("u32", "u64", "usize"):
        return mk(t[1], t[2][0], t[2][1][2])
    return t


def site_obligation(ctx, f, bi, B, R, tb):
    facts = [(_plain(c), t) for c, t in atomic_facts(f, ctx.prog, bi, tb)]
    lo, hi = int_bounds(facts, B)
    len_ok = has_eq_fact(facts, mk("Shl", const(1), B), ("call", "std::vec::Vec::len", (R,))) or \
        has_eq_fact(facts, mk("Shl", const(1), B), ("call", "len", (R,)))
    return lo, hi, len_ok, facts


def run(ctx):
    from .common import check_new_writers
    check_new_writers(ctx, "R20-new-writers", ['hyperloglog::HyperLogLog'])
    prog = ctx.prog
    ctor = ctx.anchor(CTOR)
    if ctor is None or ctx.anchor_adt(HLL) is None:
        return
    sites = aggregate_sites(prog, HLL)
    ctx.floor("R20-guarded-construction", len(sites), 3, "construction sites of HyperLogLog (constructor, derived clone, deserialiser)")

    # constructor's own range
    ctor_site = [s for s in sites if s[0].key == CTOR]
    ref = None
    if len(ctor_site) != 1:
        ctx.fail("anchor-missing", "R20:ctor-aggregate", ctor, "constructor has %d HyperLogLog aggregates, expected 1" % len(ctor_site))
    else:
        f, bi, si, st = ctor_site[0]
        tb = TermBuilder(f, prog)
        agg = tb.rvalue(st.rv, bi, si)
        d = dict(agg[3])
        lo, hi, len_ok, _ = site_obligation(ctx, f, bi, d["b"], d["registers"], tb)
        if ctx.check(lo is not None and hi is not None and len_ok, "R20-guarded-construction", CTOR, st.span,
                     "constructor guards: %s <= b <= %s and registers.len() == 1 << b dominate the aggregate" % (lo, hi),
                     "constructor does not establish a closed range for b and registers.len() == 1 << b before building the value (lo=%s hi=%s len=%s)" % (lo, hi, len_ok)):
            ref = (lo, hi)
        # failing edge must diverge: constructor returns Self, so any non-returning alternative is a panic; nothing more to check
    for (f, bi, si, st) in sites:
        if f.key == CTOR:
            continue
        ctx.analysed_fns.add(f.key)
        tb = TermBuilder(f, prog)
        agg = tb.rvalue(st.rv, bi, si)
        d = dict(agg[3])
        # exempt: all state fields are projections of one existing HyperLogLog (derived Clone / struct update)
        srcs = set()
        copy = True
        for name in ("registers", "b", "buildhasher"):
            t = d.get(name)
            if t is not None and t[0] == "field" and t[2] == name:
                srcs.add(repr(t[1]))
            else:
                copy = False
        if copy and len(srcs) == 1:
            ctx.ok("R20-guarded-construction", f.key, "copies registers/b/buildhasher of an existing HyperLogLog (invariant inherited)")
            continue
        lo, hi, len_ok, facts = site_obligation(ctx, f, bi, d["b"], d["registers"], tb)
        okr = ref is not None and lo is not None and hi is not None and lo >= ref[0] and hi <= ref[1]
        ctx.check(okr and len_ok, "R20-guarded-construction", f.key, st.span,
                  "guards %s <= b <= %s (constructor: %s) and registers.len() == 1 << b dominate the aggregate" % (lo, hi, ref),
                  "HyperLogLog { .. } is built from unvalidated parts: b range established = [%s, %s] (constructor requires %s), registers.len() == 1 << b established = %s"
                  % (lo, hi, "[%s, %s]" % ref if ref else "?", len_ok))
        if f.local_ty(0).startswith("std::result::Result<") and okr and len_ok:
            # a fallible builder of sketches from serialised parts must also ACCEPT every state the constructor can produce,
            # otherwise a sketch with a legal precision does not survive serialisation (`(MIN_B..MAX_B)` for `(MIN_B..=MAX_B)`)
            ctx.check((lo, hi) == tuple(ref), "R20-accepts-valid", f.key, st.span,
                      "accepts exactly the precisions the constructor accepts: %s <= b <= %s" % (lo, hi),
                      "rejects valid state: b is accepted only in [%s, %s] but the constructor produces sketches with b in [%s, %s] — such a sketch cannot be deserialised again"
                      % (lo, hi, ref[0], ref[1]))

    # ---- deserialisation-reachable code -------------------------------------------------
    de = None
    for f in prog.fns.values():
        if f.impl_self == HLL and f.impl_trait == "serde::Deserialize" and f.name == "deserialize":
            de = f
    if de is None:
        ctx.fail("anchor-missing", "R20:deserialize", None, "<HyperLogLog as Deserialize>::deserialize not found")
        return
    reach = {de.key}
    for f in prog.fns.values():
        if "::deserialize::" in f.key or "::deserialize::" in (f.impl_self or ""):
            if f.file() == de.file():
                reach.add(f.key)
    work = list(reach)
    while work:
        k = work.pop()
        f = prog.fn(k)
        if f is None:
            continue
        for c in prog.closures_of(k):
            if c.key not in reach:
                reach.add(c.key)
                work.append(c.key)
        for bi, t in f.calls():
            if t.callee_is_local() and t.callee() in prog.fns and t.callee() not in reach:
                reach.add(t.callee())
                work.append(t.callee())
    ctx.floor("R20-no-panic-on-input", len(reach), 6, "function bodies reachable from Deserialize::deserialize")
    n_sites = 0
    for k in sorted(reach):
        f = prog.fn(k)
        ctx.analysed_fns.add(k)
        if k == CTOR:
            continue  # its asserts are dead when every caller establishes the guards (checked below)
        ps = []
        for site in panic_sites(f):
            (bi, kind, detail, span) = site
            if kind in ("Assert:Overflow:Shl", "Assert:Overflow:Shr"):
                # discharged when the dominating facts bound the shift amount below the bit width
                tbf = TermBuilder(f, prog)
                amt = tbf.operand(f.blocks[bi].term.cond, bi, len(f.blocks[bi].stmts))
                if amt[0] == "op" and amt[1] == "Lt" and amt[2][1][0] == "const":
                    lo_, hi_ = int_bounds(atomic_facts(f, prog, bi, tbf), amt[2][0])
                    if hi_ is not None and hi_ < amt[2][1][1]:
                        ctx.ok("R20-no-panic-on-input", "%s:%s" % (k, kind), "shift-amount check is dead: dominating facts give %s <= %s < %s" % (fmt(amt[2][0]), hi_, amt[2][1][1]))
                        continue
            if kind == "Assert:Overflow:Sub":
                # (1 << k) - 1 cannot underflow: a set bit is at least 1
                tbf = TermBuilder(f, prog)
                blk_ = f.blocks[bi]
                dead = False
                for si_ in range(len(blk_.stmts) - 1, -1, -1):
                    st_ = blk_.stmts[si_]
                    if st_.k == "assign" and st_.rv.k == "binop" and st_.rv.j["op"] == "SubWithOverflow":
                        a_, b_ = (tbf.operand(o_, bi, si_) for o_ in st_.rv.ops)
                        dead = a_[0] == "op" and a_[1] == "Shl" and a_[2][0] == const(1) and b_ == const(1)
                        break
                if dead:
                    ctx.ok("R20-no-panic-on-input", "%s:%s" % (k, kind), "(1 << k) - 1 cannot underflow")
                    continue
            ps.append(site)
        for (bi, kind, detail, span) in ps:
            n_sites += 1
            ctx.fail("R20-no-panic-on-input", "%s:%s" % (k, kind), span, "deserialisation code can panic (%s%s) instead of returning Err" % (kind, " " + detail if detail else ""))
        if not ps:
            ctx.ok("R20-no-panic-on-input", k, "no explicit panic / unwrap / expect / assert / arithmetic check in this body")
        # calls of the panicking constructor need the guards
        for bi, t in f.calls():
            if t.callee() == CTOR:
                tb = TermBuilder(f, prog)
                a = [tb.operand(x, bi, len(f.blocks[bi].stmts)) for x in t.args]
                lo, hi, len_ok, _ = site_obligation(ctx, f, bi, a[0], a[1], tb)
                okr = ref is not None and lo is not None and hi is not None and lo >= ref[0] and hi <= ref[1]
                ctx.check(okr and len_ok, "R20-guarded-construction", "%s:call-ctor" % k, t.span,
                          "constructor called with validated parts (its asserts are dead here)",
                          "deserialisation calls the panicking constructor without first establishing its preconditions (b in [%s,%s], len ok=%s)" % (lo, hi, len_ok))

    # ---- R20-field-tables ----------------------------------------------------------------
    ser = None
    for f in prog.fns.values():
        if f.impl_self == HLL and f.impl_trait == "serde::Serialize" and f.name == "serialize":
            ser = f
    if ser is None:
        ctx.fail("anchor-missing", "R20:serialize", None, "<HyperLogLog as Serialize>::serialize not found")
        return
    ctx.analysed_fns.add(ser.key)
    tb = TermBuilder(ser, prog)
    ser_fields = {}
    for bi, t in ser.calls():
        if t.callee_name() == "serialize_field":
            a = [tb.operand(x, bi, len(ser.blocks[bi].stmts)) for x in t.args]
            if a[1][0] == "const":
                ser_fields[a[1][1]] = a[2]
    struct_fields = [fl["name"] for fl in prog.adts[HLL]["variants"][0]["fields"] if "PhantomData" not in fl["ty_s"]]
    fields_const = None
    # the field table is whatever `deserialize_struct(name, FIELDS, visitor)` is given — a const inside deserialize() or a module one
    tbd_ = TermBuilder(de, prog)
    for bi_, t_ in de.calls():
        if t_.callee_name() == "deserialize_struct" and len(t_.args) >= 3:
            a_ = tbd_.operand(t_.args[-2], bi_, len(de.blocks[bi_].stmts))
            for x_ in subterms(a_):
                if x_[0] == "namedconst" and x_[1] in prog.consts:
                    fields_const = prog.const_value(x_[1])
    if fields_const is None:
        for k, c in prog.consts.items():
            if c["name"] == "FIELDS" and k.startswith("hyperloglog::serde"):
                fields_const = prog.const_value(k)
    visit_str = [f for f in prog.fns.values() if f.name == "visit_str" and f.key in reach]
    arms = set()
    for f in visit_str:
        tbv = TermBuilder(f, prog)
        for bi, t in f.calls():
            # string comparisons `v == "registers"` appear as <str as PartialEq>::eq(v, const)
            if t.callee_name() == "eq":
                for x in t.args:
                    tx = tbv.operand(x, bi, len(f.blocks[bi].stmts))
                    if tx[0] == "const" and isinstance(tx[1], str):
                        arms.add(tx[1])
    ctx.check(set(ser_fields) == set(struct_fields), "R20-field-tables", "serialize:names", ser,
              "serialize_field names %s == non-phantom struct fields" % sorted(ser_fields),
              "serialised field names %s differ from the struct's state fields %s" % (sorted(ser_fields), sorted(struct_fields)))
    for name, t in sorted(ser_fields.items()):
        ctx.check(self_field_term(t) == name, "R20-field-tables", "serialize:%s" % name, ser,
                  "key \"%s\" carries self.%s" % (name, name), "key \"%s\" carries %s, not self.%s" % (name, fmt(t), name))
    ctx.check(fields_const is not None and set(fields_const) == set(struct_fields), "R20-field-tables", "deserialize:FIELDS", de,
              "FIELDS == %s" % sorted(struct_fields), "FIELDS const %s differs from the struct's state fields %s" % (fields_const, sorted(struct_fields)))
    ctx.check(arms == set(struct_fields), "R20-field-tables", "deserialize:visit_str", visit_str[0] if visit_str else de,
              "visit_str accepts exactly %s" % sorted(arms), "visit_str arms %s differ from the struct's state fields %s" % (sorted(arms), sorted(struct_fields)))
    # R20-field-flow: the value read under map key X flows into the aggregate field named X
    field_flow(ctx, reach, struct_fields)
    # duplicate / missing keys reach Err: every field name appears in a duplicate_field and a missing_field call on an Err path
    vm = [f for f in prog.fns.values() if f.name == "visit_map" and f.key in reach]
    dup, miss = set(), set()
    for f in vm:
        for g in [f] + prog.closures_of(f.key):
            tbg = TermBuilder(g, prog)
            for bi, t in g.calls():
                if t.callee_name() in ("duplicate_field", "missing_field"):
                    a = tbg.operand(t.args[0], bi, len(g.blocks[bi].stmts))
                    for x in (a[1] if a[0] == "phi" else (a,)):     # one call site may name the field through a `match key { .. }`
                        if x[0] == "const":
                            (dup if t.callee_name() == "duplicate_field" else miss).add(x[1])
    ctx.check(dup == set(struct_fields) and miss == set(struct_fields), "R20-field-tables", "deserialize:dup-missing", vm[0] if vm else de,
              "duplicate and missing keys are reported for each of %s" % sorted(struct_fields),
              "duplicate_field covers %s, missing_field covers %s; expected both to cover %s" % (sorted(dup), sorted(miss), sorted(struct_fields)))


def field_flow(ctx, reach, struct_fields):
    from ..paths import PathEnumerator
    from ..terms import subterms
    prog = ctx.prog
    vs = [f for f in prog.fns.values() if f.name == "visit_str" and f.key in reach]
    vm = [f for f in prog.fns.values() if f.name == "visit_map" and f.key in reach]
    if not vs or not vm:
        ctx.fail("anchor-missing", "R20-field-flow", None, "visit_str / visit_map of the deserialiser not found")
        return
    # string -> Field variant (from the paths of visit_str)
    s2v = {}
    pe = PathEnumerator(vs[0], prog, ctx.summ)
    for p in pe.paths():
        if p.exit_kind != "return" or p.ret != "Ok" or not p.ret_payload or p.ret_payload[0] != "term":
            continue
        t = p.ret_payload[1]
        if t[0] != "adt":
            continue
        strs = [c for c, tr in pe.path_facts(p) if tr and c[0] == "op" and c[1] == "Eq" and any(x[0] == "const" and isinstance(x[1], str) for x in c[2])]
        if strs:
            name = [x[1] for x in strs[-1][2] if x[0] == "const" and isinstance(x[1], str)][0]
            s2v[name] = t[2]
    field_adt = None
    for k, a in prog.adts.items():
        if k.endswith("deserialize::Field"):
            field_adt = a
    if field_adt is None or set(s2v) != set(struct_fields):
        ctx.fail("R20-field-flow", "visit_str:mapping", vs[0], "cannot derive the key -> Field variant table from visit_str (got %s)" % s2v)
        return
    vidx = {v["name"]: i for i, v in enumerate(field_adt["variants"])}
    v2s = {vidx[v]: s for s, v in s2v.items()}
    f = vm[0]
    tb = TermBuilder(f, prog)
    # next_value sites and the variant under which each is reached
    site_variant = {}
    for bi, t in f.calls():
        if t.callee_name() == "next_value":
            facts = atomic_facts(f, prog, bi, tb)
            vi = [c[2][1][1] for c, tr in facts if tr and c[0] == "op" and c[1] == "Eq" and c[2][0][0] == "call" and c[2][0][1] == "discriminant" and c[2][1][0] == "const"
                  and "Field" in f.local_ty(_discr_local(f, bi, c)) ] if False else []
            # simpler: find the dominating switch on a local of type Field
            for d in sorted(f.dominators().get(bi, ())):
                tt = f.blocks[d].term
                if tt.k == "switch" and tt.discr.place is not None and tt.discr.place.is_local():
                    dl = tt.discr.place.local
                    src = None
                    is_field = False
                    for st in f.blocks[d].stmts:
                        if st.k == "assign" and st.place.is_local() and st.place.local == dl and st.rv.k == "discr":
                            src = st.rv.place.local
                            ty = f.local_ty(src)
                            # `match key { Field::X => .. }` on a Field local, or `match next_key()? { Some(Field::X) => .. }` on the
                            # payload of an Option<Field>
                            is_field = (ty.endswith("Field") and not st.rv.place.proj) or \
                                       (ty.startswith("std::option::Option<") and ty.rstrip(">").endswith("Field") and bool(st.rv.place.proj))
                    if src is not None and is_field:
                        from ..guards import reach_without
                        for v, b in tt.j["arms"]:
                            others = [b2 for v2, b2 in tt.j["arms"] if b2 != b] + [tt.j["otherwise"]]
                            if reach_without(f, b, bi, d) and not any(reach_without(f, o, bi, d) for o in others):
                                site_variant[bi] = int(v)
    ctx.floor("R20-field-flow", len(site_variant), 3, "next_value sites under a Field arm")
    # aggregate operands
    agg = None
    for bi, blk in enumerate(f.blocks):
        for si, st in enumerate(blk.stmts):
            if st.k == "assign" and st.rv.k == "aggregate" and st.rv.j.get("adt") == HLL:
                agg = tb.rvalue(st.rv, bi, si)
    if agg is None:
        return  # construction goes through the constructor: arguments are checked at the call site instead
    for name, term in agg[3]:
        if name not in struct_fields:
            continue
        sites = set()
        seen = set()
        work = [term]
        while work:
            t = work.pop()
            for s_ in subterms(t):
                if s_[0] == "loopvar" and (s_[1], s_[2]) not in seen:
                    seen.add((s_[1], s_[2]))
                    work.append(tb.loop_update(s_[1], s_[2]))
                if s_[0] == "call" and _nm(s_[1], "next_value"):
                    for a in s_[2]:
                        if a[0] == "site":
                            sites.add(a[2])
        got = sorted({v2s.get(site_variant.get(b)) for b in sites})
        ctx.check(got == [name], "R20-field-flow", "visit_map:%s" % name, f, "field `%s` receives the value read under key \"%s\"" % (name, name),
                  "field `%s` of the deserialised sketch receives the value read under key(s) %s" % (name, got))


def _discr_local(f, bi, c):
    return 0
