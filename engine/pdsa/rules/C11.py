"""C11 — memory is bounded by the configuration, not by the stream."""
from ..paths import PathEnumerator
from ..terms import TermBuilder, fmt, mk, const, subterms
from ..terms import callee_is as _nm
from ..dims import Dims, DimError, dfmt
from .common import SELF, self_field, methods_of, has_self_receiver, all_writes, config_fields, rng_fields

EXPLANATION = (
    "R11-dimension: units-of-measure inference inside helpers::all_zero_intvector — with element_bits: bit/elem, len: elem, "
    "size_of::<T>()*8: bit/block, the term passed as block_len to IntVector::block_with_fill must have dimension `block`; call "
    "sites must pass (fingerprint/remainder width, slot count). R11-alloc-terms: every allocation of a state field (constructor "
    "and clear) has the documented size term over configuration only: Bloom with_capacity(m); CMS w*d; HLL 1<<b; cuckoo "
    "n_buckets*bucketsize slots of l_fingerprint bits; quotient 1<<bits_quotient slots of bits_remainder bits plus three bitsets; "
    "clear re-allocates with the field's own len/element_bits. R11-growth-census: every growth operation (push/insert/extend) on "
    "a container field outside constructors is guarded by a capacity test against a configuration field, paired with a removal on "
    "the same path, followed by a size check that drains it, or the documented LossyCounter exception."
    " TDigest's centroid bound is a function of the scale functions' n, so n_samples must be counted +1 per insert (R16-insert) and merge must fuse under the scale-function criterion (C04's R04-merge-criterion / R04-sorted-input / R04-scale-clamp / R04-backlog-policy); CMSHeap's `paired with a removal` bound relies on C10's paired-update rule — both are applied here. The LossyCounter exception is only as good as its pruning, so C09's R09-prune / R09-n (every window end filters the table, on every path, and n advances per add) are applied here as well."
)
NOT_DECIDED = "that TDigest's centroids number O(delta) after a merge (C04's numeric clause); allocator slack and Vec growth factors"
ASSUMPTIONS = ["IntVector::block_with_fill(bits, n, v) allocates n storage blocks", "FixedBitSet::with_capacity(n) allocates n bits", "vec![x; n] allocates n elements"]

GROW = {"push", "insert", "extend", "push_back", "push_front", "append", "extend_from_slice", "or_insert", "or_insert_with"}
SHRINK = {"remove", "pop", "pop_front", "pop_back", "drain", "clear", "truncate", "retain", "swap_remove", "pop_first", "pop_last", "take"}


def run(ctx):
    prog = ctx.prog
    # ---- R11-dimension ----------------------------------------------------------------------
    az = ctx.anchor("helpers::all_zero_intvector")
    if az is not None:
        tb = TermBuilder(az, prog)
        site = [(bi, t) for bi, t in az.calls() if t.callee_name() == "block_with_fill"]
        if len(site) != 1:
            ctx.shape("R11-dimension", az.key, az, "expected exactly one IntVector::block_with_fill call, found %d" % len(site))
        else:
            bi, t = site[0]
            a = [tb.operand(x, bi, len(az.blocks[bi].stmts)) for x in t.args]

            def seed(x):
                if x[0] == "param" and x[1] == 1:
                    return {"bit": 1, "elem": -1}
                if x[0] == "param" and x[1] == 2:
                    return {"elem": 1}
                if x[0] == "call" and x[1] == "size_of":
                    return {"byte": 1, "block": -1}
                if x[0] == "call" and _nm(x[1], "nbits"):
                    return {"bit": 1, "block": -1}
                return None
            try:
                d = Dims(seed).of(a[1])
                ctx.check(d == {"block": 1} and a[0][:2] == ("param", 1), "R11-dimension", az.key, t.span,
                          "block count %s has dimension `block`" % fmt(a[1])[:120],
                          "all_zero_intvector passes a block count of dimension %s (expected `block`): %s — for 8-bit slots that is 64x the documented table size"
                          % (dfmt(d), fmt(a[1])[:200]))
            except DimError as e:
                ctx.fail("R11-dimension", az.key, t.span, "dimension error in the block-count computation: %s" % e)
        # call sites
        n_sites = 0
        for f in prog.fns.values():
            tbf = None
            for bi, t in f.calls():
                if t.callee() == az.key:
                    n_sites += 1
                    tbf = tbf or TermBuilder(f, prog)
                    a = [tbf.operand(x, bi, len(f.blocks[bi].stmts)) for x in t.args]
                    width_ok = a[0][0] == "param" and (a[0][2] or "").startswith(("l_fingerprint", "bits_remainder"))
                    slots = a[1]
                    slots_ok = (slots == mk("Mul", ("param", 2, "bucketsize"), ("param", 3, "n_buckets"))) or (slots == mk("Shl", const(1), ("param", 1, "bits_quotient")))
                    # re-allocation of a packed table with its own shape: (its slot width, its slot count)
                    selfp_ = ("param", 1, "self")
                    if slots[0] == "call" and _nm(slots[1], "IntVec>::len") and len(slots[2]) == 1 and slots[2][0][0] == "field" and slots[2][0][1] == selfp_:
                        fld_t = slots[2][0]
                        own_width = a[0] == ("call", "<succinct::IntVector as succinct::IntVec>::element_bits", (fld_t,)) or a[0] == ("field", selfp_, "l_fingerprint")
                        if own_width:
                            width_ok = slots_ok = True
                    ctx.check(width_ok and slots_ok, "R11-dimension", "%s:call-site" % f.key, t.span,
                              "all_zero_intvector(%s, %s): (bits per slot, slot count)" % (fmt(a[0]), fmt(a[1])),
                              "all_zero_intvector is called with (%s, %s): expected (bits per slot, number of slots)" % (fmt(a[0]), fmt(a[1])))
        ctx.floor("R11-dimension", n_sites, 2, "call sites of all_zero_intvector")

    # ---- R11-alloc-terms -------------------------------------------------------------------------------
    P = lambda n, name: ("param", n, name)
    S = lambda f: ("field", ("param", 1, "self"), f)
    expected_ctor = {
        "filters::bloomfilter::BloomFilter::with_params_and_hash": {"bs": ("call", "fixedbitset::FixedBitSet::with_capacity", (P(1, "m"),))},
        "countminsketch::CountMinSketch::with_params_and_hasher": {"table": ("call", "std::vec::from_elem", (("call", "num_traits::Zero::zero", ()), mk("Mul", P(1, "w"), P(2, "d"))))},
        "filters::cuckoofilter::CuckooFilter::with_params_and_hash": {"table": ("call", "helpers::all_zero_intvector", (P(4, "l_fingerprint"), mk("Mul", P(2, "bucketsize"), P(3, "n_buckets"))))},
        "filters::quotientfilter::QuotientFilter::with_params_and_hash": {
            "is_occupied": ("call", "fixedbitset::FixedBitSet::with_capacity", (mk("Shl", const(1), P(1, "bits_quotient")),)),
            "is_continuation": ("call", "fixedbitset::FixedBitSet::with_capacity", (mk("Shl", const(1), P(1, "bits_quotient")),)),
            "is_shifted": ("call", "fixedbitset::FixedBitSet::with_capacity", (mk("Shl", const(1), P(1, "bits_quotient")),)),
            "remainders": ("call", "helpers::all_zero_intvector", (P(2, "bits_remainder"), mk("Shl", const(1), P(1, "bits_quotient")))),
        },
    }
    n_alloc = 0
    for key, fields in sorted(expected_ctor.items()):
        f = ctx.anchor(key)
        if f is None:
            continue
        r = TermBuilder(f, prog).return_term()
        d = dict(r[3]) if r[0] == "adt" else {}
        for fld, want in sorted(fields.items()):
            n_alloc += 1
            got = d.get(fld)
            ctx.check(got == want, "R11-alloc-terms", "%s:%s" % (key, fld), f, "%s allocated as %s" % (fld, fmt(want)),
                      "state field `%s` is allocated as %s, documented size is %s" % (fld, fmt(got) if got else "?", fmt(want)))
    hw = ctx.anchor("hyperloglog::HyperLogLog::with_hash")
    if hw is not None:
        n_alloc += 1
        r = TermBuilder(hw, prog).return_term()
        want = ("call", "std::vec::from_elem", (const(0), mk("Shl", const(1), P(1, "b"))))
        ctx.check(r[0] == "call" and _nm(r[1], "with_registers_and_hash") and r[2][1] == want and r[2][0] == P(1, "b"), "R11-alloc-terms", hw.key + ":registers", hw,
                  "registers allocated as vec![0; 1 << b]", "HyperLogLog::with_hash allocates %s, documented size is 2^b registers" % fmt(r))
    expected_clear = {
        "<filters::cuckoofilter::CuckooFilter as filters::Filter[T]>::clear": ("table", lambda v: v[0] == "call" and v[1].rsplit("::", 1)[-1] == "with_fill" and v[2][0][0] == "call" and _nm(v[2][0][1], "element_bits") and v[2][0][2] == (S("table"),) and v[2][1][0] == "call" and v[2][1][1].rsplit("::", 1)[-1] == "len" and v[2][1][2] == (S("table"),)),
        "<filters::quotientfilter::QuotientFilter as filters::Filter[T]>::clear": ("remainders", lambda v: v[0] == "call" and v[1].rsplit("::", 1)[-1] == "with_fill" and v[2][0][2] == (S("remainders"),) and v[2][1][2] == (S("remainders"),) and _nm(v[2][0][1], "element_bits") and v[2][1][1].rsplit("::", 1)[-1] == "len"),
        "countminsketch::CountMinSketch::clear": ("table", lambda v: v[0] == "call" and _nm(v[1], "from_elem") and v[2][1] == mk("Mul", S("w"), S("d"))),
        "hyperloglog::HyperLogLog::clear": ("registers", lambda v: v[0] == "call" and _nm(v[1], "from_elem") and v[2][1] == ("call", "std::vec::Vec::len", (S("registers"),))),
    }
    for key, (fld, pred) in sorted(expected_clear.items()):
        f = ctx.anchor(key)
        if f is None:
            continue
        ws = [w for w in all_writes(ctx, f) if self_field(w) == fld and w["how"] == "store" and len(w["path"]) == 1]
        n_alloc += 1
        okc = len(ws) == 1 and ws[0]["value"] is not None and pred(ws[0]["value"])
        if not okc and len(ws) == 1 and ws[0]["value"] is not None:
            # the same helper the constructor uses, fed with the table's own shape: all_zero_intvector(slot width, self.<fld>.len())
            v_ = ws[0]["value"]
            if v_[0] == "call" and v_[1] == "helpers::all_zero_intvector" and len(v_[2]) == 2 and v_[2][1] == ("call", "<succinct::IntVector as succinct::IntVec>::len", (S(fld),)) \
                    and (v_[2][0] == ("call", "<succinct::IntVector as succinct::IntVec>::element_bits", (S(fld),)) or v_[2][0] == S("l_fingerprint")):
                okc = True
        if not ws:
            from .common import elementwise_reset
            if elementwise_reset(ctx, f, fld) or any(w.get("name") == "clear" and self_field(w) == fld for w in all_writes(ctx, f)):
                ctx.ok("R11-alloc-terms", "%s:%s" % (key, fld), "clear resets `%s` in place (no re-allocation)" % fld)
                continue
        ctx.check(okc, "R11-alloc-terms", "%s:%s" % (key, fld), f, "clear re-allocates `%s` with its own size (%s)" % (fld, fmt(ws[0]["value"]) if ws else "?"),
                  "clear() re-allocates `%s` as %s — not the size it was constructed with" % (fld, fmt(ws[0]["value"]) if ws else "<no store>"))
    ctx.floor("R11-alloc-terms", n_alloc, 12, "allocation sites of state fields")

    # ---- R11-growth-census -----------------------------------------------------------------------------------
    structures = ["reservoirsampling::ReservoirSampling", "topk::cmsheap::CMSHeap", "tdigest::TDigestInner", "tdigest::TDigest", "topk::lossycounter::LossyCounter",
                  "filters::bloomfilter::BloomFilter", "filters::cuckoofilter::CuckooFilter", "filters::quotientfilter::QuotientFilter",
                  "countminsketch::CountMinSketch", "hyperloglog::HyperLogLog"]
    n_growth = 0
    for adt in structures:
        if ctx.anchor_adt(adt) is None:
            continue
        cf = set(config_fields(ctx, adt))
        for m in sorted(methods_of(prog, adt), key=lambda f: f.key):
            if not has_self_receiver(m) or m.impl_derived or m.name == "clear":
                continue
            grows = [w for w in all_writes(ctx, m) if w["root"] == SELF and w["how"] == "call" and w.get("name") in GROW and not w.get("via") and not is_drain(w)]
            if not grows:
                continue
            ctx.analysed_fns.add(m.key)
            pe = PathEnumerator(m, prog, ctx.summ)
            verdicts = {}
            for p in pe.paths():
                if p.exit_kind != "return":
                    continue
                facts = pe.path_facts(p)
                evs = p.events
                for i, e in enumerate(evs):
                    if e["kind"] != "write" or e["root"] != SELF or e["how"] != "call" or e.get("name") not in GROW or e.get("via") or is_drain(e):
                        continue
                    fld = self_field(e)
                    site = (fld, e["bb"])
                    v = classify_growth(ctx, adt, m, fld, e, i, evs, facts, cf)
                    verdicts.setdefault(site, []).append((v, e))
            for (fld, bb), vs in sorted(verdicts.items()):
                n_growth += 1
                bad = [x for x in vs if x[0][0] is None]
                e = vs[0][1]
                kinds = sorted({x[0][0] for x in vs if x[0][0]})
                ctx.check(not bad, "R11-growth-census", "%s:%s.%s" % (m.key, fld, e.get("name")), e["span"],
                          "growth of `%s` is bounded on all %d paths: %s" % (fld, len(vs), ", ".join(kinds)),
                          "`%s.%s(..)` in %s can grow the structure with the stream: %s" % (fld, e.get("name"), m.name, bad[0][0][1] if bad else ""))
    ctx.floor("R11-growth-census", n_growth, 5, "growth sites on container fields")
    # TDigest: the centroid bound is a function of the scale function's n = number of samples, which must be counted +1 per insert
    from .C16 import insert_rules
    insert_rules(ctx)
    # ... and of the merge criterion: one unit of the scale function per cluster, weights normalised by the total weight (C04's structure rules)
    from .C04 import structure_rules
    structure_rules(ctx)
    # CMSHeap: `paired with a removal` bounds the heap only if the removal hits the entry it is meant to replace:
    # that is C10's paired-update rule (same key, counter stepped by exactly one, re-keyed n-1 -> n)
    ha = ctx.anchor("topk::cmsheap::CMSHeap::add")
    if ha is not None:
        from .C10 import heap_pairing_rules
        heap_pairing_rules(ctx, ha)
    # LossyCounter.known is the documented exception of the growth census: it may grow within a window because every window end
    # prunes it — which is exactly C09's R09-prune (with R09-n: the window position advances on every add)
    from ..framework import RuleFilter
    from . import C09
    C09.run(RuleFilter(ctx, {"R09-prune", "R09-n"}))


def is_drain(w):
    """the event empties the container: drain(..), mem::take(&mut c), or being the SOURCE of `other.append(&mut c)`"""
    nm = w.get("name")
    return nm in ("drain", "take") or (nm == "append" and w.get("argi") == 1)


def classify_growth(ctx, adt, m, fld, e, i, evs, facts, cf):
    """(kind, explanation) — kind None means unbounded"""
    selfp = ("param", 1, "self")
    # (d) documented exception
    if adt == "topk::lossycounter::LossyCounter" and fld == "known":
        return ("documented-exception(LossyCounter.known, pruned every window: R09-prune)", "")
    # orderings established on the path, in both spellings: a < b  ==  !(b <= a),  a <= b  ==  !(b < a)
    strict, weak = [], []
    for c, truth in facts:
        if c[0] == "op" and c[1] in ("Lt", "Le") and len(c[2]) == 2:
            a, b = c[2]
            if c[1] == "Lt":
                (strict if truth else weak).append((a, b) if truth else (b, a))
            else:
                (weak if truth else strict).append((a, b) if truth else (b, a))
    # (a) capacity guard: a fact  size(container) < config  or  counter < config
    for a, b in strict:
        if b[0] == "field" and b[1][:2] == ("param", 1) and b[2] in cf:
            return ("guard %s < %s" % (fmt(a), fmt(b)), "")
    # (b) paired with a removal from the same container on the same path
    for e2 in evs:
        if e2["kind"] == "write" and e2["root"] == SELF and self_field(e2) == fld and e2.get("name") in SHRINK:
            return ("paired with %s.%s on the same path" % (fld, e2.get("name")), "")
    # in-place update of an existing entry (re-keying): insert after remove handled above
    # (c) size check after the push that drains: on this path either len <= max fact, or a later drain of the same field
    for b, a in weak:      # len(container) <= config
        if a[0] == "field" and a[1][:2] == ("param", 1) and a[2] in cf and b[0] == "call" and b[1].rsplit("::", 1)[-1] == "len" and b[2] and b[2][0] == ("field", selfp, fld):
            return ("size check %s <= %s after the push" % (fmt(b), fmt(a)), "")
    for e2 in evs[i + 1:]:
        if e2["kind"] == "write" and e2["root"] == SELF and self_field(e2) == fld and is_drain(e2):
            return ("drained by merge() when the backlog exceeds its limit", "")
        if e2["kind"] == "call" and e2["local"]:
            # a must-call of a function that drains the field whenever it is non-empty (its only non-draining
            # alternative is the early return on `is_empty()`, infeasible right after a push)
            alts = ctx.summ.alternatives(e2["callee"]) or []
            drains = [a for a in alts if any(is_drain(w) and w["path"][-1:] == (fld,) for w in a[0])]
            if drains and len(alts) - len(drains) <= 1:
                return ("size check followed by %s(), which drains `%s`" % (e2["name"], fld), "")
    return (None, "no capacity guard against a configuration field, no removal on the same path, no draining size check")
