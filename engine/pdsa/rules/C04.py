"""C04 — T-Digest rank accuracy and bounded size: only the structure of the merge criterion is decided."""
from ..terms import TermBuilder, fmt, mk, const, subterms, elem_of, apply_closure
from ..terms import callee_is as _nm
from ..guards import atomic_facts, fv
from ..intervals import float_facts_to_env
from .common import SELF, self_field

EXPLANATION = (
    "The numeric bounds of C04 (rank error <= c*W(delta, n), at most delta+3 centroids) are NOT decided as such. Decided is the "
    "structure both bounds presuppose. R04-merge-criterion: merge() sorts the buffer by centroid mean (sort key = mean(c), "
    "comparison partial_cmp on the keys), accumulates S = sum of counts, and fuses greedily under exactly "
    "`q_0 + (w_cur + w_next)/S <= q_limit` with q_limit = f_inv(f(q_0, n) + 1, n) recomputed from the NEW q_0 = q_0 + w_cur/S "
    "whenever a cluster is closed, n = self.n_samples and one and the same scale function for f and f_inv (a cluster spans at most "
    "one unit of the scale function). R04-scale-width: the symbolic derivative of each scale function's f (term taken from the MIR, "
    "helpers inlined), evaluated at q = 1/2 as an exact rational function of delta, ln n, ln delta, pi, is the reciprocal of the "
    "maximal cluster width W that the property states for K0..K3 (2/delta, pi/delta, (ln(n/delta)+6)/delta, (2 ln(n/delta)+10.5)/delta). "
    "R04-scale-inverse: f_inv(f(q, n), n) rewrites to q on every branch (exp/ln, sin/asin). R04-scale-clamp: every scale function "
    "clamps q to [0,1] before use and its constructor asserts delta > 1 and finite. R04-inputs: n_samples counts +1 per insert and is "
    "reset by clear; the backlog is merged when it exceeds max_backlog_size and before every read (C15's read rules); merge conserves "
    "mass (C16/C19 rules applied to the digest)."
)
from .common import NEW_WRITERS_NOTE as _NWN
EXPLANATION = EXPLANATION + _NWN % "04"
NOT_DECIDED = ("the bounds themselves: that a greedy merge under the one-unit criterion yields rank error within a small multiple of W and at most "
               "delta+3 centroids — the paper's argument from the criterion and the scale function, which the rules above only supply the premises of; "
               "floating-point rounding")
ASSUMPTIONS = ["real-number semantics for f64", "clamps min(1).max(0) are the identity on (0,1); the width is maximal at the median for K1..K3 (concavity of 1/k')"]

TI = "tdigest::TDigestInner"


def run(ctx):
    from .common import check_new_writers
    check_new_writers(ctx, "R04-new-writers", ['tdigest::TDigest', 'tdigest::TDigestInner'])
    mg = structure_rules(ctx)
    if mg is None:
        return
    # inputs of the criterion
    from .C16 import insert_rules, conservation
    insert_rules(ctx)
    conservation(ctx, mg)
    from .C19 import run_clear_rules
    run_clear_rules(ctx, only_adt=TI, floor=1)
    # the bounds are stated for what quantile()/cdf() answer: both must see every inserted value
    from .C15 import read_rules
    read_rules(ctx)


def structure_rules(ctx):
    """R04-merge-criterion, R04-sorted-input, R04-scale-clamp, R04-backlog-policy; returns the merge fn (None: anchor missing).
    Also run by C11: the O(delta + max_backlog_size) centroid bound presupposes the same structure."""
    prog = ctx.prog
    mg = ctx.anchor(TI + "::merge")
    if mg is None:
        return None
    selfp = ("param", 1, "self")
    tb = TermBuilder(mg, prog)
    from .common import fuse_loop
    h = fuse_loop(mg, tb)
    if h is None:
        ctx.shape("R04-merge-criterion", mg.key, mg, "merge has %d loops, none or several of which grow a cluster" % len(mg.loop_heads()))
        return mg
    sf = ("field", selfp, "scale_function")
    n = ("field", selfp, "n_samples")
    # carried variables by role
    carried = {l: (tb.loop_init(l, h), tb.loop_update(l, h)) for l in range(len(mg.locals)) if mg.local_name(l) and tb.defined_in_loop(l, h)}
    cur = [l for l in carried if mg.local_ty(l) == "tdigest::Centroid" and carried[l][1][0] == "phi"]
    probs = []
    q0 = qlim = None
    for l, (init, upd) in carried.items():
        if init == const(0.0) and mg.local_ty(l) == "f64":
            q0 = l
        if init[0] == "call" and _nm(init[1], "ScaleFunction::f_inv"):
            qlim = l
    if not cur or q0 is None or qlim is None:
        ctx.shape("R04-merge-criterion", mg.key, mg, "cannot identify current / q_0 / q_limit among the loop-carried locals of merge")
        return mg
    cur_lv, q0_lv, ql_lv = ("loopvar", cur[0], h), ("loopvar", q0, h), ("loopvar", qlim, h)

    def limit_of(q):
        return ("call", "tdigest::ScaleFunction::f_inv", (sf, mk("Add", ("call", "tdigest::ScaleFunction::f", (sf, q, n)), const(1.0)), n))
    S = None
    for s_ in subterms(carried[q0][1]):
        if s_[0] == "call" and s_[1].endswith("::sum"):
            S = s_
    if S is None:
        probs.append("q_0 is not advanced by a fraction of the total weight")
    else:
        w = apply_closure(S[2][0][2], (("elem", ("dummy",)),)) if S[2][0][0] == "map" else None
        if w != ("field", ("elem", ("dummy",)), "count"):
            # the sum may run over the (mean, centroid) pairs of the sort buffer: |t| t.1.count
            w2 = apply_closure(S[2][0][2], (elem_of(S[2][0][1]),)) if S[2][0][0] == "map" else None
            pair_ok = False
            if S[2][0][0] == "map":
                X_ = S[2][0][1]
                X_ = X_[2][0] if (X_[0] == "call" and _nm(X_[1], "collect")) else X_
                if X_[0] == "map":
                    pr_ = elem_of(X_)
                    w3 = apply_closure(S[2][0][2], (pr_,))
                    pair_ok = pr_[0] == "tuple" and len(pr_[1]) == 2 and w3 == ("field", pr_[1][1], "count") and pr_[1][1][0] == "elem"
            if not pair_ok and not (w2 is not None and w2[0] == "field" and w2[2] == "count" and w2[1][0] == "elem"):
                probs.append("the total S is not the sum of the centroid counts")
        new_q0 = mk("Add", q0_lv, mk("Div", ("field", cur_lv, "count"), S))
        u0 = carried[q0][1]
        alts0 = set(map(repr, u0[1])) if u0[0] == "phi" else {repr(u0)}
        if alts0 != {repr(q0_lv), repr(new_q0)}:
            probs.append("q_0 is updated with %s; expected q_0 + w_current/S when a cluster is closed (and unchanged when fusing)" % fmt(u0)[:160])
        if carried[qlim][0] != limit_of(const(0.0)):
            probs.append("initial q_limit is %s; expected f_inv(f(0, n) + 1, n)" % fmt(carried[qlim][0])[:160])
        ul = carried[qlim][1]
        altsl = set(map(repr, ul[1])) if ul[0] == "phi" else {repr(ul)}
        if altsl != {repr(ql_lv), repr(limit_of(new_q0))}:
            probs.append("q_limit is recomputed as %s; expected f_inv(f(q_0 + w_current/S, n) + 1, n) from the NEW q_0" % fmt(ul)[:200])
        # the fuse decision
        nxt = None
        for l, (init, upd) in carried.items():
            if upd[0] == "elem":
                nxt = upd
        if nxt is None:
            # the loop item of a lazy projection (`pending.into_iter().map(|t| t.1)`): the item term of the loop's iterator
            for l in range(len(mg.locals)):
                if tb.defined_in_loop(l, h) and tb.loop_update(l, h) == ("clobber", l):
                    it_ = tb.loop_init(l, h)
                    cand = elem_of(it_[1] if it_[0] == "rest" else it_)
                    if any(upd == cand for _, (init, upd) in carried.items()):
                        nxt = cand
        crit = mk("Le", mk("Add", q0_lv, mk("Div", mk("Add", ("field", cur_lv, "count"), ("field", nxt, "count")), S)), ql_lv) if nxt else None
        found = False
        body = mg.natural_loop(h)
        for b in sorted(body):
            t = mg.blocks[b].term
            if t.k == "switch" and t.j.get("discr_ty") == "bool":
                c = tb.operand(t.discr, b, len(mg.blocks[b].stmts))
                if crit is not None and c == crit:
                    found = True
                    # true edge fuses (no push), false edge pushes
                    arms = {int(v): bb for v, bb in t.j["arms"]}
                    false_bb, true_bb = arms.get(0), t.j["otherwise"]
                    pushes = [bi for bi, tt in mg.calls() if tt.callee_name() == "push" and bi in body]
                    from ..guards import reach_without
                    if not pushes or not all(reach_without(mg, false_bb, pb, h) for pb in pushes) or any(reach_without(mg, true_bb, pb, h) for pb in pushes):
                        probs.append("the branches of the fuse criterion are swapped or do not decide between fusing and closing the cluster")
        if not found:
            probs.append("no branch on `q_0 + (w_current + w_next)/S <= q_limit` in the fuse loop")
    ctx.check(not probs, "R04-merge-criterion", mg.key, mg,
              "fuse while q_0 + (w_cur + w_next)/S <= f_inv(f(q_0, n) + 1, n); on closing a cluster q_0 += w_cur/S and the limit is recomputed from the new q_0",
              "; ".join(probs[:3]))

    # sorted by mean
    probs = []
    sorts = [(bi, t) for bi, t in mg.calls() if t.callee_name() in ("sort_by", "sort_unstable_by", "sort_by_key", "sort_by_cached_key")]
    if len(sorts) != 1:
        probs.append("%d sort calls in merge" % len(sorts))
    else:
        bi, t = sorts[0]
        a = [tb.operand(x, bi, len(mg.blocks[bi].stmts)) for x in t.args]
        buf = a[0]
        key_ok = False
        if buf[0] == "call" and _nm(buf[1], "collect") and buf[2][0][0] == "map":
            pair = elem_of(("map", ("dummy",), buf[2][0][2]))
            e = ("elem", ("dummy",))
            key_ok = pair[0] == "tuple" and pair[1][0] == mk("Div", ("field", e, "sum"), ("field", e, "count")) and pair[1][1] == e
        cmp_ok = False
        if a[1][0] == "closure":
            c = apply_closure(a[1], (("p", 1), ("p", 2)))
            cmp_ok = any(s_[0] == "call" and _nm(s_[1], "partial_cmp") and s_[2] == (("tfield", ("p", 1), 0), ("tfield", ("p", 2), 0)) for s_ in subterms(c))
        if not key_ok and not cmp_ok and a[1][0] == "closure":
            # the centroids themselves are sorted, the comparator takes the means: |c1, c2| c1.mean().partial_cmp(&c2.mean())
            c = apply_closure(a[1], (("p", 1), ("p", 2)))
            mean_ = lambda z: mk("Div", ("field", z, "sum"), ("field", z, "count"))
            if any(s_[0] == "call" and _nm(s_[1], "partial_cmp") and s_[2] == (mean_(("p", 1)), mean_(("p", 2))) for s_ in subterms(c)):
                key_ok = cmp_ok = True
        if not key_ok:
            probs.append("the sort key is not the centroid mean (sum / count)")
        if not cmp_ok:
            probs.append("the buffer is not compared by the key of the first element against the key of the second (ascending)")
        # the sort dominates the fuse loop
        if not mg.dominates(bi, h):
            probs.append("the sort does not precede the fuse loop")
    ctx.check(not probs, "R04-sorted-input", mg.key, mg, "buffer keyed by mean(c) and sorted ascending before fusing", "; ".join(probs[:3]))

    # scale functions
    n_sf = 0
    for k in ("K0", "K1", "K2", "K3"):
        f = ctx.anchor("<tdigest::%s as tdigest::ScaleFunction>::f" % k)
        new = ctx.anchor("tdigest::%s::new" % k)
        if f is None or new is None:
            continue
        n_sf += 1
        r = TermBuilder(f, prog).return_term()
        q = ("param", 2, "q")
        clamp = mk("max", const(0.0), mk("min", const(1.0), q))
        uses_raw = any(s_ == q for s_ in subterms(r)) and not all(True for _ in ())  # placeholder
        # every occurrence of q must be inside the clamp: replace clamp by a symbol and look for leftovers
        def strip(t_):
            if t_ == clamp:
                return ("clamped",)
            if not isinstance(t_, tuple):
                return t_
            return tuple(strip(x) if isinstance(x, tuple) else x for x in t_)
        leftover = any(s_ == q for s_ in subterms(strip(r)))
        ctx.check(not leftover and any(s_ == clamp for s_ in subterms(r)), "R04-scale-clamp", f.key, f, "f clamps q to [0,1] before use", "f uses q outside min(1).max(0): %s" % fmt(r)[:160])
        from .common import construction_blocks
        agg = construction_blocks(ctx, new, "tdigest::%s" % k)
        okd = False
        if agg:
            facts = atomic_facts(new, prog, agg[0])
            env = float_facts_to_env(facts)
            iv = env.get(repr(("param", 1, "delta")))
            fin = any(tr and c[0] == "op" and c[1] == "is_finite" for c, tr in facts)
            okd = iv is not None and iv.gt(1.0) and fin
        ctx.check(okd, "R04-scale-clamp", new.key, new, "constructor asserts delta > 1 and finite", "%s::new does not establish delta > 1 && finite" % k)
    ctx.floor("R04-scale-clamp", n_sf, 4, "scale functions")
    scale_algebra_rules(ctx)

    # backlog policy: merged when it exceeds max_backlog_size
    iw = ctx.anchor(TI + "::insert_weighted")
    if iw is not None:
        from ..paths import PathEnumerator
        pe = PathEnumerator(iw, prog, ctx.summ)
        over = mk("Lt", ("field", selfp, "max_backlog_size"), ("call", "std::vec::Vec::len", (("field", selfp, "backlog"),)))
        probs = []
        seen = {True: 0, False: 0}
        for p in pe.paths():
            if p.exit_kind != "return":
                continue
            fd = {repr(c): t for c, t in pe.path_facts(p)}
            g = fv(fd, over)
            merged = any(e["kind"] == "call" and e["callee"] == TI + "::merge" for e in p.events)
            if g is None:
                probs.append("a path does not compare the backlog length with max_backlog_size")
            elif g != merged:
                probs.append("merge is %s although backlog.len() > max_backlog_size is %s" % ("called" if merged else "skipped", g))
            else:
                seen[g] += 1
        ctx.check(not probs and seen[True] and seen[False], "R04-backlog-policy", iw.key, iw, "merge() exactly when backlog.len() > max_backlog_size", "; ".join(sorted(set(probs))[:2]))

    return mg


# the maximal cluster width W of each scale function as the PROPERTY states it (C04's statement), over the atoms
# d = delta, L = ln(n) - ln(delta), pi
def _w_spec(k, A, R):
    from fractions import Fraction
    d = R.r_atom("delta")
    L = R.r_add(A.fn_atom("ln", R.r_atom("n")), A.fn_atom("ln", R.r_atom("delta")), -1)
    if k == "K0":
        return R.r_div(R.r_const(2), d)
    if k == "K1":
        return R.r_div(R.r_atom("pi"), d)
    if k == "K2":
        return R.r_div(R.r_add(L, R.r_const(6)), d)
    return R.r_div(R.r_add(R.r_mul(R.r_const(2), L), R.r_const(Fraction(21, 2))), d)


def scale_algebra_rules(ctx):
    """R04-scale-width: a cluster spans one unit of the scale function k(q) = f(q, n), so its width at q is 1/k'(q), maximal at the
    median; the symbolic derivative of the term of `f` (taken from the MIR, helpers inlined, clamps = identity inside (0,1)),
    evaluated at q = 1/2 as an exact rational function of delta, ln n, ln delta and pi, must be the reciprocal of the W that the
    property states for that scale function. R04-scale-inverse: f_inv(f(q, n), n) rewrites to q with exp(ln u) = u, sin(asin u) = u
    (the fuse limit q_limit = f_inv(f(q_0) + 1) is only meaningful if the two are inverse). Nothing is evaluated numerically."""
    from fractions import Fraction
    from .. import symalg as R
    from ..terms import subst_term
    prog = ctx.prog
    selfp = ("param", 1, "self")
    n_w = n_i = 0
    for k in ("K0", "K1", "K2", "K3"):
        f = ctx.anchor("<tdigest::%s as tdigest::ScaleFunction>::f" % k)
        fi = ctx.anchor("<tdigest::%s as tdigest::ScaleFunction>::f_inv" % k)
        if f is None or fi is None:
            continue
        q = ("param", 2, f.local_name(2))
        n_t = ("param", 3, f.local_name(3))
        atoms = {("field", selfp, "delta"): "delta", n_t: "n", q: "q"}
        ft = TermBuilder(f, prog).return_term()
        # ---- width -------------------------------------------------------------------------------------
        try:
            A = R.Algebra(atoms, values={"q": Fraction(1, 2)})
            slope = A.of(R.diff(ft, q))
            w_impl = R.r_div(R.r_const(1), slope)
            w_spec = _w_spec(k, A, R)
            okw = R.r_eq(w_impl, w_spec)
            msg = "1/k'(1/2) = %s, the property states W = %s" % (R.r_fmt(w_impl)[:220], R.r_fmt(w_spec)[:160])
        except R.NotAlgebraic as e:
            ctx.shape("R04-scale-width", f.key, f, "the scale function is not in the algebra the rule understands (%s)" % e)
            continue
        n_w += 1
        ctx.check(okw, "R04-scale-width", f.key, f, "%s: 1/k'(1/2) equals the stated maximal cluster width" % k,
                  "%s: the slope of the scale function at the median does not give the maximal cluster width of the property: %s" % (k, msg))
        # ---- inverse ------------------------------------------------------------------------------------
        kp = ("param", 2, fi.local_name(2))
        n_i_t = ("param", 3, fi.local_name(3))
        fit = TermBuilder(fi, prog).return_term()
        inv_alts = [a for a in (fit[1] if fit[0] == "phi" else (fit,)) if kp in subterms(a)]
        f_alts = _split_phi(ft)
        probs = []
        used = set()
        for fa in f_alts:
            hit = False
            for j, ia in enumerate(inv_alts):
                try:
                    A2 = R.Algebra(atoms)
                    comp = subst_term(_strip_bounds(ia, kp), {kp: fa, n_i_t: n_t})
                    if R.r_eq(A2.of(comp), R.r_atom("q")):
                        hit = True
                        used.add(j)
                except R.NotAlgebraic:
                    continue
            if not hit:
                probs.append("f_inv(f(q)) does not rewrite to q for the branch f = %s" % fmt(fa)[:140])
        if len(used) != len(inv_alts):
            probs.append("%d finite branch(es) of f_inv invert no branch of f" % (len(inv_alts) - len(used)))
        n_i += 1
        ctx.check(not probs and inv_alts, "R04-scale-inverse", fi.key, fi, "%s: f_inv(f(q, n), n) = q on every branch" % k, "%s: %s" % (k, "; ".join(probs[:2]) or "f_inv has no branch that depends on k"))
    ctx.floor("R04-scale-width", n_w, 4, "scale functions differentiated")
    ctx.floor("R04-scale-inverse", n_i, 4, "scale functions inverted")


def _split_phi(t):
    """alternatives of a term with (possibly nested) phi nodes: one term per combination (at most one phi is expected)"""
    phis = [s_ for s_ in subterms(t) if s_[0] == "phi"]
    if not phis:
        return [t]
    from ..terms import subst_term
    p0 = phis[0]
    out = []
    for a in p0[1]:
        out += _split_phi(subst_term(t, {p0: a}))
    return out


def _strip_bounds(t, var):
    """clamps of the variable against bounds that do not depend on it (`k.min(delta/2).max(0)`) are the identity on the range of f"""
    if not isinstance(t, tuple):
        return t
    if t[0] == "op" and t[1] in ("min", "max"):
        dep = [x for x in t[2] if var in subterms(x)]
        if len(dep) == 1:
            return _strip_bounds(dep[0], var)
    return tuple(_strip_bounds(x, var) if isinstance(x, tuple) else x for x in t)
