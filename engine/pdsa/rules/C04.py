"""C04 — T-Digest rank accuracy and bounded size: only the structure of the merge criterion is decided."""
from ..terms import TermBuilder, fmt, mk, const, subterms, elem_of, apply_closure
from ..guards import atomic_facts, fv
from ..intervals import float_facts_to_env
from .common import SELF, self_field

EXPLANATION = (
    "The numeric bounds of C04 (rank error <= c*W(delta, n), at most delta+3 centroids) are NOT decided — they follow from analytic "
    "properties of the scale functions. What is decided is the structure both bounds presuppose. R04-merge-criterion: merge() sorts "
    "the buffer by centroid mean (sort key = mean(c), comparison partial_cmp on the keys), accumulates S = sum of counts, and fuses "
    "greedily under exactly `q_0 + (w_cur + w_next)/S <= q_limit` with q_limit = f_inv(f(q_0, n) + 1, n) recomputed from the NEW "
    "q_0 = q_0 + w_cur/S whenever a cluster is closed, n = self.n_samples and one and the same scale function for f and f_inv (a "
    "cluster spans at most one unit of the scale function, which is what bounds both its width and the number of clusters). "
    "R04-scale-clamp: every scale function clamps q to [0,1] before use and its constructor asserts delta > 1 and finite. "
    "R04-inputs: n_samples counts +1 per insert and is reset by clear; the backlog is merged when it exceeds max_backlog_size and "
    "before every read; merge conserves mass (C11/C15/C16/C19 rules applied to the digest)."
)
NOT_DECIDED = ("the bounds themselves: rank error within a multiple of the maximal cluster width W for each scale function, and the delta+3 bound on the "
               "number of centroids — consequences of the analytic form of K0..K3 (constants 24/21/2*pi have no code-shape oracle)")
ASSUMPTIONS = ["f and f_inv of each ScaleFunction impl are mutually inverse on [0,1] (not checked)", "real-number semantics for f64"]

TI = "tdigest::TDigestInner"


def run(ctx):
    mg = structure_rules(ctx)
    if mg is None:
        return
    # inputs of the criterion
    from .C16 import insert_rules, conservation
    insert_rules(ctx)
    conservation(ctx, mg)
    from .C19 import run_clear_rules
    run_clear_rules(ctx, only_adt=TI, floor=1)


def structure_rules(ctx):
    """R04-merge-criterion, R04-sorted-input, R04-scale-clamp, R04-backlog-policy; returns the merge fn (None: anchor missing).
    Also run by C11: the O(delta + max_backlog_size) centroid bound presupposes the same structure."""
    prog = ctx.prog
    mg = ctx.anchor(TI + "::merge")
    if mg is None:
        return None
    selfp = ("param", 1, "self")
    tb = TermBuilder(mg, prog)
    heads = mg.loop_heads()
    if len(heads) != 1:
        ctx.shape("R04-merge-criterion", mg.key, mg, "merge has %d loops, expected the single fuse loop" % len(heads))
        return mg
    h = heads[0]
    sf = ("field", selfp, "scale_function")
    n = ("field", selfp, "n_samples")
    # carried variables by role
    carried = {l: (tb.loop_init(l, h), tb.loop_update(l, h)) for l in range(len(mg.locals)) if mg.local_name(l) and tb.defined_in_loop(l, h)}
    cur = [l for l in carried if mg.local_ty(l) == "tdigest::Centroid" and carried[l][1][0] == "phi"]
    probs = []
    q0 = qlim = None
    for l, (init, upd) in carried.items():
        if init == const(0.0) and mg.local_ty(l) == "f64":
            q0 = l
        if init[0] == "call" and init[1].endswith("ScaleFunction::f_inv"):
            qlim = l
    if not cur or q0 is None or qlim is None:
        ctx.shape("R04-merge-criterion", mg.key, mg, "cannot identify current / q_0 / q_limit among the loop-carried locals of merge")
        return mg
    cur_lv, q0_lv, ql_lv = ("loopvar", cur[0], h), ("loopvar", q0, h), ("loopvar", qlim, h)

    def limit_of(q):
        return ("call", "tdigest::ScaleFunction::f_inv", (sf, mk("Add", ("call", "tdigest::ScaleFunction::f", (sf, q, n)), const(1.0)), n))
    S = None
    for s_ in subterms(carried[q0][1]):
        if s_[0] == "call" and s_[1].endswith("::sum"):
            S = s_
    if S is None:
        probs.append("q_0 is not advanced by a fraction of the total weight")
    else:
        w = apply_closure(S[2][0][2], (("elem", ("dummy",)),)) if S[2][0][0] == "map" else None
        if w != ("field", ("elem", ("dummy",)), "count"):
            probs.append("the total S is not the sum of the centroid counts")
        new_q0 = mk("Add", q0_lv, mk("Div", ("field", cur_lv, "count"), S))
        u0 = carried[q0][1]
        alts0 = set(map(repr, u0[1])) if u0[0] == "phi" else {repr(u0)}
        if alts0 != {repr(q0_lv), repr(new_q0)}:
            probs.append("q_0 is updated with %s; expected q_0 + w_current/S when a cluster is closed (and unchanged when fusing)" % fmt(u0)[:160])
        if carried[qlim][0] != limit_of(const(0.0)):
            probs.append("initial q_limit is %s; expected f_inv(f(0, n) + 1, n)" % fmt(carried[qlim][0])[:160])
        ul = carried[qlim][1]
        altsl = set(map(repr, ul[1])) if ul[0] == "phi" else {repr(ul)}
        if altsl != {repr(ql_lv), repr(limit_of(new_q0))}:
            probs.append("q_limit is recomputed as %s; expected f_inv(f(q_0 + w_current/S, n) + 1, n) from the NEW q_0" % fmt(ul)[:200])
        # the fuse decision
        nxt = None
        for l, (init, upd) in carried.items():
            if upd[0] == "elem":
                nxt = upd
        crit = mk("Le", mk("Add", q0_lv, mk("Div", mk("Add", ("field", cur_lv, "count"), ("field", nxt, "count")), S)), ql_lv) if nxt else None
        found = False
        body = mg.natural_loop(h)
        for b in sorted(body):
            t = mg.blocks[b].term
            if t.k == "switch" and t.j.get("discr_ty") == "bool":
                c = tb.operand(t.discr, b, len(mg.blocks[b].stmts))
                if crit is not None and c == crit:
                    found = True
                    # true edge fuses (no push), false edge pushes
                    arms = {int(v): bb for v, bb in t.j["arms"]}
                    false_bb, true_bb = arms.get(0), t.j["otherwise"]
                    pushes = [bi for bi, tt in mg.calls() if tt.callee_name() == "push" and bi in body]
                    from ..guards import reach_without
                    if not pushes or not all(reach_without(mg, false_bb, pb, h) for pb in pushes) or any(reach_without(mg, true_bb, pb, h) for pb in pushes):
                        probs.append("the branches of the fuse criterion are swapped or do not decide between fusing and closing the cluster")
        if not found:
            probs.append("no branch on `q_0 + (w_current + w_next)/S <= q_limit` in the fuse loop")
    ctx.check(not probs, "R04-merge-criterion", mg.key, mg,
              "fuse while q_0 + (w_cur + w_next)/S <= f_inv(f(q_0, n) + 1, n); on closing a cluster q_0 += w_cur/S and the limit is recomputed from the new q_0",
              "; ".join(probs[:3]))

    # sorted by mean
    probs = []
    sorts = [(bi, t) for bi, t in mg.calls() if t.callee_name() in ("sort_by", "sort_unstable_by", "sort_by_key", "sort_by_cached_key")]
    if len(sorts) != 1:
        probs.append("%d sort calls in merge" % len(sorts))
    else:
        bi, t = sorts[0]
        a = [tb.operand(x, bi, len(mg.blocks[bi].stmts)) for x in t.args]
        buf = a[0]
        key_ok = False
        if buf[0] == "call" and buf[1].endswith("collect") and buf[2][0][0] == "map":
            pair = elem_of(("map", ("dummy",), buf[2][0][2]))
            e = ("elem", ("dummy",))
            key_ok = pair[0] == "tuple" and pair[1][0] == mk("Div", ("field", e, "sum"), ("field", e, "count")) and pair[1][1] == e
        cmp_ok = False
        if a[1][0] == "closure":
            c = apply_closure(a[1], (("p", 1), ("p", 2)))
            cmp_ok = any(s_[0] == "call" and s_[1].endswith("partial_cmp") and s_[2] == (("tfield", ("p", 1), 0), ("tfield", ("p", 2), 0)) for s_ in subterms(c))
        if not key_ok:
            probs.append("the sort key is not the centroid mean (sum / count)")
        if not cmp_ok:
            probs.append("the buffer is not compared by the key of the first element against the key of the second (ascending)")
        # the sort dominates the fuse loop
        if not mg.dominates(bi, h):
            probs.append("the sort does not precede the fuse loop")
    ctx.check(not probs, "R04-sorted-input", mg.key, mg, "buffer keyed by mean(c) and sorted ascending before fusing", "; ".join(probs[:3]))

    # scale functions
    n_sf = 0
    for k in ("K0", "K1", "K2", "K3"):
        f = ctx.anchor("<tdigest::%s as tdigest::ScaleFunction>::f" % k)
        new = ctx.anchor("tdigest::%s::new" % k)
        if f is None or new is None:
            continue
        n_sf += 1
        r = TermBuilder(f, prog).return_term()
        q = ("param", 2, "q")
        clamp = mk("max", const(0.0), mk("min", const(1.0), q))
        uses_raw = any(s_ == q for s_ in subterms(r)) and not all(True for _ in ())  # placeholder
        # every occurrence of q must be inside the clamp: replace clamp by a symbol and look for leftovers
        def strip(t_):
            if t_ == clamp:
                return ("clamped",)
            if not isinstance(t_, tuple):
                return t_
            return tuple(strip(x) if isinstance(x, tuple) else x for x in t_)
        leftover = any(s_ == q for s_ in subterms(strip(r)))
        ctx.check(not leftover and any(s_ == clamp for s_ in subterms(r)), "R04-scale-clamp", f.key, f, "f clamps q to [0,1] before use", "f uses q outside min(1).max(0): %s" % fmt(r)[:160])
        agg = [bi for bi, blk in enumerate(new.blocks) for st in blk.stmts if st.k == "assign" and st.rv.k == "aggregate" and st.rv.j.get("adt") == "tdigest::%s" % k]
        okd = False
        if agg:
            facts = atomic_facts(new, prog, agg[0])
            env = float_facts_to_env(facts)
            iv = env.get(repr(("param", 1, "delta")))
            fin = any(tr and c[0] == "op" and c[1] == "is_finite" for c, tr in facts)
            okd = iv is not None and iv.gt(1.0) and fin
        ctx.check(okd, "R04-scale-clamp", new.key, new, "constructor asserts delta > 1 and finite", "%s::new does not establish delta > 1 && finite" % k)
    ctx.floor("R04-scale-clamp", n_sf, 4, "scale functions")

    # backlog policy: merged when it exceeds max_backlog_size
    iw = ctx.anchor(TI + "::insert_weighted")
    if iw is not None:
        from ..paths import PathEnumerator
        pe = PathEnumerator(iw, prog, ctx.summ)
        over = mk("Lt", ("field", selfp, "max_backlog_size"), ("call", "std::vec::Vec::len", (("field", selfp, "backlog"),)))
        probs = []
        seen = {True: 0, False: 0}
        for p in pe.paths():
            if p.exit_kind != "return":
                continue
            fd = {repr(c): t for c, t in pe.path_facts(p)}
            g = fv(fd, over)
            merged = any(e["kind"] == "call" and e["callee"] == TI + "::merge" for e in p.events)
            if g is None:
                probs.append("a path does not compare the backlog length with max_backlog_size")
            elif g != merged:
                probs.append("merge is %s although backlog.len() > max_backlog_size is %s" % ("called" if merged else "skipped", g))
            else:
                seen[g] += 1
        ctx.check(not probs and seen[True] and seen[False], "R04-backlog-policy", iw.key, iw, "merge() exactly when backlog.len() > max_backlog_size", "; ".join(sorted(set(probs))[:2]))

    return mg
