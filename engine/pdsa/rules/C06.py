"""C06 — merge/union is equivalent to having processed both streams (lattice census, guards, transfer loops)."""
from ..paths import PathEnumerator
from ..guards import fv
from ..terms import TermBuilder, fmt, mk, const, subterms, elem_of, erase_param_names, swap_self_other, linear_eq, linear
from ..terms import callee_is as _nm
from .common import (SELF, self_field, methods_of, has_self_receiver, all_writes, rng_fields, config_fields, symmetric_guards,
                     fields_mentioned, INTERIOR_MUT, loop_exits_only_on_exhaustion)

EXPLANATION = (
    "R06-lattice-census: for Bloom (bs), HyperLogLog (registers) and CountMinSketch (table) every write to the state field anywhere "
    "in the crate is enumerated and classified; all non-reset writers of one structure must be operations of ONE commutative "
    "monoid (OR / max / +) and the merge must be that operation applied cell-wise to self and other over the whole length — "
    "stream-equivalence, commutativity, associativity (and idempotence for OR/max) then follow from algebra. R06-guards: every "
    "merge/union (5 structures) establishes, before its first write, self.F == other.F for every configuration field F (fields "
    "never written outside constructors — computed) and the structure-specific shape accessors. R06-other-untouched: `other` is "
    "&Self without interior mutability. R06-cuckoo-transfer / R06-quotient-transfer: the re-insertion loops pass every occupied "
    "slot of other with the bucket/remainder derived from the slot being visited."
    ' R06-quotient-fifo: the local container of pending run quotients is a VecDeque used first-in first-out. Every returning path of the three cell-wise merges performs the combination (no shortcut return).'
)
NOT_DECIDED = ("that the quotient union's FIFO of pending run quotients reconstructs the right quotient for every cluster layout; "
               "that a cuckoo union returning Ok stored every fingerprint for every eviction outcome")
ASSUMPTIONS = ["FixedBitSet::put sets one bit, `&a | &b` is bit-wise OR, cmp::max is max, checked_add is + with overflow detection"]

BLOOM = "filters::bloomfilter::BloomFilter"
CMS = "countminsketch::CountMinSketch"
HLL = "hyperloglog::HyperLogLog"
CF = "filters::cuckoofilter::CuckooFilter"
QF = "filters::quotientfilter::QuotientFilter"


def classify_write(adt, field, w, ctx):
    """monoid class of a write event to the state field: 'or' 'max' '+' 'reset' or None"""
    selfp = ("param", 1, "self")
    how = w["how"]
    if how == "call":
        nm = w.get("name")
        if nm == "put":
            return "or", "bs.put(pos) — OR with a unit mask"
        if nm == "clear":
            return "reset", "clear()"
        if nm == "set" and len(w["args"]) == 3 and w["args"][2] == const(True):
            return "or", "set(pos, true)"
        if nm in ("bitor_assign", "union_with") and len(w["args"]) == 2:
            return "or", "bs |= other"
        return None, "call %s" % nm
    if how == "store":
        v = w["value"]
        full = len([p for p in w["path"] if p != "[]"]) == len(w["path"])  # whole-field store
        if v is None:
            return None, "store of unknown value"
        if full:
            # whole-field replacement
            if v[0] == "op" and v[1] == "BitOr":
                return "or", "bs = &a | &b"
            if v[0] == "call" and _nm(v[1], "from_elem"):
                return "reset", "vec![zero; len]"
            if v[0] == "call" and _nm(v[1], "collect"):
                st = v[2][0]
                e = erase_param_names(elem_of(st))
                return classify_cell_update(e), fmt(e)
            return None, fmt(v)
        # single cell update: value vs old cell
        return classify_cell_update(erase_param_names(v)), fmt(v)
    return None, how


def classify_cell_update(e):
    if e[0] == "op" and e[1] == "max":
        return "max"
    if e[0] == "op" and e[1] == "Add":
        return "+"
    if e[0] == "op" and e[1] == "BitOr":
        return "or"
    if e[0] == "op" and e[1] in ("min", "BitXor", "BitAnd", "Sub", "Mul"):
        return "other:" + e[1]
    return None


def run(ctx):
    prog = ctx.prog
    census = [(BLOOM, "bs", "or"), (HLL, "registers", "max"), (CMS, "table", "+")]
    for adt, field, want in census:
        if ctx.anchor_adt(adt) is None:
            continue
        n = 0
        for m in sorted(methods_of(prog, adt), key=lambda f: f.key):
            if not has_self_receiver(m) or m.impl_derived:
                continue
            ctx.analysed_fns.add(m.key)
            for w in all_writes(ctx, m):
                if w["root"] != SELF or self_field(w) != field or w["how"] == "borrow" or w.get("via"):
                    continue
                n += 1
                cls, desc = classify_write(adt, field, w, ctx)
                if (cls is None or (isinstance(cls, str) and cls.startswith("other"))) and (w["how"] == "store" or (w["how"] == "call" and w.get("name") == "fill")):
                    from .common import join_store, elementwise_reset
                    js = join_store(ctx, m, field)
                    if js["form"] == "guarded-max":
                        cls, desc = "max", "if old < new { cell = new }"
                    elif elementwise_reset(ctx, m, field):
                        cls, desc = "reset", "in-place zero fill over iter_mut()"
                    elif m.arg_count == 2:
                        # a cell-wise walk over self and other: `if theirs > *mine { *mine = theirs }` is the in-place max
                        from .common import cellwise_merge
                        cm_ = cellwise_merge(ctx, m, field)
                        if cm_.get("form") == "in-place" and cm_.get("elem", ("x",))[:2] == ("op", "max"):
                            cls, desc = "max", cm_["why"]
                if isinstance(cls, tuple):
                    cls, desc = cls
                okc = cls in (want, "reset")
                ctx.check(okc, "R06-lattice-census", "%s:%s@%s" % (adt, field, m.name), w["span"],
                          "%s writes %s with a `%s` operation (%s)" % (m.name, field, cls, desc[:120]),
                          "%s writes `%s` with %s (%s) — not an operation of the `%s` monoid that every other writer of %s uses, so merge/add no longer commute"
                          % (m.name, field, cls or "an unclassifiable operation", desc[:160], want, adt.split("::")[-1]))
        ctx.floor("R06-lattice-census:" + adt.split("::")[-1], n, 3, "writers of %s.%s" % (adt.split("::")[-1], field))

    # merge is cell-wise over self and other, whole length
    for key, field in (("countminsketch::CountMinSketch::merge", "table"), ("hyperloglog::HyperLogLog::merge", "registers"),
                       ("<%s as filters::Filter[T]>::union" % BLOOM, "bs")):
        m = ctx.anchor(key)
        if m is None:
            continue
        selfp, otherp = ("param", 1, None), ("param", 2, None)
        from .common import cellwise_merge
        cm = cellwise_merge(ctx, m, field)
        okm = cm["form"] is not None
        desc = cm["why"]
        pem = PathEnumerator(m, prog, ctx.summ)
        nret = nskip = 0
        for p in pem.paths():
            if p.exit_kind != "return":
                continue
            nret += 1
            if not [e for e in p.events if e["kind"] == "write" and self_field(e) == field and e["how"] == "store"]:
                nskip += 1
        if cm["form"] == "in-place-or":
            # every returning path performs the call
            nskip = 0
            for p in pem.paths():
                if p.exit_kind == "return" and not [e for e in p.events if e["kind"] == "write" and self_field(e) == field and e["how"] == "call" and e.get("name") in ("bitor_assign", "union_with")]:
                    nskip += 1
        if nskip and cm["form"] != "in-place":      # (the in-place loop form stores in every iteration of a loop run to exhaustion)
            okm = False
            desc = "%d of %d returning paths skip the combination; " % (nskip, nret) + desc
        ctx.check(okm, "R06-merge-cellwise", key, m, "merge combines self.%s and other.%s cell by cell over the full length (%s)" % (field, field, desc[:100]),
                  "merge does not combine self.%s with other.%s cell-wise over their full length: %s" % (field, field, desc[:200]))

    # ---- R06-guards ------------------------------------------------------------------------
    merges = [
        ("<%s as filters::Filter[T]>::union" % BLOOM, BLOOM, ["bs"], 3),
        ("countminsketch::CountMinSketch::merge", CMS, [], 3),
        ("hyperloglog::HyperLogLog::merge", HLL, [], 2),
        ("<%s as filters::Filter[T]>::union" % CF, CF, [], 4),
        ("<%s as filters::Filter[T]>::union" % QF, QF, ["remainders"], 3),
    ]
    for key, adt, shape_fields, floor in merges:
        m = ctx.anchor(key)
        if m is None:
            continue
        wbs, guards = symmetric_guards(ctx, m)
        if wbs is None:
            ctx.fail("anchor-missing", "R06-guards:" + key, m, "no self-writing block found in %s" % key)
            continue
        covered = set()
        lossy = []
        for g in guards:
            # a guard establishes agreement of a field only through an accessor that determines the quantity the merge relies on
            # (the field itself, its length, its element width); `bs.as_slice().len()` (words, not bits), `count_ones()`,
            # `is_empty()` .. agree for structures of different shape
            calls = [x for x in subterms(g) if x[0] == "call"]
            if all(x[1].endswith(("::len", "::element_bits")) for x in calls):
                covered |= fields_mentioned(g)
            else:
                lossy.append(g)
        cf = [f for f in config_fields(ctx, adt) if f not in rng_fields(prog, adt) and f != "phantom"]
        for f in sorted(set(cf) | set(shape_fields)):
            ctx.check(f in covered, "R06-guards", "%s:%s" % (key, f), m,
                      "self.%s == other.%s (possibly through an accessor) is established before the first write" % (f, f),
                      "%s does not check that `%s` of self and other agree before modifying self (guards found: %s%s)" % (
                          key.split("::")[-1], f, [fmt(g) for g in guards if g not in lossy], "; compared only through a lossy accessor: %s" % [fmt(g) for g in lossy] if lossy else ""))
        ctx.floor("R06-guards:" + adt.split("::")[-1], len(guards), floor, "symmetric equality guards dominating the first write")
        # other untouched
        ty2 = m.local_ty(2)
        a = prog.adts[adt]
        bad = [fl["name"] + ":" + r for fl in a["variants"][0]["fields"] for r in fl["reach"] if r in INTERIOR_MUT]
        ctx.check(ty2.startswith("&") and not ty2.startswith("&mut") and not bad, "R06-other-untouched", key, m,
                  "`other` is a shared reference and %s has no interior mutability" % adt.split("::")[-1], "`other` may be modified (%s, %s)" % (ty2, bad))

    union_transfer_rules(ctx)


def union_transfer_rules(ctx):
    """R06-cuckoo-transfer, R06-quotient-transfer, R06-quotient-fifo (also run by C01: an element of `other` that is not carried
    over, or carried over under the wrong quotient/bucket, is a false negative after a successful union)"""
    prog = ctx.prog
    # ---- R06-cuckoo-transfer -------------------------------------------------------------------
    cu = ctx.anchor("<%s as filters::Filter[T]>::union" % CF)
    if cu is not None:
        tb = TermBuilder(cu, prog)
        otherp = ("param", 2, "other")
        calls = [(bi, t) for bi, t in cu.calls() if t.callee_name() == "insert_internal"]
        okc = len(calls) == 1
        why = "%d insert_internal call sites" % len(calls)
        if okc:
            bi, t = calls[0]
            a = [tb.operand(x, bi, len(cu.blocks[bi].stmts)) for x in t.args]
            stream = ("enumerate", ("field", otherp, "table"))
            f_t = ("elem", ("field", otherp, "table"))
            from ..guards import atomic_facts
            facts = {repr(c): tr for c, tr in atomic_facts(cu, prog, bi, tb)}
            nonzero = fv(facts, mk("Ne", f_t, const(0))) is True or fv(facts, mk("Eq", f_t, const(0))) is False
            filter_some = None
            if not nonzero:
                # the test may be the predicate of a `.filter(|&(_, f)| f != 0)` on the slot stream instead of a branch in the body
                from ..terms import apply_closure, elem_of as _eo
                hs_ = [hh for hh in cu.loop_heads() if bi in cu.natural_loop(hh)]
                for bj, t_ in cu.calls():
                    if hs_ and bj in cu.natural_loop(hs_[0]) and t_.callee_name() == "next" and t_.args:
                        it = tb.operand(t_.args[0], bj, len(cu.blocks[bj].stmts))
                        init = tb.loop_init(it[1], it[2]) if it[0] == "loopvar" else it
                        if init[0] == "filter" and init[2][0] == "closure":
                            pr = apply_closure(init[2], (_eo(init[1]),))
                            if pr in (mk("Ne", f_t, const(0)), mk("Not", mk("Eq", f_t, const(0)))) or fv({repr(pr): True}, mk("Ne", f_t, const(0))) is True:
                                nonzero = True
                                nb_ = cu.blocks[t_.j.get("target")] if t_.j.get("target") is not None else None
                                if nb_ is not None and nb_.term.k == "switch":
                                    filter_some = nb_.term.none_some_targets()[1]
            i1 = a[2]
            i2_ok = a[3] == mk("BitXor", i1, ("call", CF + "::hash", (otherp, f_t))) or a[3] == mk("BitXor", i1, ("call", CF + "::hash", (("param", 1, "self"), f_t)))
            okc = a[1] == f_t and nonzero and i2_ok
            why = "f=%s nonzero-guard=%s i2=%s" % (fmt(a[1]), nonzero, fmt(a[3]))
            # i1 is a loop counter incremented when counter % bucketsize == 0 (counter > 0)
            lv = [s for s in subterms(i1) if s[0] == "loopvar"]
            if okc and lv:
                h = lv[0][2]
                init = tb.loop_init(lv[0][1], h)
                upd = tb.loop_update(lv[0][1], h)
                inc_ok = init == const(0) and upd[0] == "phi" and set(map(repr, upd[1])) == {repr(lv[0]), repr(mk("Add", lv[0], const(1)))}
                # guard of the increment block
                cnt = ("enum_idx", ("field", otherp, "table"))
                gd = False
                for bj, blk in enumerate(cu.blocks):
                    for si, st in enumerate(blk.stmts):
                        if st.k == "assign" and st.place.is_local() and st.place.local == lv[0][1] and bj in cu.natural_loop(h):
                            fs = {repr(c): tr for c, tr in atomic_facts(cu, prog, bj, tb)}
                            gd = fv(fs, mk("Eq", mk("Rem", cnt, ("field", otherp, "bucketsize")), const(0))) is True and fv(fs, mk("Lt", const(0), cnt)) is True
                            if not gd:
                                # a running slot counter instead of `counter % bucketsize`: a second carried variable s with s = 0 before the
                                # loop, `if s == bucketsize { s = 0; bucket += 1 }` at the top of every iteration and `s += 1` after it
                                # — s == bucketsize holds exactly at the slot indices that are positive multiples of bucketsize
                                for c_, tr_ in atomic_facts(cu, prog, bj, tb):
                                    if tr_ and c_[0] == "op" and c_[1] == "Eq" and len(c_[2]) == 2 and ("field", otherp, "bucketsize") in c_[2]:
                                        sv = [y for y in c_[2] if y != ("field", otherp, "bucketsize")][0]
                                        if sv[0] == "loopvar" and sv[2] == h and isinstance(sv[1], int):
                                            s_init, s_upd = tb.loop_init(sv[1], h), tb.loop_update(sv[1], h)
                                            alts_ = set(map(repr, s_upd[1])) if s_upd[0] == "phi" else {repr(s_upd)}
                                            folded = s_upd == mk("Add", const(1), ("phi", tuple(sorted((const(0), sv), key=repr)))) or \
                                                (s_upd[0] == "op" and s_upd[1] == "Add" and len(s_upd[2]) == 2 and const(1) in s_upd[2]
                                                 and any(y[0] == "phi" and set(map(repr, y[1])) == {repr(const(0)), repr(sv)} for y in s_upd[2]))
                                            if s_init == const(0) and (folded or alts_ == {repr(const(1)), repr(mk("Add", sv, const(1)))}):
                                                gd = True
                okc = inc_ok and gd and loop_exits_only_on_exhaustion_or_err(cu, h)
                why = "bucket counter init=%s update=%s guard-ok=%s" % (fmt(init), fmt(upd), gd)
            elif okc and i1 == mk("Div", ("enum_idx", ("field", otherp, "table")), ("field", otherp, "bucketsize")):
                # closed form of the same counter: bucket = slot index / bucketsize
                h = next((hh for hh in cu.loop_heads() if bi in cu.natural_loop(hh)), None)
                okc = h is not None and loop_exits_only_on_exhaustion_or_err(cu, h)
                why = "closed-form bucket index, but the loop can be left early"
            elif okc:
                okc = False
                why = "bucket index %s is neither a loop-carried counter nor slot / bucketsize" % fmt(i1)
        if okc and len(calls) == 1:
            # ... and EVERY occupied slot gets there: from the edge on which `f != 0` holds, the next visit of the loop head (or the
            # exhaustion exit) cannot be reached around the insert_internal call (a `continue` for "already present" drops a copy)
            from ..guards import reach_without
            bi = calls[0][0]
            hs = [hh for hh in cu.loop_heads() if bi in cu.natural_loop(hh)]
            h0 = hs[0] if hs else None
            nz_succ = None
            if h0 is not None:
                for b in sorted(cu.natural_loop(h0)):
                    t_ = cu.blocks[b].term
                    if t_.k != "switch":
                        continue
                    c_ = tb.operand(t_.discr, b, len(cu.blocks[b].stmts))
                    if c_ in (mk("Ne", f_t, const(0)), mk("Eq", f_t, const(0))):
                        arms_ = {int(v): tg for v, tg in t_.j["arms"]}
                        zero_means = (c_[1] == "Eq")          # the switch value 1 means f == 0 ?
                        nz_succ = (arms_.get(0) if zero_means else t_.j["otherwise"]) if 0 in arms_ else None
                        if nz_succ is None and set(arms_) == {1}:
                            nz_succ = t_.j["otherwise"] if zero_means else arms_[1]
            if nz_succ is None and filter_some is not None:
                nz_succ = filter_some        # every item the filtered stream yields is an occupied slot
            if nz_succ is None:
                okc, why = False, "cannot find the `f != 0` test of the transfer loop"
            elif nz_succ != bi and reach_without(cu, nz_succ, h0, bi):
                okc, why = False, "an occupied slot can be skipped: the loop continues without calling insert_internal on some path after `f != 0`"
        ctx.check(okc, "R06-cuckoo-transfer", cu.key, cu, "every non-zero slot f of other.table is re-inserted with i1 = slot/bucketsize (counter) and i2 = i1 ^ hash(f)",
                  "cuckoo union does not transfer every occupied slot with its own bucket: %s" % why)

    # ---- R06-quotient-transfer --------------------------------------------------------------------
    qu = ctx.anchor("<%s as filters::Filter[T]>::union" % QF)
    if qu is not None:
        # the transfer loop may live in a private helper that union hands (self, other) to
        bodies = [qu]
        tbu = TermBuilder(qu, prog)
        for bi, t in qu.calls():
            if t.callee_is_local() and t.callee_name() not in ("insert_internal", "scan", "bits_remainder", "incr", "decr") and prog.fn(t.callee()) is not None:
                a = [tbu.operand(x, bi, len(qu.blocks[bi].stmts)) for x in t.args]
                if len(a) >= 2 and a[0][:2] == ("param", 1) and a[1][:2] == ("param", 2):
                    bodies.append(prog.fn(t.callee()))
                    ctx.analysed_fns.add(t.callee())
        otherp = ("param", 2, "other")
        calls = []
        for body_fn in bodies:
            tbb = TermBuilder(body_fn, prog)
            for bi, t in body_fn.calls():
                if t.callee_name() == "insert_internal":
                    calls.append((body_fn, tbb, bi, t))
        probs = []
        for body_fn, tb, bi, t in calls:
            a = [tb.operand(x, bi, len(body_fn.blocks[bi].stmts)) for x in t.args]
            rem = a[2]
            if not (rem[0] == "call" and rem[1].endswith("::get") and rem[2][0] == ("field", otherp, "remainders")):
                probs.append("remainder argument %s is not read from other.remainders" % fmt(rem))
        fifo_discipline(ctx, bodies)
        # coverage: the cluster start AND every following slot of the cluster are re-inserted — two sites (start before the walk, cursor
        # inside it) or one site at the top of a walk whose cursor starts AT the cluster start
        from .C13 import succ_of
        selfp_ = ("param", 1, "self")

        def ring_succ(t_):
            for base_ in (selfp_, otherp):
                r_ = succ_of(t_, base_)
                if r_ is not None:
                    return r_
            return None
        slots = []
        for body_fn, tb, bi, t in calls:
            a = [tb.operand(x, bi, len(body_fn.blocks[bi].stmts)) for x in t.args]
            if a[2][0] == "call" and len(a[2][2]) == 2:
                x = a[2][2][1]
                slots.append((tb, x[2] if x[0] == "cast" else x))
        covered = False
        from .C13 import is_ring_len
        from ..terms import apply_closure

        def ring_len_any(L_):
            return is_ring_len(L_, selfp_) or is_ring_len(L_, otherp)
        for tb, x in slots:
            # the walk's cursor c (replaced by its ring successor in every iteration), read before (x = c) or after (x = succ(c)) the step
            cur_ = x if x[0] == "loopvar" else ring_succ(x)
            if cur_ is not None and cur_[0] == "loopvar" and isinstance(cur_[1], int) and ring_succ(tb.loop_update(cur_[1], cur_[2])) == cur_:
                init = tb.loop_init(cur_[1], cur_[2])
                if x == cur_:
                    first_prev = ring_succ(init)       # first slot read is init; it is the start unless init = succ(start)
                else:
                    first_prev = init                  # first slot read is succ(init)
                if x == cur_ and first_prev is None:
                    covered = True                     # the walk starts at the cluster start itself
                elif first_prev is not None and any(y == first_prev for _, y in slots):
                    covered = True                     # the start is re-inserted separately, the walk covers the rest
            # the walk as a mapped range of ring offsets: (1..=L-1).map(|o| (start + o) mod L).take_while(..)
            if x[0] == "elem" and (x[1][0] == "map" or (x[1][0] == "call" and x[1][1].endswith("::take_while") and len(x[1][2]) == 2)):
                S_ = x[1][2][0] if x[1][0] == "call" else x[1]
                if S_[0] == "map" and S_[2][0] == "closure":
                    R_ = S_[1]
                    lo = hi_excl = None
                    if R_[0] == "call" and _nm(R_[1], "RangeInclusive::new") and len(R_[2]) == 2:
                        lo, hi_excl = R_[2][0], mk("Add", R_[2][1], const(1))
                    elif R_[0] == "adt" and R_[1] == "std::ops::Range":
                        dd = dict(R_[3])
                        lo, hi_excl = dd.get("start"), dd.get("end")
                    o_ = ("sym", "offset")
                    it_ = apply_closure(S_[2], (o_,))
                    L_ = None
                    if it_[0] == "op" and it_[1] == "BitAnd" and len(it_[2]) == 2:
                        for u_, v_ in (it_[2], it_[2][::-1]):
                            if v_[0] == "op" and v_[1] == "Sub" and v_[2][1] == const(1) and ring_len_any(v_[2][0]):
                                L_, sum_ = v_[2][0], u_
                    elif it_[0] == "op" and it_[1] == "Rem" and ring_len_any(it_[2][1]):
                        L_, sum_ = it_[2][1], it_[2][0]
                    if L_ is not None and lo == const(1) and hi_excl is not None and linear_eq(hi_excl, L_) \
                            and sum_[0] == "op" and sum_[1] == "Add" and len(sum_[2]) == 2 and o_ in sum_[2]:
                        st_ = [z for z in sum_[2] if z != o_][0]
                        if any(y == st_ for _, y in slots):
                            covered = True
        # the walk may end only where the cluster ends: at the first slot that is not shifted, when the cursor is back at the cluster
        # start, or by the failing re-insertion; a step counter may cap it only at a bound the ring walk cannot reach
        for body_fn, tb, bi, t in calls:
            a = [tb.operand(x_, bi, len(body_fn.blocks[bi].stmts)) for x_ in t.args]
            x = a[2][2][1] if a[2][0] == "call" and len(a[2][2]) == 2 else None
            x = x[2] if x is not None and x[0] == "cast" else x
            cur_ = x if x is not None and x[0] == "loopvar" else (ring_succ(x) if x is not None else None)
            if cur_ is None or cur_[0] != "loopvar" or not isinstance(cur_[1], int):
                continue
            head_ = cur_[2]
            body_ = body_fn.natural_loop(head_)
            for b_ in sorted(body_):
                for s_ in body_fn.succs(b_):
                    if s_ in body_ or not body_fn.can_return(s_):
                        continue
                    ec = walk_edge_condition(body_fn, tb, b_, s_)
                    if ec is None:
                        if body_fn.blocks[b_].term.k in ("goto", "drop", "call"):
                            continue
                        probs.append("the cluster walk has an exit that is not understood (bb%d)" % b_)
                        continue
                    c_, tr_ = ec
                    subs_ = list(subterms(c_))
                    if any(z[0] == "call" and _nm(z[1], "insert_internal") for z in subs_):
                        continue                                         # the failing re-insertion
                    if tr_ is False and any(z[0] == "index" and z[1] == ("field", otherp, "is_shifted") for z in subs_) or \
                            (tr_ is False and c_[0] == "call" and c_[1].rsplit("::", 1)[-1] in ("contains", "get", "index") and c_[2] and c_[2][0] == ("field", otherp, "is_shifted")):
                        continue                                         # the first slot that is not shifted ends the cluster
                    if c_[0] == "op" and c_[1] in ("Ne", "Eq") and tr_ is (c_[1] == "Eq") and (cur_ in c_[2] or any(ring_succ(z) == cur_ for z in c_[2])):
                        continue                                         # the cursor is back at the cluster start
                    okcap = False
                    if c_[0] == "op" and c_[1] in ("Lt", "Le") and tr_ is False and c_[2][0][0] == "loopvar" and isinstance(c_[2][0][1], int) and c_[2][0][2] == head_:
                        cnt_ = c_[2][0]
                        i0_, up_ = tb.loop_init(cnt_[1], cnt_[2]), tb.loop_update(cnt_[1], cnt_[2])
                        B_ = c_[2][1]
                        if i0_ is not None and i0_[0] == "const" and up_ == mk("Add", cnt_, const(1)):
                            # evaluated with counter = c0 + t at step t; the ring test lets t reach L - 2 at most: never binding iff
                            # c0 + L - 2 < B (for `<`) / <= B (for `<=`)
                            for L_ in (("call", "fixedbitset::FixedBitSet::len", (("field", otherp, "is_occupied"),)), ("call", "fixedbitset::FixedBitSet::len", (("field", selfp_, "is_occupied"),))):
                                at_, cc_ = linear(mk("Sub", B_, mk("Add", L_, const(i0_[1] - 2))))
                                if not at_ and (cc_ > 0 if c_[1] == "Lt" else cc_ >= 0):
                                    okcap = True
                    if not okcap:
                        probs.append("the cluster walk can stop on `%s` before the cluster ends (slots of the cluster are not carried over)" % fmt(c_)[:120])
        if calls and not covered and not probs:
            probs.append("the re-insertion sites do not cover the cluster start and every following slot of the cluster (slots read: %s)" % ", ".join(fmt(y)[:60] for _, y in slots))
        ctx.check(1 <= len(calls) <= 2 and not probs, "R06-quotient-transfer", qu.key, qu, "the re-insertion site(s) take the remainder from other.remainders at the slot being visited: the cluster start and every slot of the walk",
                  "; ".join(probs) or "%d insert_internal call sites (expected 1 or 2)" % len(calls))


def fifo_discipline(ctx, bodies):
    """R06-quotient-fifo: every VecDeque local of quotient union is used as a queue: entries enter at one end and leave
    at the other (push_back/pop_front or push_front/pop_back); anything else reorders the pending run quotients."""
    ops = {}
    qu = bodies[0]
    INS = {"push_back", "push_front", "push", "insert", "extend"}
    REM = {"pop_back", "pop_front", "pop", "pop_first", "pop_last", "remove", "swap_remove", "take", "drain"}
    OTHER = {"swap", "rotate_left", "rotate_right", "make_contiguous", "retain", "truncate", "sort", "reverse"}
    from ..paths import Origins
    for body_fn in bodies:
        org = Origins(body_fn)
        for bi, t in body_fn.calls():
            d = t.callee_decl() or ""
            if not (d.startswith("std::collections::") or d.startswith("std::vec::Vec::")) or not t.args or t.args[0].place is None or not t.args[0].place.is_local():
                continue
            nm = t.callee_name()
            if nm not in INS | REM | OTHER:
                continue
            o = org.of_local(t.args[0].place.local)
            if o is None or o.root[0] != "local":
                continue   # containers of self / other are not the pending queue
            key = body_fn.key + ":" + repr(o)
            ops.setdefault(key, []).append((nm, d.split("::")[2] if d.count("::") >= 3 else d, t.span))
    # enqueue and dequeue are decided by INDEPENDENT tests of the visited slot (a slot can both announce a later run and start an
    # earlier one): the dequeue site must not sit under the negation of the enqueue site's own test, nor the other way round
    from ..guards import atomic_facts
    for body_fn in bodies:
        tbq = TermBuilder(body_fn, ctx.prog)
        org = Origins(body_fn)
        sites = {"in": [], "out": []}
        for bi, t in body_fn.calls():
            nm = t.callee_name()
            if nm in INS | REM and t.args and t.args[0].place is not None and t.args[0].place.is_local():
                o = org.of_local(t.args[0].place.local)
                if o is not None and o.root[0] == "local" and (t.callee_decl() or "").startswith("std::collections::"):
                    heads = [h for h in body_fn.loop_heads() if bi in body_fn.natural_loop(h)]
                    if len(heads) >= 2:      # inside the cluster walk (nested in the slot loop)
                        sites["in" if nm in INS else "out"].append((bi, t))
        for bi_in, t_in in sites["in"]:
            f_in = {repr(c): tr for c, tr in atomic_facts(body_fn, ctx.prog, bi_in, tbq)}
            for bi_out, t_out in sites["out"]:
                clash = [(c, tr) for c, tr in atomic_facts(body_fn, ctx.prog, bi_out, tbq) if f_in.get(repr(c)) is (not tr)]
                ctx.check(not clash, "R06-quotient-fifo", "%s:independent-tests" % qu.key, t_out.span,
                          "the dequeue of a run quotient does not depend on the outcome of the enqueue test of the same slot",
                          "a run quotient is dequeued only when `%s` is %s, the opposite of the test under which one is enqueued: a slot that both announces a later run and starts an earlier one enqueues without dequeuing, and every following run of the cluster is re-inserted under the previous quotient"
                          % (fmt(clash[0][0])[:100] if clash else "", clash[0][1] if clash else ""))
    n = 0
    for key, lst in sorted(ops.items()):
        names = {x[0] for x in lst}
        if not (names & INS and names & REM):
            continue   # a log or scratch buffer, not a queue that is both filled and drained
        n += 1
        kinds = {x[1] for x in lst}
        good = kinds == {"VecDeque"} and names in ({"push_back", "pop_front"}, {"push_front", "pop_back"})
        ctx.check(good, "R06-quotient-fifo", "%s:%s" % (qu.key, "pending-quotients"), lst[-1][2],
                  "pending run quotients are queued and dequeued first-in first-out (%s on %s)" % (sorted(names), sorted(kinds)),
                  "the pending run quotients are kept in a %s used with %s: runs of a cluster are re-inserted under the wrong quotient unless entries leave in the order they entered (ring order is not numeric order when a cluster wraps)" % ("/".join(sorted(kinds)), sorted(names)))
    ctx.floor("R06-quotient-fifo", n, 1, "queues of pending run quotients in quotient union")


def loop_exits_only_on_exhaustion_or_err(fn, head):
    """loop may also be left through `return Err(..)`"""
    body = fn.natural_loop(head)
    for b in body:
        for s in fn.succs(b):
            if s in body or not fn.can_return(s):
                continue
            blk = fn.blocks[b]
            if blk.term.k == "switch":
                continue
            if blk.term.k in ("goto", "drop", "call"):
                continue
            return False
    return True


def walk_edge_condition(fn, tb, b, s):
    """(condition term, truth) under which control leaves block b for s, for a switch terminator; None otherwise"""
    t = fn.blocks[b].term
    if t.k != "switch":
        return None
    arms = [(int(v), bb) for v, bb in t.j["arms"]]
    vals = [v for v, bb in arms if bb == s]
    other = t.j["otherwise"]
    cond = tb.operand(t.discr, b, len(fn.blocks[b].stmts))
    if t.j.get("discr_ty") == "bool":
        if vals == [0] and other != s:
            return (cond, False)
        if (not vals and other == s) or vals == [1]:
            return (cond, True)
        return None
    if len(vals) == 1 and other != s:
        return (mk("Eq", cond, const(vals[0])), True)
    return (cond, None)
