"""Path enumeration with path-sensitive constant tracking, pointer origins and
inter-procedural effect summaries (DESIGN 2.3 / 2.4).

Events recorded along a path (dicts):
  kind="write"   root, path, how ("store" | "call" | "borrow"), callee, args (terms), value (term)
  kind="call"    callee, decl, name, local (bool), args (terms), dest local, ret (class or None)
  kind="branch"  bb, local/term of the discriminant, value taken
Return classes: "true" "false" "Ok" "Err" "Some" "None" or None (unknown); for Result/Option
returns built from a constant payload the payload constant is kept in `ret_payload`.
"""
from .terms import TermBuilder, fmt

# external callees that only hand out an alias into their `&mut self` argument
BORROWING = {"drain", "index_mut", "get_mut", "iter_mut", "as_mut", "deref_mut", "borrow_mut", "as_mut_slice", "entry",
             "first_mut", "last_mut", "get", "index", "iter", "deref", "borrow", "as_ref", "by_ref", "into_iter",
             "values_mut", "peek_mut"}
# external callees taking `&mut X` that do not change the abstract contents we track
NON_MUTATING = {"next", "fmt", "hash", "write_str", "finish", "build_hasher", "write_usize", "write_u64", "write"}

RESULT_TYS = ("std::result::Result<",)
OPTION_TYS = ("std::option::Option<",)


HANDLE_TYS = ("std::slice::IterMut<", "std::slice::Iter<", "std::collections::hash_map::IterMut<", "std::collections::hash_map::ValuesMut<",
              "std::option::Option<&", "std::iter::Enumerate<std::slice::IterMut<", "std::iter::Rev<std::slice::IterMut<",
              "std::iter::Zip<std::slice::IterMut<", "std::option::Option<(&mut", "std::option::Option<(&'_ mut",
              "std::cell::RefMut<", "std::cell::Ref<", "std::collections::hash_map::Entry<",
              "std::collections::hash_map::OccupiedEntry<", "std::collections::hash_map::VacantEntry<",
              "std::collections::btree_map::Entry<", "std::vec::Drain<", "std::collections::hash_map::Drain<")


def is_handle_ty(ty):
    """by-value objects that carry a borrow of the structure they were obtained from"""
    return ty.startswith(HANDLE_TYS)


RO_HANDLES = ("std::slice::Iter<", "std::cell::Ref<", "std::collections::hash_map::Iter<", "std::collections::btree_set::Iter<",
              "std::iter::Enumerate<std::slice::Iter<", "std::iter::Zip<std::slice::Iter<")


def is_readonly_iter_ref(ty):
    """`&mut I` where I is an iterator/handle that only holds a SHARED borrow: advancing it cannot change the collection"""
    if not ty.startswith("&mut "):
        return False
    inner = ty[5:]
    if inner.startswith(RO_HANDLES):
        return True
    if inner.startswith("std::option::Option<&") and not inner.startswith("std::option::Option<&mut") and not inner.startswith("std::option::Option<&'_ mut"):
        return True
    return False


def is_mut_access_ty(ty):
    return ty.startswith("&mut") or ty.startswith(("std::option::Option<&mut", "std::cell::RefMut<", "std::collections::hash_map::Entry<",
                                                    "std::collections::hash_map::OccupiedEntry<", "std::collections::hash_map::VacantEntry<"))


class Origin:
    """where a pointer local points: root is ("param", n) or ("local", n); path is a tuple of field names"""
    __slots__ = ("root", "path")

    def __init__(self, root, path=()):
        self.root = root
        self.path = tuple(path)

    def extend(self, names):
        return Origin(self.root, self.path + tuple(names))

    def __repr__(self):
        return "%s%s%s" % (self.root[0][0], self.root[1], "".join("." + p for p in self.path))


class Origins:
    def __init__(self, fn):
        self.fn = fn
        self._memo = {}

    def _is_handle(self, l):
        return is_handle_ty(self.fn.local_ty(l))

    def _is_ptr(self, l):
        ty = self.fn.local_ty(l)
        return ty.startswith("&") or ty.startswith("*") or is_handle_ty(ty)

    def of_local(self, l, stack=()):
        if l in self._memo:
            return self._memo[l]
        if l in stack:
            return None
        fn = self.fn
        res = None
        if 1 <= l <= fn.arg_count and not fn.defs().get(l):
            res = Origin(("param", l))
        else:
            outs = []
            for (b, i, kind, obj) in fn.defs().get(l, []):
                if kind == "stmt":
                    rv = obj.rv
                    if rv.k in ("ref", "rawptr", "copyforderef"):
                        outs.append(self.of_place(rv.place, stack + (l,)))
                    elif rv.k == "use" and rv.ops[0].place is not None:
                        outs.append(self.of_place(rv.ops[0].place, stack + (l,), value=True))
                    elif rv.k == "cast" and rv.ops[0].place is not None:
                        outs.append(self.of_place(rv.ops[0].place, stack + (l,), value=True))
                    else:
                        outs.append(None)
                elif kind == "call":
                    t = obj
                    nm = t.callee_name()
                    arr = self._array_of_refs(t, stack + (l,)) if nm == "next" else None
                    if arr is not None:
                        # `for r in [&mut a, &mut b] { .. }`: the k-th item points where the k-th reference points; which one it is
                        # on a given path is decided by the path engine (it counts the next() calls)
                        outs.append(Origin(("arrayitem", b, arr)))
                        continue
                    if t.args and t.args[0].place is not None and (nm in BORROWING or nm in ("unwrap", "expect", "get_mut", "insert", "or_insert", "or_insert_with", "into_mut", "next", "next_back", "enumerate", "rev", "take", "skip", "zip")) and self._is_ptr_like_result(l):
                        o = self.of_place(t.args[0].place, stack + (l,), value=True)
                        if o is not None and (nm in ("index_mut", "index", "get_mut", "get", "iter_mut", "iter", "first_mut", "last_mut", "entry", "values_mut")
                                              or (nm == "into_iter" and fn.local_ty(l).startswith(("std::slice::IterMut<", "std::slice::Iter<")) and not o.path[-1:] == ("[]",))):
                            o = o.extend(["[]"])
                        outs.append(o)
                    else:
                        outs.append(None)
            outs = [o for o in outs]
            if outs and all(o is not None for o in outs):
                # several defs with one common origin are fine; otherwise ambiguous
                reprs = {repr(o) for o in outs}
                if len(reprs) == 1:
                    res = outs[0]
            if res is None and not self._is_ptr(l) and not (1 <= l <= fn.arg_count):
                res = None
        self._memo[l] = res
        return res

    def _array_of_refs(self, t, stack):
        """origins of the references in a literal array whose by-value iterator `t` (a next() call) advances, else None"""
        fn = self.fn
        if not (t.args and t.args[0].place is not None and t.args[0].place.is_local()):
            return None
        l = t.args[0].place.local
        for _ in range(6):       # &mut iter -> iter local -> into_iter(array) -> array aggregate
            ds = fn.defs().get(l, [])
            if len(ds) != 1:
                return None
            b, i, kind, obj = ds[0]
            if kind == "stmt" and obj.rv.k in ("ref", "use") and (obj.rv.place or (obj.rv.ops[0].place if obj.rv.ops else None)) is not None:
                pl = obj.rv.place or obj.rv.ops[0].place
                if pl.proj and not (len(pl.proj) == 1 and pl.proj[0]["k"] == "deref"):
                    return None
                l = pl.local
            elif kind == "call" and obj.callee_name() == "into_iter" and obj.args and obj.args[0].place is not None and obj.args[0].place.is_local():
                l = obj.args[0].place.local
            elif kind == "stmt" and obj.rv.k == "aggregate" and obj.rv.j.get("ak") == "array":
                outs = []
                for o in obj.rv.ops:
                    if o.place is None or not o.place.is_local() or not fn.local_ty(o.place.local).startswith("&"):
                        return None
                    oo = self.of_local(o.place.local, stack)
                    if oo is None:
                        return None
                    outs.append(oo)
                return tuple(outs) if outs else None
            else:
                return None
        return None

    def _is_ptr_like_result(self, l):
        ty = self.fn.local_ty(l)
        return self._is_ptr(l) or ty.startswith("std::option::Option<&") or ty.startswith("std::option::Option<(&")

    def of_place(self, place, stack=(), value=False):
        """origin of the memory denoted by `place` (value=False) or of the pointer stored in it (value=True)"""
        fn = self.fn
        base = place.local
        proj = place.proj
        # base: a pointer local we can resolve, or a plain local / by-value param
        if proj and proj[0]["k"] == "deref":
            o = self.of_local(base, stack)
            if o is None:
                return None
            rest = proj[1:]
        else:
            if value and not proj:
                return self.of_local(base, stack)
            if self._is_handle(base):
                # a RefMut / Entry local: its memory *is* the borrowed structure for our purposes
                o = self.of_local(base, stack)
                if o is None:
                    return None
                if fn.local_ty(base).startswith("std::option::Option<(&"):
                    # item of a Zip whose FIRST stream is the mutable one: only component 0 of the pair points into it
                    flds = [p.get("i") for p in proj if p["k"] == "field"]
                    if len(flds) < 2 or flds[1] != 0:
                        return None
                names = []
                return o
            if 1 <= base <= fn.arg_count:
                o = Origin(("param", base))
            else:
                o = Origin(("local", base))
            rest = proj
        names = []
        for p in rest:
            k = p["k"]
            if k == "field":
                names.append(p["name"] if p.get("name") is not None else str(p["i"]))
            elif k == "deref":
                # pointer stored inside a structure: give up precision but keep the root
                names.append("*")
            elif k in ("index", "constindex", "subslice"):
                names.append("[]")
            elif k == "downcast":
                continue
            else:
                names.append("?")
        return o.extend(names)


def ret_class_of_ty(ty):
    if ty is None:
        return None
    if ty == "bool":
        return "bool"
    if ty.startswith(RESULT_TYS):
        return "result"
    if ty.startswith(OPTION_TYS):
        return "option"
    return None


VARIANT_IDX = {"Ok": 0, "Err": 1, "None": 0, "Some": 1, "Continue": 0, "Break": 1,
               "Occupied": 0, "Vacant": 1}
IDX_VARIANT = {"result": {0: "Ok", 1: "Err"}, "option": {0: "None", 1: "Some"}, "controlflow": {0: "Continue", 1: "Break"},
               "entry": {0: "Occupied", 1: "Vacant"}}


def enum_kind_of_ty(ty):
    if ty.startswith("std::result::Result<"):
        return "result"
    if ty.startswith("std::option::Option<"):
        return "option"
    if ty.startswith("std::ops::ControlFlow<"):
        return "controlflow"
    if ty.startswith("std::collections::hash_map::Entry<"):
        return "entry"
    return None


class Path:
    __slots__ = ("blocks", "events", "ret", "ret_payload", "env", "exit_kind", "fn", "state")

    def __init__(self):
        self.blocks = []
        self.events = []
        self.ret = None
        self.ret_payload = None
        self.env = {}
        self.exit_kind = None
        self.fn = None
        self.state = None

    def writes(self):
        return [e for e in self.events if e["kind"] == "write"]

    def calls(self, name=None):
        return [e for e in self.events if e["kind"] == "call" and (name is None or e["name"] == name)]


class Summaries:
    """memoised per-function alternatives: list of (events, ret, ret_payload)"""

    def __init__(self, prog, max_back=1, limit=20000, collapse=False):
        self.collapse = collapse
        self.prog = prog
        self.max_back = max_back
        self.limit = limit
        self._memo = {}
        self._in_progress = set()
        self.truncated = set()

    def alternatives(self, key):
        if key in self._memo:
            return self._memo[key]
        if key in self._in_progress:
            return None  # recursion: caller treats as opaque
        fn = self.prog.fn(key)
        if fn is None:
            return None
        self._in_progress.add(key)
        try:
            alts = {}
            pe = PathEnumerator(fn, self.prog, self, max_back=self.max_back, limit=self.limit)
            for p in pe.paths():
                if p.exit_kind != "return":
                    continue
                ws = [e for e in p.events if e["kind"] == "write" and e["root"][0] == "param"]
                if self.collapse:
                    seen = set()
                    ws2 = []
                    for e in ws:
                        fk = _freeze_event(e)
                        if fk not in seen:
                            seen.add(fk)
                            ws2.append(e)
                    ws = ws2
                evs = tuple(_freeze_event(e) for e in ws)
                k = (evs, p.ret, repr(p.ret_payload))
                if k not in alts:
                    alts[k] = (ws, p.ret, p.ret_payload)
            if pe.truncated:
                self.truncated.add(key)
            out = list(alts.values())
        finally:
            self._in_progress.discard(key)
        self._memo[key] = out
        return out


def _freeze_event(e):
    return (e["root"], e["path"], e["how"], e.get("callee"), e.get("origin_fn"), e.get("bb"), e.get("idx"))


class PathEnumerator:
    """Enumerates CFG paths (normal edges, each back edge at most `max_back` times) with
    path-sensitive tracking of constant locals / enum variants, inlining the summaries of
    crate-local callees.

    Two modes: `paths()` yields complete Path objects; `fold(init, step, on_exit)` threads a
    hashable abstract state through the events and prunes program states already visited
    (bb, state, tracked constants) — a small explicit-state exploration that stays cheap on
    functions whose plain path count explodes (quotient-filter union)."""

    def __init__(self, fn, prog, summaries=None, max_back=1, limit=20000, inline=True, subst=None):
        self.fn = fn
        self.prog = prog
        self.summ = summaries
        self.max_back = max_back
        self.limit = limit
        self.inline = inline
        self.tb = TermBuilder(fn, prog, subst)     # subst: parameter -> term (a closure analysed in the frame of its creator)
        self.origins = Origins(fn)
        self.truncated = False
        self._count = 0
        self.back = set(fn.back_edges())
        self._step = None
        self._visited = None
        self.explored_states = 0
        self._cond_cache = {}

    # ------------------------------------------------------------------------------
    def paths(self):
        self._step = None
        self._visited = None
        yield from self._walk(0, (), None, {}, {}, {}, None)

    def fold(self, init, step, on_exit):
        """step(state, event) -> state ; on_exit(state, path) called for every distinct exit state"""
        self._step = step
        self._visited = set()
        for q in self._walk(0, (), None, {}, {}, {}, init):
            on_exit(q.state, q)

    def _emit(self, blocks, evs, kind, env, state):
        q = Path()
        q.fn = self.fn
        q.blocks = list(blocks)
        out = []
        while evs is not None:
            out.append(evs[1])
            evs = evs[0]
        out.reverse()
        q.events = out
        q.env = dict(env)
        q.exit_kind = kind
        q.state = state
        return q

    def _push(self, evs, state, ev):
        if self._step is not None:
            state = self._step(state, ev)
            if ev["kind"] != "write" and ev["kind"] != "call":
                return evs, state
        return (evs, ev), state

    @staticmethod
    def path_facts(p):
        """[(cond_term, truth)] for the bool branches taken along a recorded path"""
        from .terms import mk, const
        out = []
        for e in p.events:
            if e["kind"] != "branch" or e.get("cond") is None:
                continue
            if e.get("discr_ty") == "bool" and e["value"] in (0, 1):
                out.append((e["cond"], bool(e["value"])))
            elif e.get("discr_ty") in ("usize", "u64", "u32", "u8", "u16", "i32", "i64", "isize"):
                if isinstance(e["value"], int):
                    from .guards import checked_outcome
                    f0 = (mk("Eq", e["cond"], const(e["value"])), True)
                    out.append(checked_outcome(*f0) or f0)
                elif e["value"] == "otherwise":
                    for v in e.get("arm_values", ()):
                        out.append((mk("Eq", e["cond"], const(v)), False))
        from .guards import remember_facts
        return remember_facts(out)

    def _walk(self, bb, blocks, evs, env, cls, backcount, state):
        """env: local -> int constant; cls: local -> (variant class, payload)"""
        if self._count > self.limit:
            self.truncated = True
            return
        fn = self.fn
        if self._visited is not None:
            vk = (bb, state, tuple(sorted(env.items())), tuple(sorted((k, v[0]) for k, v in cls.items())), tuple(sorted(backcount.items())))
            if vk in self._visited:
                return
            self._visited.add(vk)
            self.explored_states += 1
        blk = fn.blocks[bb]
        blocks = blocks + (bb,)
        env = dict(env)
        cls = dict(cls)
        for si, st in enumerate(blk.stmts):
            if st.k == "assign":
                ev = self._assign(st, bb, si, env, cls)
                if isinstance(ev, list):
                    for e1 in ev:
                        evs, state = self._push(evs, state, e1)
                elif ev is not None:
                    if ev.get("root") and ev["root"][0] == "arrayitem":
                        ro = self._resolve_origin(Origin(ev["root"], ev["path"]), evs)
                        ev = dict(ev, root=ro.root if ro else ("unknown", "array item"), path=ro.path if ro else ev["path"])
                    evs, state = self._push(evs, state, ev)
        t = blk.term
        k = t.k
        if k == "return":
            self._count += 1
            q = self._emit(blocks, evs, "return", env, state)
            rty = enum_kind_of_ty(fn.local_ty(0)) or ("bool" if fn.local_ty(0) == "bool" else None)
            if 0 in cls:
                q.ret = cls[0][0]
                q.ret_payload = cls[0][1]
            elif rty == "bool" and 0 in env:
                q.ret = "true" if env[0] else "false"
            if self._step is not None:
                q.state = self._step(state, {"kind": "return", "ret": q.ret, "ret_payload": q.ret_payload, "bb": bb, "span": t.span})
            yield q
            return
        if k in ("unreachable", "resume", "terminate", "other"):
            self._count += 1
            yield self._emit(blocks, evs, "diverge", env, state)
            return
        if k in ("goto", "drop"):
            yield from self._next(bb, t.j["target"], blocks, evs, env, cls, backcount, state)
            return
        if k == "assert":
            evs2, state2 = self._push(evs, state, {"kind": "assert", "bb": bb, "akind": t.j["kind"], "span": t.span})
            yield from self._next(bb, t.j["target"], blocks, evs2, env, cls, backcount, state2)
            return
        if k == "switch":
            d = t.discr
            val = None
            if d.place is not None and d.place.is_local() and d.place.local in env:
                val = env[d.place.local]
            elif d.k == "const":
                v = d.value()
                val = int(v) if v is not None else None
            arms = [(int(v), b) for v, b in t.j["arms"]]
            other = t.j["otherwise"]
            if val is not None:
                tgt = other
                for v, b in arms:
                    if v == val:
                        tgt = b
                yield from self._next(bb, tgt, blocks, evs, env, cls, backcount, state)
                return
            dl = d.place.local if (d.place is not None and d.place.is_local()) else None
            taken = set()
            ck = ("cond", bb)
            if ck not in self._cond_cache:
                self._cond_cache[ck] = self.tb.operand(d, bb, len(blk.stmts))
            cond = self._cond_cache[ck]
            dty = t.j.get("discr_ty")
            chain = self._copy_chain(dl) if dl is not None else []
            for v, b in arms:
                e2 = dict(env)
                if dl is not None:
                    e2[dl] = v
                    for x in chain:
                        e2[x] = v
                evs2, state2 = self._push(evs, state, {"kind": "branch", "bb": bb, "local": dl, "value": v, "span": t.span, "cond": cond, "discr_ty": dty})
                c2 = self._refine_cls(bb, dl, v, cls)
                yield from self._next(bb, b, blocks, evs2, e2, c2, backcount, state2)
                taken.add(v)
            if not (fn.blocks[other].term.k == "unreachable" and not fn.blocks[other].stmts):
                e2 = dict(env)
                ov = None
                if dl is not None and fn.local_ty(dl) == "bool" and taken == {0}:
                    ov = 1
                    e2[dl] = 1
                    for x in chain:
                        e2[x] = 1
                elif dl is None and dty == "bool" and taken == {0}:
                    ov = 1        # a bool read through a projection (`match (a, b)` switches on the tuple's fields)
                elif dl is not None and len(taken) == 1 and taken <= {0, 1}:
                    # `if let Some(x) = opt` / `while let`: the otherwise edge of a two-variant enum's discriminant is the other variant
                    for st_ in reversed(fn.blocks[bb].stmts):
                        if st_.k == "assign" and st_.place.is_local() and st_.place.local == dl:
                            if st_.rv.k == "discr":
                                src_ty = fn.local_ty(st_.rv.place.local) if st_.rv.place.is_local() else ""
                                if enum_kind_of_ty(src_ty) in ("option", "result"):
                                    ov = 1 - next(iter(taken))
                            break
                evs2, state2 = self._push(evs, state, {"kind": "branch", "bb": bb, "local": dl, "value": ov if ov is not None else "otherwise", "span": t.span, "cond": cond, "discr_ty": dty,
                                                       "arm_values": tuple(v for v, _ in arms)})
                c2 = self._refine_cls(bb, dl, ov, cls) if ov is not None else cls
                yield from self._next(bb, other, blocks, evs2, e2, c2, backcount, state2)
            return
        if k == "call":
            yield from self._call(bb, t, blocks, evs, env, cls, backcount, state)
            return

    def _copy_chain(self, l):
        """locals that l is a plain copy of (single-definition temporaries only)"""
        out = []
        fn = self.fn
        seen = {l}
        while True:
            defs = fn.defs().get(l, [])
            if len(defs) != 1 or defs[0][2] != "stmt":
                break
            rv = defs[0][3].rv
            if rv.k == "use" and rv.ops[0].place is not None and rv.ops[0].place.is_local():
                src = rv.ops[0].place.local
                if src in seen:
                    break
                # the source must itself be defined once (otherwise its value may change between copy and use)
                if len(fn.defs().get(src, [])) != 1 and not (1 <= src <= fn.arg_count and not fn.defs().get(src)):
                    break
                out.append(src)
                seen.add(src)
                l = src
            else:
                break
        return out

    def _next(self, frm, to, blocks, evs, env, cls, backcount, state):
        if self.fn.blocks[to].cleanup:
            return
        if (frm, to) in self.back:
            c = backcount.get((frm, to), 0)
            if c >= max(self.max_back, self._array_loop_len(to)):
                return
            backcount = dict(backcount)
            backcount[(frm, to)] = c + 1
        yield from self._walk(to, blocks, evs, env, cls, backcount, state)

    # ------------------------------------------------------------------------------
    def _array_loop_len(self, head):
        """number of items when the loop at `head` iterates a literal array (`for x in &[a, b]`), else 0"""
        if not hasattr(self, "_arr_len"):
            self._arr_len = {}
        if head not in self._arr_len:
            n = 0
            fn = self.fn
            if head in fn.loop_heads():
                for b in fn.natural_loop(head):
                    t = fn.blocks[b].term
                    if t.k == "call" and t.callee_name() == "next" and len(t.args) == 1:
                        a = self.tb.operand(t.args[0], b, len(fn.blocks[b].stmts))
                        if a[0] == "loopvar" and a[2] == head:
                            init = self.tb.loop_init(a[1], a[2])
                            if init[0] == "array" and len(init[1]) <= 4:
                                n = len(init[1])
            self._arr_len[head] = n
        return self._arr_len[head]

    def _tuple_field_source(self, place, at_bb):
        """for `_t.k` where _t is built once as a tuple of plain locals: the local that was put into field k, provided it cannot have
        been reassigned between the construction of the tuple and block at_bb"""
        fn = self.fn
        flds = [pr for pr in place.proj if pr["k"] == "field"]
        if len(place.proj) != 1 or len(flds) != 1:
            return None
        ds = fn.defs().get(place.local, [])
        if len(ds) != 1 or ds[0][2] != "stmt" or ds[0][3].rv.k != "aggregate" or ds[0][3].rv.j.get("ak") != "tuple":
            return None
        tb_, ti = ds[0][0], ds[0][1]
        ops = ds[0][3].rv.ops
        k = flds[0].get("i")
        if k is None or k >= len(ops) or ops[k].place is None or not ops[k].place.is_local():
            return None
        src = ops[k].place.local
        # the operand is usually a temporary copied from the interesting local a statement earlier in the same block
        sd = fn.defs().get(src, [])
        if len(sd) == 1 and sd[0][2] == "stmt" and sd[0][0] == tb_ and sd[0][1] < ti and sd[0][3].rv.k == "use" \
                and sd[0][3].rv.ops[0].place is not None and sd[0][3].rv.ops[0].place.is_local():
            orig = sd[0][3].rv.ops[0].place.local
            if not any(b == tb_ and sd[0][1] < i < ti for (b, i, kind, obj) in fn.defs().get(orig, [])):
                src = orig
        from .guards import reach_without
        for (b, i, kind, obj) in fn.defs().get(src, []):
            if b == tb_ and i < ti:
                continue
            if b == tb_ and i > ti and at_bb == tb_:
                return None
            if b != tb_ and (b == at_bb or reach_without(fn, b, at_bb, tb_)) and fn.dominates(tb_, b):
                return None
        if src in self.tb.clobbers():
            return None
        return src

    def _refine_cls(self, bb, dl, v, cls):
        """after branching on local dl == v, refine variant classes through `discriminant(x)` defs"""
        if dl is None:
            return cls
        fn = self.fn
        # find the def of dl in this block: `_dl = discriminant(place)`
        for st in reversed(fn.blocks[bb].stmts):
            if st.k == "assign" and st.place.is_local() and st.place.local == dl:
                if st.rv.k == "discr":
                    src = st.rv.place.local if st.rv.place.is_local() else self._tuple_field_source(st.rv.place, bb)
                    if src is not None:
                        kind = enum_kind_of_ty(fn.local_ty(src))
                        if kind and v in IDX_VARIANT[kind]:
                            c2 = dict(cls)
                            old = cls.get(src)
                            c2[src] = (IDX_VARIANT[kind][v], old[1] if old else None)
                            return c2
                break
        return cls

    def _set_local(self, l, env, cls, val=None, c=None):
        env.pop(l, None)
        cls.pop(l, None)
        if val is not None and l in self.tb.clobbers() and self.fn.local_ty(l) in ("bool", "usize", "u64", "u32", "u8", "i32", "i64", "isize"):
            # a scalar whose address is taken mutably (captured by a closure, passed as an out-parameter) may be changed behind
            # the back of this path: its constant is not tracked
            return
        if val is not None:
            env[l] = val
        if c is not None:
            cls[l] = c

    def _assign(self, st, bb, si, env, cls):
        fn = self.fn
        pl = st.place
        rv = st.rv
        if pl.is_local():
            l = pl.local
            val = None
            c = None
            if rv.k == "use":
                o = rv.ops[0]
                if o.k == "const":
                    v = o.value()
                    if isinstance(v, bool):
                        val = int(v)
                    elif isinstance(v, int):
                        val = v
                elif o.place is not None and o.place.is_local():
                    src = o.place.local
                    val = env.get(src)
                    c = cls.get(src)
            elif rv.k == "discr":
                src = rv.place.local if rv.place.is_local() else self._tuple_field_source(rv.place, bb)
                if src is not None and src in cls and cls[src][0] in VARIANT_IDX:
                    val = VARIANT_IDX[cls[src][0]]
                elif src is not None and src in cls and isinstance(cls[src][0], str) and cls[src][0].startswith("variant#"):
                    val = int(cls[src][0][8:])       # a crate-local enum value built on this path (`Phase::FillUp`)
            elif rv.k == "aggregate" and rv.j["ak"] == "adt":
                kind = enum_kind_of_ty(fn.local_ty(l))
                if kind:
                    payload = None
                    if rv.ops:
                        o = rv.ops[0]
                        if o.k == "const":
                            payload = ("const", o.value())
                        elif o.place is not None and o.place.is_local() and o.place.local in env and fn.local_ty(o.place.local) == "bool":
                            payload = ("const", bool(env[o.place.local]))
                        else:
                            payload = ("term", self.tb.operand(o, bb, si))
                    c = (rv.j["variant"], payload)
                elif not rv.ops and isinstance(rv.j.get("vidx"), int):
                    c = ("variant#%d" % rv.j["vidx"], None)
            elif rv.k == "unop" and rv.j["op"] == "Not":
                o = rv.ops[0]
                if o.place is not None and o.place.is_local() and o.place.local in env and fn.local_ty(l) == "bool":
                    val = 0 if env[o.place.local] else 1
            elif rv.k == "binop" and rv.j["op"] in ("Eq", "Ne", "BitAnd", "BitOr") and fn.local_ty(l) == "bool":
                vals = []
                for o in rv.ops:
                    if o.k == "const":
                        v = o.value()
                        vals.append(int(v) if isinstance(v, (bool, int)) else None)
                    elif o.place is not None and o.place.is_local():
                        vals.append(env.get(o.place.local))
                    else:
                        vals.append(None)
                a, b = vals
                opn = rv.j["op"]
                if a is not None and b is not None:
                    val = int({"Eq": a == b, "Ne": a != b, "BitAnd": bool(a) and bool(b), "BitOr": bool(a) or bool(b)}[opn])
                elif opn == "BitAnd" and (a == 0 or b == 0):
                    val = 0
                elif opn == "BitOr" and (a == 1 or b == 1):
                    val = 1
            self._set_local(l, env, cls, val, c)
            if rv.k == "ref" and rv.j.get("bk") == "mut" and rv.place is not None and any(pr["k"] == "index" for pr in rv.place.proj):
                # `&mut slice[j]` on a slice view (built-in indexing, no call to IndexMut): the same borrow event the overloaded
                # operator produces, so that rules see which cell is about to be written
                o_ = self.origins.of_place(rv.place)
                ix = [pr for pr in rv.place.proj if pr["k"] == "index"][0]
                if o_ is not None and o_.root[0] == "param":
                    base_t = self.tb.local(rv.place.local, bb, si)
                    return {"kind": "write", "root": o_.root, "path": tuple(x for x in o_.path if x != "[]"), "how": "borrow", "callee": None, "name": "index_mut",
                            "args": [base_t, self.tb.local(ix["local"], bb, si)], "value": None, "bb": bb, "idx": si, "span": st.span,
                            "origin_fn": self.fn.key, "argi": 0, "via": ()}
            return None
        # store through a projection: is it a write into memory rooted at a parameter / tracked local?
        o = self.origins.of_place(pl)
        if o is not None and o.root[0] == "param" and not o.path and len(pl.proj) == 1 and pl.proj[0]["k"] == "deref":
            # `*self = <value>`: a store to every field; expand through a constructor call when the value is one
            v = self.tb.rvalue(rv, bb, si)
            if v[0] == "call" and self.prog is not None and self.prog.fn(v[1]) is not None and not self.prog.fn(v[1]).loop_heads():
                cf = self.prog.fn(v[1])
                sub = {i + 1: a for i, a in enumerate(v[2])}
                v2 = TermBuilder(cf, self.prog, sub, depth=1).return_term()
                from .terms import _closure_hook
                _closure_hook[0] = self.tb._apply_closure_hook
                if v2[0] == "adt":
                    v = v2
            if v[0] == "adt":
                evs = []
                for fname, ft in v[3]:
                    evs.append({"kind": "write", "root": o.root, "path": (fname,), "how": "store", "callee": None, "name": None,
                                "value": ft, "value_local": None, "args": [], "bb": bb, "idx": si, "span": st.span,
                                "origin_fn": self.fn.key, "place": str(pl) + "." + fname, "via": (), "whole_self": True})
                return evs
        if o is not None and (o.root[0] == "param" or pl.proj and pl.proj[0]["k"] == "deref"):
            src = None
            if rv.k == "use" and rv.ops[0].place is not None and rv.ops[0].place.is_local():
                src = rv.ops[0].place.local
            return {
                "kind": "write", "root": o.root, "path": o.path, "how": "store", "callee": None, "name": None,
                "value": self.tb.rvalue(rv, bb, si), "value_local": src, "args": [], "bb": bb, "idx": si, "span": st.span,
                "origin_fn": self.fn.key, "place": str(pl), "via": (),
            }
        elif o is not None and o.root[0] == "local":
            # field store into a local aggregate: kills what we know about it
            self._set_local(o.root[1], env, cls)
        return None

    # ------------------------------------------------------------------------------
    def _call(self, bb, t, blocks, evs, env, cls, backcount, state):
        fn = self.fn
        idx = len(fn.blocks[bb].stmts)
        name = t.callee_name()
        callee = t.callee()
        decl = t.callee_decl()
        args = [self.tb.operand(a, bb, idx) for a in t.args]
        dest = t.dest.local if t.dest.is_local() else None
        target = t.j["target"]

        # pointer arguments and where they point
        ptr_args = []
        for i, a in enumerate(t.args):
            if a.place is None:
                ptr_args.append(None)
                continue
            ty = None
            if a.place.is_local():
                ty = fn.local_ty(a.place.local)
            o = self._resolve_origin(self.origins.of_place(a.place, value=True), evs) if a.place.is_local() else None
            ptr_args.append((ty, o))

        ev = {"kind": "call", "callee": callee, "decl": decl, "name": name, "local": t.callee_is_local(),
              "args": args, "dest": dest, "bb": bb, "span": t.span, "ret": None, "ret_payload": None,
              "ptr_args": ptr_args, "term": t, "origin_fn": fn.key}

        if name in ("unwrap", "expect") and t.args and t.args[0].place is not None and t.args[0].place.is_local():
            v = cls.get(t.args[0].place.local)
            ev["arg_variant"] = v[0] if v else None
        alts = None
        if self.inline and self.summ is not None and t.callee_is_local() and self.prog.fn(callee) is not None:
            alts = self.summ.alternatives(callee)

        if alts is not None:
            if not alts:
                if target is None:
                    self._count += 1
                    evs2, state2 = self._push(evs, state, ev)
                    yield self._emit(blocks, evs2, "diverge", env, state2)
                return
            for (wevs, ret, payload) in alts:
                e2 = dict(ev)
                e2["ret"] = ret
                e2["ret_payload"] = payload
                evs2, state2 = self._push(evs, state, e2)
                for w in wevs:
                    rb = self._rebase(w, ptr_args, t, args)
                    if rb is not None:
                        evs2, state2 = self._push(evs2, state2, rb)
                evs2, state2 = self._push(evs2, state2, {"kind": "callend", "callee": callee, "name": name, "bb": bb, "ret": ret, "span": t.span})
                env2, cls2 = dict(env), dict(cls)
                if dest is not None:
                    val = None
                    c = None
                    if ret in ("true", "false"):
                        val = 1 if ret == "true" else 0
                    elif ret is not None:
                        c = (ret, payload)
                    self._set_local(dest, env2, cls2, val, c)
                if target is None:
                    self._count += 1
                    yield self._emit(blocks, evs2, "diverge", env2, state2)
                else:
                    yield from self._next(bb, target, blocks, evs2, env2, cls2, backcount, state2)
            return

        # external / opaque callee ------------------------------------------------
        evs2, state2 = self._push(evs, state, ev)
        for i, pa in enumerate(ptr_args):
            if pa is None:
                continue
            ty, o = pa
            if ty is None or o is None:
                continue
            if not is_mut_access_ty(ty) or is_readonly_iter_ref(ty):
                continue
            if name in NON_MUTATING:
                continue
            how = "borrow" if name in BORROWING else "call"
            evs2, state2 = self._push(evs2, state2, {
                "kind": "write", "root": o.root, "path": o.path, "how": how, "callee": callee,
                "name": name, "args": args, "value": None, "bb": bb, "idx": idx, "span": t.span,
                "origin_fn": self.fn.key, "argi": i, "via": ()})
        # a closure handed to an external higher-order function (fold, for_each, all, ...): what the closure writes through its
        # captured references is written by this call — an unknown number of times, once per item the function visits
        clo_evs = []
        for i, a in enumerate(t.args):
            clo = self._closure_arg(a)
            if clo is None or self.summ is None or self.prog is None or self.prog.fn(clo[0]) is None:
                continue
            ckey, ops, cbb, csi = clo
            from .terms import subst_term, elem_of
            cfn = self.prog.fn(ckey)
            item_param = 3 if name in ("fold", "try_fold") else 2
            m = {}
            if i > 0 and args and item_param <= cfn.arg_count:
                m[("param", item_param, cfn.local_name(item_param))] = elem_of(args[0])
            seen_w = set()
            for (wevs, ret, payload) in (self.summ.alternatives(ckey) or []):
                for w in wevs:
                    if w["root"] != ("param", 1) or not w["path"] or not str(w["path"][0]).isdigit() or int(w["path"][0]) >= len(ops):
                        continue
                    op = ops[int(w["path"][0])]
                    o = self.origins.of_place(op.place, value=True) if op.place is not None and op.place.is_local() else None
                    e = dict(w)
                    if o is None:
                        e["root"] = ("unknown", str(op))
                        e["path"] = tuple(w["path"][1:])
                    else:
                        e["root"] = o.root
                        e["path"] = o.path + tuple(w["path"][1:])
                    e["args"] = [subst_term(x, m) for x in w.get("args", [])]
                    if w.get("value") is not None:
                        e["value"] = subst_term(w["value"], m)
                    # writes the closure performs itself count as writes of this function; those of functions it calls keep their chain
                    e.update({"bb": bb, "idx": idx, "span": w.get("span", t.span), "origin_fn": self.fn.key, "via": tuple(w.get("via", ())), "closure": ckey, "hof": name})
                    k = (repr(e["root"]), e["path"], e["how"], e.get("name"), repr(e["args"]), repr(e.get("value")))
                    if k in seen_w:
                        continue
                    seen_w.add(k)
                    clo_evs.append(e)
        # `r.map_err(|e| { undo(); e })`: the closure runs exactly when r is Err, and the result has r's variant
        cond_variant = None
        if name == "map_err" and decl.startswith("std::result::Result") and clo_evs and t.args and t.args[0].place is not None and t.args[0].place.is_local():
            srcl_ = t.args[0].place.local
            known_v = cls.get(srcl_, (None, None))[0]
            if known_v in ("Ok", "Err"):
                cond_variant = [known_v]
            else:
                cond_variant = ["Ok", "Err"]
        if cond_variant is None:
            for e in clo_evs:
                evs2, state2 = self._push(evs2, state2, e)
        elif target is not None and dest is not None:
            for v_ in cond_variant:
                evs3, state3 = evs2, state2
                if v_ == "Err":
                    for e in clo_evs:
                        evs3, state3 = self._push(evs3, state3, e)
                e3, c3 = dict(env), dict(cls)
                self._set_local(dest, e3, c3)
                c3[dest] = (v_, cls.get(t.args[0].place.local, (None, None))[1] if v_ == "Ok" else None)
                yield from self._next(bb, target, blocks, evs3, e3, c3, backcount, state3)
            return
        env2, cls2 = dict(env), dict(cls)
        forks = [(None, None)]
        if dest is not None:
            self._set_local(dest, env2, cls2)
            # path-sensitive modelling of a few std predicates on tracked enums
            if name in ("is_err", "is_ok", "is_some", "is_none") and t.args and t.args[0].place is not None:
                src = self._pointee_local(t.args[0].place)
                if src is not None:
                    if src in cls:
                        v = cls[src][0]
                        truth = {"is_err": v == "Err", "is_ok": v == "Ok", "is_some": v == "Some", "is_none": v == "None"}[name]
                        env2[dest] = int(truth)
                    else:
                        kind = enum_kind_of_ty(fn.local_ty(src))
                        if kind in ("result", "option"):
                            pos, neg = {"is_err": ("Err", "Ok"), "is_ok": ("Ok", "Err"), "is_some": ("Some", "None"), "is_none": ("None", "Some")}[name]
                            forks = [(1, (src, pos)), (0, (src, neg))]
            elif name == "branch" and decl == "std::ops::Try::branch" and t.args and t.args[0].place is not None and t.args[0].place.is_local():
                src = t.args[0].place.local
                if src in cls:
                    v = cls[src][0]
                    cls2[dest] = ("Continue" if v in ("Ok", "Some") else "Break", cls[src][1])
                else:
                    kind = enum_kind_of_ty(fn.local_ty(src))
                    if kind in ("result", "option"):
                        forks = [("cf", ("Continue", src)), ("cf", ("Break", src))]
            elif name == "from_residual":
                kind = enum_kind_of_ty(fn.local_ty(dest))
                if kind == "result":
                    cls2[dest] = ("Err", None)
                elif kind == "option":
                    cls2[dest] = ("None", None)
            elif name == "entry" and decl.endswith("HashMap::entry"):
                forks = [("cls", ("Occupied",)), ("cls", ("Vacant",))]
            elif name == "next" and len(args) == 1 and args[0][0] == "loopvar":
                # iterating a literal array `[a, b]`: exactly len items, so the k-th next() on a path is Some for k < len, None after
                init = self.tb.loop_init(args[0][1], args[0][2])
                if init[0] == "array" and 1 <= len(init[1]) <= 4:
                    done = -1      # (the event of this very call is already on the list)
                    node = evs2
                    while node:
                        node, e_ = node
                        if e_["kind"] == "call" and e_["bb"] == bb and e_["name"] == "next":
                            done += 1
                    cls2[dest] = ("Some" if done < len(init[1]) else "None", None)
        if target is None:
            self._count += 1
            yield self._emit(blocks, evs2, "diverge", env2, state2)
            return
        for fk in forks:
            e3, c3 = dict(env2), dict(cls2)
            if fk[0] == "cf":
                c3[dest] = (fk[1][0], None)
                srcl = fk[1][1]
                kind = enum_kind_of_ty(fn.local_ty(srcl))
                if kind == "result":
                    c3[srcl] = ("Ok" if fk[1][0] == "Continue" else "Err", None)
                elif kind == "option":
                    c3[srcl] = ("Some" if fk[1][0] == "Continue" else "None", None)
            elif fk[0] == "cls":
                c3[dest] = (fk[1][0], None)
                # the variant this path assumes for the call's result (HashMap::entry: Occupied / Vacant)
                evs3, state3 = self._push(evs2, state2, {"kind": "assume", "variant": fk[1][0], "of": ev, "bb": bb, "span": t.span})
                yield from self._next(bb, target, blocks, evs3, e3, c3, backcount, state3)
                continue
            elif fk[0] is not None:
                e3[dest] = fk[0]
                c3[fk[1][0]] = (fk[1][1], cls.get(fk[1][0], (None, None))[1])
            yield from self._next(bb, target, blocks, evs2, e3, c3, backcount, state2)

    def _resolve_origin(self, o, evs):
        """an ("arrayitem", next_bb, origins) root stands for the reference handed out by the latest next() call at next_bb on this path"""
        if o is None or o.root[0] != "arrayitem":
            return o
        k = 0
        node = evs
        while node:
            node, e_ = node
            if e_["kind"] == "call" and e_["bb"] == o.root[1] and e_["name"] == "next":
                k += 1
        arr = o.root[2]
        if 1 <= k <= len(arr):
            return arr[k - 1].extend(o.path)
        return None

    def _closure_arg(self, a):
        """(closure key, captured operands, bb, stmt index) when operand `a` is a local holding a closure built in this function"""
        if a.place is None or not a.place.is_local():
            return None
        fn = self.fn
        for (b, i, kind, obj) in fn.defs().get(a.place.local, []):
            if kind == "stmt" and obj.rv.k == "aggregate" and obj.rv.j.get("ak") == "closure":
                key = obj.rv.j.get("def") or obj.rv.j.get("closure") or obj.rv.j.get("key")
                if key:
                    return key, obj.rv.ops, b, i
        return None

    def _pointee_local(self, place):
        """for `&_x` passed as an argument: the local x"""
        fn = self.fn
        if not place.is_local():
            return None
        l = place.local
        for (b, i, kind, obj) in fn.defs().get(l, []):
            if kind == "stmt" and obj.rv.k == "ref" and obj.rv.place.is_local():
                return obj.rv.place.local
        return None

    def _rebase(self, w, ptr_args, t, args=None):
        """translate a callee write event (rooted at callee param) into the caller's frame"""
        if args is not None and self.prog is not None and (w.get("args") or w.get("value") is not None):
            # the callee's parameters in the terms of the event are the caller's argument terms
            cf = self.prog.fn(t.callee())
            if cf is not None:
                from .terms import subst_term
                m = {("param", i + 1, cf.local_name(i + 1)): a for i, a in enumerate(args) if i + 1 <= cf.arg_count}
                w = dict(w)
                if w.get("args"):
                    w["args"] = [subst_term(x, m) for x in w["args"]]
                if w.get("value") is not None:
                    w["value"] = subst_term(w["value"], m)
        root = w["root"]
        if root[0] != "param":
            return None
        i = root[1] - 1
        if i >= len(ptr_args) or ptr_args[i] is None:
            return None
        ty, o = ptr_args[i]
        if o is None:
            return {**w, "root": ("unknown", str(t.args[i])), "via": (w.get("via", ()) + (t.callee(),))}
        e = dict(w)
        e["root"] = o.root
        e["path"] = o.path + w["path"]
        e["via"] = (t.callee(),) + w.get("via", ())
        return e


def describe_event(e):
    if e["kind"] == "write":
        return "write %s%s%s via %s" % (e["root"][0][0], e["root"][1], "".join("." + x for x in e["path"]), e["how"] if e["how"] == "store" else (e.get("name") or e.get("callee")))
    if e["kind"] == "call":
        return "call %s -> %s" % (e["name"], e["ret"])
    return e["kind"]
