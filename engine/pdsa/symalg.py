"""Exact algebra over the term language: rational functions with Fraction coefficients over opaque atoms, symbolic
differentiation, and a few inverse-pair identities (exp/ln, sin/asin).  Used by the scale-function rules of C04: the
expressions are taken from the MIR terms of /repo's `ScaleFunction` impls and are only ever *rewritten*, never evaluated on
sample inputs.

A polynomial is {monomial: Fraction}, a monomial a sorted tuple of (atom-key, power); a rational function is a pair (num, den).
Equality of a/b and c/d is decided by a*d == c*b, so no gcd is needed.
"""
import math
from fractions import Fraction

from .terms import fmt

ONE = {(): Fraction(1)}
ZERO = {}


class NotAlgebraic(Exception):
    pass


# ---- polynomials ------------------------------------------------------------------------------------------------------
def p_add(a, b, k=1):
    out = dict(a)
    for m, c in b.items():
        v = out.get(m, 0) + k * c
        if v == 0:
            out.pop(m, None)
        else:
            out[m] = v
    return out


def m_mul(m1, m2):
    d = dict(m1)
    for a, p in m2:
        d[a] = d.get(a, 0) + p
    return tuple(sorted((a, p) for a, p in d.items() if p != 0))


def p_mul(a, b):
    out = {}
    for m1, c1 in a.items():
        for m2, c2 in b.items():
            m = m_mul(m1, m2)
            v = out.get(m, 0) + c1 * c2
            if v == 0:
                out.pop(m, None)
            else:
                out[m] = v
    return out


def p_const(p):
    """Fraction if p is a constant polynomial else None"""
    if not p:
        return Fraction(0)
    if set(p) == {()}:
        return p[()]
    return None


# ---- rational functions -------------------------------------------------------------------------------------------------
def r_const(c):
    return ({(): Fraction(c)} if c != 0 else {}, dict(ONE))


def r_atom(key):
    return ({((key, 1),): Fraction(1)}, dict(ONE))


def r_add(a, b, k=1):
    return (p_add(p_mul(a[0], b[1]), p_mul(b[0], a[1]), k), p_mul(a[1], b[1]))


def r_mul(a, b):
    return (p_mul(a[0], b[0]), p_mul(a[1], b[1]))


def r_div(a, b):
    if not b[0]:
        raise NotAlgebraic("division by zero")
    return (p_mul(a[0], b[1]), p_mul(a[1], b[0]))


def r_eq(a, b):
    return p_add(p_mul(a[0], b[1]), p_mul(b[0], a[1]), -1) == {}


def r_value(a):
    """Fraction if a is constant"""
    n, d = p_const(a[0]), p_const(a[1])
    if n is not None and d is not None and d != 0:
        return n / d
    # same monomials up to a constant factor
    if len(a[0]) == len(a[1]) and a[0] and set(a[0]) == set(a[1]):
        ratios = {a[0][m] / a[1][m] for m in a[0]}
        if len(ratios) == 1:
            return ratios.pop()
    return None


def _pf(p):
    if not p:
        return "0"
    parts = []
    for m, c in sorted(p.items()):
        mon = "*".join(("%s^%d" % (x, k) if k != 1 else str(x)) for x, k in m)
        parts.append(("%s*%s" % (c, mon)) if mon and c != 1 else (mon or str(c)))
    return " + ".join(parts)


def r_key(a):
    """canonical text of a rational function (used to key ln/exp atoms): scaled so that the smallest denominator monomial has
    coefficient 1"""
    n, d = a
    if not d:
        raise NotAlgebraic("zero denominator")
    lead = d[min(d)]
    ns = {m: c / lead for m, c in n.items()}
    ds = {m: c / lead for m, c in d.items()}
    return _pf(ns) if ds == ONE else "(%s)/(%s)" % (_pf(ns), _pf(ds))


def r_fmt(a):
    return "(%s) / (%s)" % (_pf(a[0]), _pf(a[1]))


# ---- terms -> rational functions -----------------------------------------------------------------------------------------
class Algebra:
    """atoms: dict term -> name for the leaves (parameters, fields); everything else must be built from + - * / ln exp sin asin
    sqrt and numeric constants.  `values` maps an atom name to a Fraction to substitute (e.g. q := 1/2)."""

    def __init__(self, atoms, values=None):
        self.atoms = atoms
        self.values = values or {}
        self.defs = {}      # atom key -> ("ln"|"exp"|..., rational argument)

    def const(self, v):
        if isinstance(v, bool):
            raise NotAlgebraic("boolean constant")
        if isinstance(v, int):
            return r_const(v)
        if isinstance(v, float):
            if v == math.pi:
                return r_atom("pi")
            if v == math.e:
                return r_atom("e")
            # a constant-folded small multiple of pi (`const TWO_PI: f64 = 2. * PI`)
            for num in range(1, 9):
                for den in range(1, 9):
                    if v == num * math.pi / den or v == (num / den) * math.pi:
                        return r_mul(r_const(Fraction(num, den)), r_atom("pi"))
            if v != v or v in (float("inf"), float("-inf")):
                raise NotAlgebraic("non-finite constant")
            return r_const(Fraction(repr(v)))
        raise NotAlgebraic("constant %r" % (v,))

    def fn_atom(self, name, arg):
        key = "%s(%s)" % (name, r_key(arg))
        self.defs[key] = (name, arg)
        return r_atom(key)

    def ln(self, arg):
        """ln of a rational function: products and quotients are opened into sums of ln of the factors when num and den are monomials"""
        v = r_value(arg)
        if v is not None:
            if v == 1:
                return r_const(0)
            if v <= 0:
                raise NotAlgebraic("ln of a non-positive constant")
            return self.fn_atom("ln", r_const(v))
        # exp(u) -> u
        n, d = arg
        if len(n) == 1 and len(d) == 1:
            (mn, cn), (md, cd) = list(n.items())[0], list(d.items())[0]
            out = r_const(0)
            c = cn / cd
            if c <= 0:
                raise NotAlgebraic("ln of a negative quantity")
            if c != 1:
                out = r_add(out, self.fn_atom("ln", r_const(c)))
            for mono, sign in ((mn, 1), (md, -1)):
                for a, pw in mono:
                    dfn = self.defs.get(a)
                    if dfn is not None and dfn[0] == "exp":
                        term = dfn[1]
                    else:
                        term = self.fn_atom("ln", r_atom(a))
                    out = r_add(out, r_mul(r_const(sign * pw), term))
            return out
        return self.fn_atom("ln", arg)

    def exp(self, arg):
        v = r_value(arg)
        if v is not None and v == 0:
            return r_const(1)
        # exp(sum c_i ln(u_i)) = prod u_i^c_i for small integer c_i over the ln atoms that occur in the argument
        import itertools
        present = sorted({a for m in arg[0] for a, _ in m if self.defs.get(a, ("",))[0] == "ln"})
        if 1 <= len(present) <= 5:
            for cs in sorted(itertools.product((0, 1, -1, 2, -2), repeat=len(present)), key=lambda c: sum(map(abs, c))):
                if not any(cs):
                    continue
                tot = r_const(0)
                for c, key in zip(cs, present):
                    tot = r_add(tot, r_mul(r_const(c), r_atom(key)))
                if r_eq(arg, tot):
                    out = r_const(1)
                    for c, key in zip(cs, present):
                        u = self.defs[key][1]
                        for _ in range(abs(c)):
                            out = r_mul(out, u) if c > 0 else r_div(out, u)
                    return out
        return self.fn_atom("exp", arg)

    def of(self, t):
        k = t[0]
        if t in self.atoms:
            nm = self.atoms[t]
            if nm in self.values:
                return r_const(self.values[nm])
            return r_atom(nm)
        if k == "const":
            return self.const(t[1])
        if k == "cast":
            return self.of(t[2])
        if k == "phi":
            alts = [self.of(a) for a in t[1]]
            if all(r_eq(alts[0], a) for a in alts[1:]):
                return alts[0]
            raise NotAlgebraic("branches disagree: %s" % " | ".join(r_fmt(a) for a in alts)[:300])
        if k == "op":
            o, a = t[1], t[2]
            if o == "Add":
                r = self.of(a[0])
                for x in a[1:]:
                    r = r_add(r, self.of(x))
                return r
            if o == "Sub":
                return r_add(self.of(a[0]), self.of(a[1]), -1)
            if o == "Mul":
                r = self.of(a[0])
                for x in a[1:]:
                    r = r_mul(r, self.of(x))
                return r
            if o == "Div":
                return r_div(self.of(a[0]), self.of(a[1]))
            if o == "Neg":
                return r_mul(r_const(-1), self.of(a[0]))
            if o == "ln":
                return self.ln(self.of(a[0]))
            if o == "exp":
                return self.exp(self.of(a[0]))
            if o == "sqrt":
                v = r_value(self.of(a[0]))
                if v is not None and v >= 0:
                    n, d = v.numerator, v.denominator
                    rn, rd = math.isqrt(n), math.isqrt(d)
                    if rn * rn == n and rd * rd == d:
                        return r_const(Fraction(rn, rd))
                return self.fn_atom("sqrt", self.of(a[0]))
            if o == "asin":
                arg = self.of(a[0])
                v = r_value(arg)
                if v is not None and v == 0:
                    return r_const(0)
                for key, (nm, a2) in list(self.defs.items()):
                    if nm == "sin" and r_eq(arg, r_atom(key)):
                        return a2          # asin(sin(u)) = u on the principal branch
                return self.fn_atom("asin", arg)
            if o == "sin":
                arg = self.of(a[0])
                v = r_value(arg)
                if v is not None and v == 0:
                    return r_const(0)
                for key, (nm, a2) in list(self.defs.items()):
                    if nm == "asin" and r_eq(arg, r_atom(key)):
                        return a2
                return self.fn_atom("sin", arg)
            if o in ("min", "max"):
                # clamp(q, 0, 1) is the identity on the open interval the rules reason about
                xs = [x for x in a if not (x[0] == "const" and x[1] in (0.0, 1.0))]
                if len(xs) == 1:
                    return self.of(xs[0])
        raise NotAlgebraic("not an algebraic term: %s" % fmt(t)[:160])


# ---- differentiation (on terms) --------------------------------------------------------------------------------------------
def C(v):
    return ("const", float(v))


def OP(name, *a):
    return ("op", name, tuple(a))


def diff(t, x):
    """d t / d x as a term (x: a term treated as the variable); clamps min(1)/max(0) are the identity"""
    if t == x:
        return C(1)
    k = t[0]
    if k in ("const", "param", "field", "namedconst"):
        return C(0)
    if k == "cast":
        return diff(t[2], x)
    if k == "phi":
        return ("phi", tuple(diff(a, x) for a in t[1]))
    if k == "op":
        o, a = t[1], t[2]
        if o == "Add":
            r = diff(a[0], x)
            for y in a[1:]:
                r = OP("Add", r, diff(y, x))
            return r
        if o == "Sub":
            return OP("Sub", diff(a[0], x), diff(a[1], x))
        if o == "Neg":
            return OP("Neg", diff(a[0], x))
        if o == "Mul":
            # n-ary product rule
            terms = []
            for i in range(len(a)):
                fac = [diff(a[i], x)] + [a[j] for j in range(len(a)) if j != i]
                terms.append(OP("Mul", *fac) if len(fac) > 1 else fac[0])
            r = terms[0]
            for y in terms[1:]:
                r = OP("Add", r, y)
            return r
        if o == "Div":
            u, v = a
            return OP("Div", OP("Sub", OP("Mul", diff(u, x), v), OP("Mul", u, diff(v, x))), OP("Mul", v, v))
        if o == "ln":
            return OP("Div", diff(a[0], x), a[0])
        if o == "exp":
            return OP("Mul", t, diff(a[0], x))
        if o == "asin":
            return OP("Div", diff(a[0], x), OP("sqrt", OP("Sub", C(1), OP("Mul", a[0], a[0]))))
        if o == "sin":
            return OP("Mul", OP("cos", a[0]), diff(a[0], x))
        if o in ("min", "max"):
            xs = [y for y in a if not (y[0] == "const" and y[1] in (0.0, 1.0))]
            if len(xs) == 1:
                return diff(xs[0], x)
    raise NotAlgebraic("cannot differentiate %s" % fmt(t)[:160])
