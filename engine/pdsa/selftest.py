"""Self-test of the rule modules against the CURRENT tree (thorough tier).

selftest/corpus.json holds edit specs (exact-string replacements, robust to line shifts):
  kind "mutant": a compiling edit that breaks the property; the property's rules must report a
                 finding whose rule id equals `rule` and whose construct contains `construct`.
  (a spec may name a `base` patch under /verif/benign: the edit is then applied to that refactored variant of the tree,
   so that the generalised recognisers are shown to still discriminate on the other spelling)
  kind "benign": a behaviour-preserving edit (rename, let-introduction, helper extraction,
                 reordering, equivalent arithmetic); the rules must report nothing new.
Each spec is applied to a scratch copy of /repo's working tree (outside /repo and /verif, removed
afterwards), facts are extracted from the copy and the rule module is run on them.
A spec whose `old` text no longer occurs exactly once is skipped and counted.
"""
import concurrent.futures
import json
import os
import shutil
import subprocess
import tempfile

VERIF = os.path.dirname(os.path.dirname(os.path.dirname(os.path.abspath(__file__))))
CORPUS = os.path.join(VERIF, "selftest", "corpus.json")


def load_corpus(prop=None):
    with open(CORPUS) as f:
        specs = json.load(f)
    return [s for s in specs if prop is None or s["property"] == prop]


def copy_tree(repo, dst):
    def ignore(d, names):
        return [n for n in names if n in ("target", ".git")]
    shutil.copytree(repo, dst, ignore=ignore, symlinks=True)


def apply_spec(root, spec):
    """returns None when applied, else a reason for skipping"""
    for ed in spec["edits"]:
        p = os.path.join(root, ed["file"])
        if not os.path.exists(p):
            return "file %s missing" % ed["file"]
        with open(p) as f:
            s = f.read()
        n = s.count(ed["old"])
        if n != 1:
            return "anchor text occurs %d times in %s" % (n, ed["file"])
        with open(p, "w") as f:
            f.write(s.replace(ed["old"], ed["new"]))
    return None


class _F:
    """finding as read back from a sub-process run of ./check"""
    def __init__(self, j):
        self.rule, self.construct, self.msg, self._key = j["rule"], j["construct"], j["message"], j["key"]

    def key(self):
        return self._key


def analyse_in_subprocess(prop, repo_copy, work):
    """one ./check process per scratch copy: the rule engine keeps per-process caches and a closure hook, so copies must not
    share an interpreter"""
    out = os.path.join(work, "findings.json")
    r = subprocess.run([os.path.join(VERIF, "check"), prop, "--tier", "quick", "--repo", repo_copy, "--no-evidence", "--emit-findings", out],
                       capture_output=True, text=True, env=dict(os.environ, VERIF_TIER="quick"))
    if r.returncode == 2 or not os.path.exists(out):
        raise RuntimeError((r.stdout + r.stderr)[-600:])
    with open(out) as f:
        return [_F(j) for j in json.load(f)]


def run_one(spec, repo, analyse_findings, known_keys):
    work = tempfile.mkdtemp(prefix="pdsa-selftest.")
    try:
        dst = os.path.join(work, "repo")
        copy_tree(repo, dst)
        why = None
        if "base" in spec:
            # a mutant of a refactored variant: the behaviour-preserving patch first, the breaking edit on top of it
            r = subprocess.run(["patch", "-p1", "-s", "-i", os.path.join(VERIF, spec["base"])], cwd=dst, capture_output=True, text=True)
            why = None if r.returncode == 0 else "base patch does not apply: " + (r.stdout + r.stderr)[:200]
        if why is None and "patch" in spec:
            r = subprocess.run(["patch", "-p1", "-s", "-i", spec["patch"]], cwd=dst, capture_output=True, text=True)
            why = None if r.returncode == 0 else "patch does not apply: " + (r.stdout + r.stderr)[:200]
        elif why is None:
            why = apply_spec(dst, spec)
        if why is not None:
            return {"name": spec["name"], "kind": spec["kind"], "status": "skipped", "why": why}
        try:
            findings = analyse_findings(dst) if analyse_findings is not None else analyse_in_subprocess(spec["property"], dst, work)
        except Exception as e:  # does not compile (any more): not a usable spec
            return {"name": spec["name"], "kind": spec["kind"], "status": "skipped", "why": "analysis failed: %s" % str(e)[:300]}
        new = [f for f in findings if f.key() not in known_keys]
        if spec["kind"] == "seeded":
            if new:
                return {"name": spec["name"], "kind": "seeded", "status": "fired", "finding": new[0].key(), "message": new[0].msg[:200]}
            return {"name": spec["name"], "kind": "seeded", "status": "MISSED", "got": []}
        if spec["kind"] == "mutant":
            hit = [f for f in new if f.rule == spec["rule"] and spec.get("construct", "") in f.construct]
            if hit:
                return {"name": spec["name"], "kind": "mutant", "status": "fired", "finding": hit[0].key(), "message": hit[0].msg[:200]}
            return {"name": spec["name"], "kind": "mutant", "status": "MISSED", "got": [f.key() for f in new][:6]}
        if new:
            return {"name": spec["name"], "kind": "benign", "status": "FALSE-ALARM", "got": [(f.key(), f.msg[:160]) for f in new][:4]}
        return {"name": spec["name"], "kind": "benign", "status": "silent"}
    finally:
        shutil.rmtree(work, ignore_errors=True)


def seeded_specs(prop):
    """independent seeded changes filed under seeded/<id>/ that the rules of `prop` are on record as catching"""
    out = []
    root = os.path.join(VERIF, "seeded")
    if not os.path.isdir(root):
        return out
    for sid in sorted(os.listdir(root)):
        mp = os.path.join(root, sid, "meta.json")
        if not os.path.exists(mp):
            continue
        with open(mp) as f:
            m = json.load(f)
        fired = m.get("checks_on_repo_plus_patch_now") or {}
        if prop in fired or m.get("breaks_property") == prop:
            out.append({"property": prop, "kind": "seeded", "name": sid, "patch": os.path.join(root, sid, "patch.diff")})
    return out


def benign_patch_specs(prop):
    """independent behaviour-preserving refactorings filed under benign/<id>/: every property's rules must stay silent on them"""
    out = []
    root = os.path.join(VERIF, "benign")
    if not os.path.isdir(root):
        return out
    for bid in sorted(os.listdir(root)):
        pp = os.path.join(root, bid, "patch.diff")
        if os.path.exists(pp):
            out.append({"property": prop, "kind": "benign", "name": "refactoring:" + bid, "patch": pp})
    return out


def run(prop, repo, analyse_findings, known_keys=(), jobs=None):
    specs = load_corpus(prop) + seeded_specs(prop) + benign_patch_specs(prop)
    jobs = jobs or min(12, max(1, (os.cpu_count() or 4) - 2))
    results = []
    with concurrent.futures.ThreadPoolExecutor(max_workers=jobs) as ex:
        futs = [ex.submit(run_one, s, repo, analyse_findings, set(known_keys)) for s in specs]
        for f in futs:
            results.append(f.result())
    problems = []
    for r in results:
        if r["status"] == "MISSED":
            problems.append("%s `%s` was not reported (got %s)" % (r["kind"], r["name"], r.get("got")))
        if r["status"] == "FALSE-ALARM":
            problems.append("benign edit `%s` raised %s" % (r["name"], r.get("got")))
    return {
        "ok": not problems,
        "mutants": sum(1 for r in results if r["kind"] == "mutant"),
        "mutants_fired": sum(1 for r in results if r["status"] == "fired" and r["kind"] == "mutant"),
        "seeded": sum(1 for r in results if r["kind"] == "seeded"),
        "seeded_fired": sum(1 for r in results if r["status"] == "fired" and r["kind"] == "seeded"),
        "benign": sum(1 for r in results if r["kind"] == "benign"),
        "benign_silent": sum(1 for r in results if r["status"] == "silent"),
        "skipped": sum(1 for r in results if r["status"] == "skipped"),
        "problems": problems,
        "results": results,
    }
