"""MIR-level inlining of helper functions the rules do not know by name.

The rule modules anchor on the functions of the pinned tree (engine/pdsa/baseline.json: their keys and signatures).  A refactoring that
extracts a private helper (`fn find_cluster_start(&self, ..)`, `fn kick_random_slot(..)`) moves loops, guards and writes out of
the anchored function; to keep the rules looking at the same code, every call to a crate-local function that is NOT in the
baseline list is replaced by the callee's body (locals and blocks renumbered, arguments and return value passed through fresh
locals).  Helpers that call helpers are handled innermost first.  Recursive helpers, closures and over-long bodies stay calls.
"""
import copy
import json
import os

BASELINE = os.path.join(os.path.dirname(os.path.abspath(__file__)), "baseline.json")
MAX_CALLEE_BLOCKS = 120
MAX_CALLER_BLOCKS = 900


def load_baseline():
    """{"fns": {key: {inputs, ret_ty, kind, arg_count, args}}, "adts": {key: [[field, type], ..]}} of the reviewed tree, or None"""
    if not os.path.exists(BASELINE):
        return None
    with open(BASELINE) as f:
        return json.load(f)


import re
_PROM = re.compile(r"promoted\[(\d+)\]$")


def _remap(x, loc, blk, prom=0):
    """deep copy with local indices shifted by `loc`, block indices by `blk` and promoted-constant indices by `prom`"""
    if isinstance(x, dict):
        out = {}
        for k, v in x.items():
            if k == "local" and type(v) is int:
                out[k] = v + loc
            elif k == "s" and isinstance(v, str) and prom and x.get("k") == "const" and _PROM.search(v):
                out[k] = _PROM.sub(lambda m: "promoted[%d]" % (int(m.group(1)) + prom), v)
            elif k in ("target", "unwind", "otherwise") and type(v) is int:
                out[k] = v + blk
            elif k == "arms" and isinstance(v, list):
                out[k] = [[a, b + blk] for a, b in v]
            else:
                out[k] = _remap(v, loc, blk, prom)
        return out
    if isinstance(x, list):
        return [_remap(v, loc, blk, prom) for v in x]
    return x


def _callee_key(term):
    f = term.get("func") or {}
    if "resolved" in f:
        return f.get("resolved") if f.get("resolved_local") else None
    return f.get("def") if f.get("local") else None


def _calls_of(fj):
    out = []
    for bi, b in enumerate(fj["blocks"]):
        t = b["term"]
        if t["k"] == "call" and not b.get("cleanup"):
            k = _callee_key(t)
            if k:
                out.append((bi, k))
    return out


def inline_unknown_helpers(j, baseline):
    """mutates the facts dict j: calls to unknown local helpers are expanded in every caller; returns the list of helper keys"""
    fns = {f["key"]: f for f in j["fns"]}
    unknown = {k for k, f in fns.items() if k not in baseline and f.get("kind") not in ("Closure", "Promoted") and "{closure" not in k
               and len(f["blocks"]) <= MAX_CALLEE_BLOCKS and not f.get("impl_derived")}
    if not unknown:
        return []
    # drop (mutually) recursive helpers
    def reaches(src, dst, seen):
        for _, k in _calls_of(fns[src]):
            if k == dst:
                return True
            if k in unknown and k not in seen:
                seen.add(k)
                if reaches(k, dst, seen):
                    return True
        return False
    unknown = {k for k in unknown if not reaches(k, k, set())}
    done = []
    for _round in range(6):
        progress = False
        # helpers that call no other unknown helper are ready to be expanded into their callers
        ready = {k for k in unknown if not any(c in unknown for _, c in _calls_of(fns[k]))}
        if not ready:
            break
        for fk, fj in fns.items():
            changed = True
            while changed and len(fj["blocks"]) < MAX_CALLER_BLOCKS:
                changed = False
                for bi, ck in _calls_of(fj):
                    if ck in ready and ck != fk:
                        # (third component: the caller was nothing but a forwarding wrapper when the helper was expanded into it)
                        j.setdefault("_inlined_pairs", []).append([fk, ck, len([b_ for b_ in fj["blocks"] if not b_.get("cleanup")]) <= 3])
                        _inline_one(fj, bi, fns[ck])
                        changed = progress = True
                        break
        done += sorted(ready)
        unknown -= ready
        if not progress:
            break
    return done


def _inline_one(fj, bi, gj):
    blocks, locs = fj["blocks"], fj["locals"]
    t = blocks[bi]["term"]
    L0, B0 = len(locs), len(blocks)
    P0 = len(fj.setdefault("promoted", []))
    fj["promoted"].extend(copy.deepcopy(gj.get("promoted", [])))
    locs.extend(copy.deepcopy(gj["locals"]))
    span = t["span"]
    # arguments -> the callee's parameter locals.  A reference argument built for this call only (`_t = &mut P; helper(move _t)`)
    # is passed by substitution when the callee only ever dereferences the parameter: `(*param).f` becomes `P.f`, which is what
    # the code looked like before the helper was extracted.
    by_subst = {}
    for i, a in enumerate(t["args"]):
        refd = _single_use_ref(fj, bi, a)
        if refd is not None and _only_dereferenced(gj, 1 + i):
            by_subst[L0 + 1 + i] = refd[0]
            for st_ in refd[1]:
                blocks[bi]["stmts"].remove(st_)       # the borrow itself is gone with its only use
        else:
            blocks[bi]["stmts"].append({"k": "assign", "place": {"local": L0 + 1 + i, "proj": []}, "rv": {"k": "use", "op": a}, "span": span})
    blocks[bi]["term"] = {"k": "goto", "target": B0, "span": span}
    dest, target = t["dest"], t["target"]
    for gb in gj["blocks"]:
        nb = _remap(gb, L0, B0, P0)
        if by_subst:
            _subst_places(nb, by_subst)
        nt = nb["term"]
        if nt["k"] == "return":
            nb["stmts"].append({"k": "assign", "place": dest, "rv": {"k": "use", "op": {"k": "move", "place": {"local": L0, "proj": []}}}, "span": nt["span"]})
            nb["term"] = {"k": "goto", "target": target, "span": nt["span"]} if target is not None else {"k": "unreachable", "span": nt["span"]}
        blocks.append(nb)
    # names of the callee's locals (parameters become ordinary named locals of the caller)
    for d in gj.get("debug", []):
        d2 = _remap(d, L0, 0)
        d2.pop("arg", None)
        fj.setdefault("debug", []).append(d2)
    fj.setdefault("inlined", []).append(gj["key"])


def _places(x):
    if isinstance(x, dict):
        if "local" in x and "proj" in x and type(x["local"]) is int:
            yield x
        for v in x.values():
            yield from _places(v)
    elif isinstance(x, list):
        for v in x:
            yield from _places(v)


def _single_use_ref(fj, bi, a):
    """the place P when operand a is `move _t` and `_t = &[mut] P` is _t's only definition, in block bi, _t's only use being the call"""
    if a.get("k") not in ("move", "copy") or a.get("place") is None or a["place"]["proj"]:
        return None
    tl = a["place"]["local"]
    if tl <= fj.get("arg_count", 0):
        return None
    defs = []
    uses = 0
    for bj, b in enumerate(fj["blocks"]):
        for st in b["stmts"]:
            if st.get("k") == "assign" and st["place"]["local"] == tl and not st["place"]["proj"]:
                defs.append((bj, st))
                for pl in _places(st["rv"]):
                    if pl["local"] == tl:
                        return None
            else:
                uses += sum(1 for pl in _places(st) if pl["local"] == tl)
        uses += sum(1 for pl in _places(b["term"]) if pl["local"] == tl)
    if len(defs) != 1 or defs[0][0] != bi or uses != 1:
        return None
    rv = defs[0][1]["rv"]
    if rv.get("k") != "ref" or rv.get("place") is None:
        return None
    P = rv["place"]
    # nothing between the borrow and the call may redefine a local the place mentions (it is the last statements of the block)
    stmts = fj["blocks"][bi]["stmts"]
    at = stmts.index(defs[0][1])
    mentioned = {P["local"]} | {pr["local"] for pr in P["proj"] if pr.get("k") == "index"}
    for st in stmts[at + 1:]:
        if st.get("k") == "assign" and st["place"]["local"] in mentioned and not st["place"]["proj"]:
            return None
    # a reborrow of a borrow made for this call (`_a = &mut X; _b = &mut (*_a); f(move _b)`) is a borrow of X
    removed = [defs[0][1]]
    for _ in range(3):
        if not (P["proj"] and P["proj"][0].get("k") == "deref") or P["local"] <= fj.get("arg_count", 0):
            break
        r = P["local"]
        rdefs, ruses = [], 0
        for bj, b in enumerate(fj["blocks"]):
            for st in b["stmts"]:
                if st.get("k") == "assign" and st["place"]["local"] == r and not st["place"]["proj"]:
                    rdefs.append((bj, st))
                else:
                    ruses += sum(1 for pl in _places(st) if pl["local"] == r)
            ruses += sum(1 for pl in _places(b["term"]) if pl["local"] == r)
        if len(rdefs) != 1 or rdefs[0][0] != bi or ruses != 1 or rdefs[0][1]["rv"].get("k") != "ref" or rdefs[0][1]["rv"].get("place") is None:
            break
        if stmts.index(rdefs[0][1]) > stmts.index(removed[-1]):
            break
        Q = rdefs[0][1]["rv"]["place"]
        P = {"local": Q["local"], "proj": copy.deepcopy(Q["proj"]) + P["proj"][1:]}
        removed.append(rdefs[0][1])
    return P, removed


def _only_dereferenced(gj, pl):
    n = 0
    for b in gj["blocks"]:
        for place in _places(b):
            if place["local"] == pl:
                if not place["proj"] or place["proj"][0].get("k") != "deref":
                    return False
                n += 1
            if any(pr.get("k") == "index" and pr.get("local") == pl for pr in place["proj"]):
                return False
    return True


def _subst_places(x, m):
    for place in _places(x):
        P = m.get(place["local"])
        if P is not None and place["proj"] and place["proj"][0].get("k") == "deref":
            place["local"] = P["local"]
            place["proj"] = copy.deepcopy(P["proj"]) + place["proj"][1:]


_SCALARS = {"usize", "u64", "u32", "u16", "u8", "u128", "isize", "i64", "i32", "i16", "i8", "i128", "f64", "f32", "bool"}


def _scalar_function(f):
    """scalars in, scalar out, no state: the term builder treats such helpers itself (single-expression ones are inlined as terms,
    branching ones stay call terms with an interval summary), which is more precise than splicing their branches into the caller"""
    n = f.get("arg_count") or 0
    tys = [f["locals"][i]["ty"] for i in range(0, n + 1)]
    return all(t in _SCALARS for t in tys)
