"""Rule-run context: instances, findings, floors, evidence, known findings."""
import json
import os
import time

from .ir import Program, span_str
from .paths import Summaries

VERIF = os.path.dirname(os.path.dirname(os.path.dirname(os.path.abspath(__file__))))


class Finding:
    def __init__(self, prop, rule, construct, where, msg, detail=None, config=None):
        self.prop = prop
        self.rule = rule
        self.construct = construct  # stable key: def-path (+ instance), never a line number
        self.where = where          # file:line (informational)
        self.msg = msg
        self.detail = detail
        self.config = config

    def key(self):
        return "%s|%s" % (self.rule, self.construct)

    def to_json(self):
        return {"property": self.prop, "rule": self.rule, "construct": self.construct, "where": self.where,
                "message": self.msg, "detail": self.detail, "config": self.config, "key": self.key()}


class Ctx:
    def __init__(self, prop, prog, tier="quick", config=None):
        self.prop = prop
        self.prog = prog
        self.tier = tier
        self.config = config or prog.config_id()
        self.summ = Summaries(prog)
        self.findings = []
        self.instances = []   # every rule instance evaluated: dicts
        self.analysed_fns = set()
        self.notes = []

    # ---- reporting ---------------------------------------------------------------
    def where(self, obj):
        """file:line of a Fn / span dict / event"""
        if obj is None:
            return "?"
        if isinstance(obj, dict):
            if "file" in obj:
                return span_str(obj)
            if "span" in obj:
                return span_str(obj["span"])
        if hasattr(obj, "span"):
            return span_str(obj.span)
        return str(obj)

    def ok(self, rule, construct, what, nontrivial=True):
        self.instances.append({"rule": rule, "construct": construct, "verdict": "holds", "what": what,
                               "nontrivial": bool(nontrivial)})

    def fail(self, rule, construct, where, msg, detail=None):
        self.instances.append({"rule": rule, "construct": construct, "verdict": "VIOLATED", "what": msg, "nontrivial": True})
        self.findings.append(Finding(self.prop, rule, construct, self.where(where), msg, detail, self.config))

    def check(self, cond, rule, construct, where, what_ok, msg_fail, detail=None, nontrivial=True):
        if cond:
            self.ok(rule, construct, what_ok, nontrivial)
        else:
            self.fail(rule, construct, where, msg_fail, detail)
        return cond

    def anchor(self, key, rule="anchor"):
        """resolve a function by key; fail closed when missing"""
        f = self.prog.fn(key)
        if f is None:
            self.fail("anchor-missing", key, None, "anchor function `%s` not found in the type-checked program (rule %s)" % (key, rule))
            return None
        self.analysed_fns.add(key)
        return f

    def anchor_adt(self, key):
        a = self.prog.adts.get(key)
        if a is None:
            self.fail("anchor-missing", key, None, "anchor type `%s` not found" % key)
        return a

    def floor(self, rule, count, minimum, what):
        """fail closed if fewer instances than counted by hand were found"""
        if count < minimum:
            self.fail("anchor-missing", "%s:floor" % rule, None,
                      "rule %s matched %d %s, expected at least %d (counted by hand) — the rule would pass vacuously" % (rule, count, what, minimum))
            return False
        self.ok(rule + ":floor", rule, "%d %s (floor %d)" % (count, what, minimum), nontrivial=False)
        return True

    def shape(self, rule, construct, where, msg):
        self.fail("shape-unrecognised", "%s|%s" % (rule, construct), where, msg)


class RuleFilter:
    """View of a Ctx that keeps only the instances/findings of the named rules (plus their floors, shape reports and missing
    anchors): lets one property run a subset of another property's monolithic rule module without inheriting the rest of it."""

    def __init__(self, ctx, rules):
        self._ctx = ctx
        self._rules = set(rules)

    def __getattr__(self, name):
        return getattr(self._ctx, name)

    def _allowed(self, rule, construct):
        if rule in self._rules:
            return True
        if rule == "shape-unrecognised":
            return str(construct).split("|")[0] in self._rules
        if rule.endswith(":floor"):
            return rule[:-6] in self._rules
        if rule == "anchor-missing":
            c = str(construct)
            return not c.endswith(":floor") or c[:-6] in self._rules
        return False

    def ok(self, rule, construct, what, nontrivial=True):
        if self._allowed(rule, construct):
            self._ctx.ok(rule, construct, what, nontrivial)

    def fail(self, rule, construct, where, msg, detail=None):
        if self._allowed(rule, construct):
            self._ctx.fail(rule, construct, where, msg, detail)

    def check(self, cond, rule, construct, where, what_ok, msg_fail, detail=None, nontrivial=True):
        if cond:
            self.ok(rule, construct, what_ok, nontrivial)
        else:
            self.fail(rule, construct, where, msg_fail, detail)
        return cond

    def anchor(self, key, rule="anchor"):
        f = self._ctx.prog.fn(key)
        if f is None:
            self.fail("anchor-missing", key, None, "anchor function `%s` not found in the type-checked program (rule %s)" % (key, rule))
            return None
        self._ctx.analysed_fns.add(key)
        return f

    def floor(self, rule, count, minimum, what):
        if count < minimum:
            self.fail("anchor-missing", "%s:floor" % rule, None,
                      "rule %s matched %d %s, expected at least %d (counted by hand) — the rule would pass vacuously" % (rule, count, what, minimum))
            return False
        self.ok(rule + ":floor", rule, "%d %s (floor %d)" % (count, what, minimum), nontrivial=False)
        return True

    def shape(self, rule, construct, where, msg):
        self.fail("shape-unrecognised", "%s|%s" % (rule, construct), where, msg)


def load_known(path=None):
    path = path or os.path.join(VERIF, "known_findings.jsonl")
    known = []
    if os.path.exists(path):
        with open(path) as f:
            for line in f:
                line = line.strip()
                if not line or line.startswith("#") or line.startswith("fixed:"):
                    continue  # fixed entries are a record only: they suppress nothing
                known.append(json.loads(line))
    return known
