"""Loader and basic graph utilities over the facts dumped by pdsa-extract."""
import json
import struct
from functools import lru_cache


# --------------------------------------------------------------------------- places / operands

class Place:
    __slots__ = ("local", "proj")

    def __init__(self, j):
        self.local = j["local"]
        self.proj = j["proj"]

    def is_local(self):
        return not self.proj

    def fields(self):
        """names of field projections (ignoring derefs / downcasts)"""
        return [p["name"] if p.get("name") is not None else str(p["i"]) for p in self.proj if p["k"] == "field"]

    def __str__(self):
        s = "_%d" % self.local
        for p in self.proj:
            k = p["k"]
            if k == "deref":
                s = "(*%s)" % s
            elif k == "field":
                s = "%s.%s" % (s, p["name"] if p.get("name") is not None else p["i"])
            elif k == "index":
                s = "%s[_%d]" % (s, p["local"])
            elif k == "downcast":
                s = "(%s as %s)" % (s, p.get("name") or p["v"])
            elif k == "constindex":
                s = "%s[%s%d]" % (s, "-" if p["from_end"] else "", p["offset"])
            else:
                s = "%s.<%s>" % (s, k)
        return s

    __repr__ = __str__


def const_value(j):
    """python value of a scalar constant operand, or None"""
    if "bits" not in j:
        return None
    bits = int(j["bits"])
    ty = j["ty"]
    size = j["size"]
    if ty == "bool":
        return bool(bits)
    if ty == "f64":
        return struct.unpack("<d", struct.pack("<Q", bits))[0]
    if ty == "f32":
        return struct.unpack("<f", struct.pack("<I", bits))[0]
    if ty.startswith("i") and ty[1:] in ("8", "16", "32", "64", "128", "size"):
        n = size * 8
        if bits >= 1 << (n - 1):
            bits -= 1 << n
        return bits
    if ty == "char":
        return chr(bits)
    return bits


class Operand:
    __slots__ = ("k", "place", "j")

    def __init__(self, j):
        self.j = j
        self.k = j["k"]
        self.place = Place(j["place"]) if self.k in ("copy", "move") else None

    def is_const(self):
        return self.k == "const"

    def value(self):
        return const_value(self.j) if self.k == "const" else None

    def ty(self):
        return self.j.get("ty")

    def fn(self):
        return self.j.get("fn") if self.k == "const" else None

    def __str__(self):
        if self.place is not None:
            return ("move " if self.k == "move" else "") + str(self.place)
        if self.k == "const":
            return self.j["s"]
        return "<%s>" % self.k

    __repr__ = __str__


class Rvalue:
    def __init__(self, j):
        self.j = j
        self.k = j["k"]
        self.ops = []
        self.place = None
        if self.k in ("use", "repeat", "cast", "wrapbinder"):
            self.ops = [Operand(j["op"])]
        elif self.k == "binop":
            self.ops = [Operand(j["l"]), Operand(j["r"])]
        elif self.k == "unop":
            self.ops = [Operand(j["x"])]
        elif self.k == "aggregate":
            self.ops = [Operand(o) for o in j["ops"]]
        if self.k in ("ref", "rawptr", "discr", "copyforderef"):
            self.place = Place(j["place"])

    def __str__(self):
        j = self.j
        k = self.k
        if k == "use":
            return str(self.ops[0])
        if k == "ref":
            return "&%s%s" % ("mut " if j["bk"] == "mut" else ("fake " if j["bk"] == "fake" else ""), self.place)
        if k == "rawptr":
            return "&raw %s" % self.place
        if k == "binop":
            return "%s(%s, %s)" % (j["op"], self.ops[0], self.ops[1])
        if k == "unop":
            return "%s(%s)" % (j["op"], self.ops[0])
        if k == "cast":
            return "%s as %s (%s)" % (self.ops[0], j["ty"], j["ck"])
        if k == "discr":
            return "discriminant(%s)" % self.place
        if k == "copyforderef":
            return "deref_copy %s" % self.place
        if k == "aggregate":
            ak = j["ak"]
            if ak == "adt":
                fs = j["fields"]
                return "%s::%s{%s}" % (j["adt"], j["variant"], ", ".join("%s: %s" % (fs[i] if i < len(fs) else i, o) for i, o in enumerate(self.ops)))
            if ak == "closure":
                return "closure %s{%s}" % (j["def"], ", ".join(map(str, self.ops)))
            return "%s(%s)" % (ak, ", ".join(map(str, self.ops)))
        if k == "repeat":
            return "[%s; %s]" % (self.ops[0], j["n"])
        return "<%s>" % k


class Stmt:
    def __init__(self, j):
        self.j = j
        self.k = j["k"]
        self.span = j["span"]
        self.place = Place(j["place"]) if "place" in j else None
        self.rv = Rvalue(j["rv"]) if self.k == "assign" else None

    def __str__(self):
        if self.k == "assign":
            return "%s = %s" % (self.place, self.rv)
        if self.k == "setdiscr":
            return "discriminant(%s) = %d" % (self.place, self.j["v"])
        return "<%s>" % self.k


class Term:
    def __init__(self, j):
        self.j = j
        self.k = j["k"]
        self.span = j["span"]
        self.func = j.get("func")
        self.args = [Operand(a) for a in j.get("args", [])] if self.k == "call" else []
        self.dest = Place(j["dest"]) if self.k == "call" else None
        self.place = Place(j["place"]) if self.k == "drop" else None
        self.discr = Operand(j["discr"]) if self.k == "switch" else None
        self.cond = Operand(j["cond"]) if self.k == "assert" else None

    # callee naming -------------------------------------------------------------
    def callee(self):
        """best (resolved if possible) callee key"""
        if self.k != "call":
            return None
        f = self.func
        return f.get("resolved") or f.get("def")

    def none_some_targets(self):
        """(target of the None/0 outcome, target of the Some/1 outcome) of a switch on an Option discriminant, in either spelling:
        `[0: n, 1: s, otherwise: unreachable]` (match / for) or `[1: s, otherwise: n]` (if let / while let)"""
        if self.k != "switch":
            return None, None
        arms = {int(v): tg for v, tg in self.j["arms"]}
        if 0 in arms:
            return arms[0], arms.get(1)
        if set(arms) == {1}:
            return self.j["otherwise"], arms[1]
        return None, None

    def callee_decl(self):
        return self.func.get("def") if self.k == "call" else None

    def callee_name(self):
        return self.func.get("name") if self.k == "call" else None

    def callee_is_local(self):
        f = self.func
        if "resolved" in f:
            return f.get("resolved_local", False)
        return f.get("local", False)

    def succs(self, with_unwind=False):
        j = self.j
        k = self.k
        out = []
        if k == "goto":
            out = [j["target"]]
        elif k == "switch":
            out = [b for _, b in j["arms"]] + [j["otherwise"]]
        elif k in ("drop", "assert"):
            out = [j["target"]]
        elif k == "call":
            out = [j["target"]] if j["target"] is not None else []
        if with_unwind and j.get("unwind") is not None:
            out.append(j["unwind"])
        return out

    def __str__(self):
        j = self.j
        k = self.k
        if k == "goto":
            return "goto bb%d" % j["target"]
        if k == "switch":
            return "switch %s [%s, otherwise: bb%d]" % (self.discr, ", ".join("%s: bb%d" % (v, b) for v, b in j["arms"]), j["otherwise"])
        if k == "call":
            return "%s = %s(%s) -> %s" % (self.dest, self.callee(), ", ".join(map(str, self.args)), "bb%d" % j["target"] if j["target"] is not None else "!")
        if k == "assert":
            return "assert(%s%s, %s) -> bb%d" % ("" if j["expected"] else "!", self.cond, j["kind"], j["target"])
        if k == "drop":
            return "drop(%s) -> bb%d" % (self.place, j["target"])
        return k


class Block:
    def __init__(self, j):
        self.stmts = [Stmt(s) for s in j["stmts"]]
        self.term = Term(j["term"])
        self.cleanup = j["cleanup"]


def span_str(sp):
    return "%s:%d" % (sp["file"], sp["line"])


class Fn:
    def __init__(self, j, prog):
        self.j = j
        self.prog = prog
        self.key = j["key"]
        self.name = j["name"]
        self.kind = j["kind"]
        self.arg_count = j["arg_count"]
        self.locals = j["locals"]
        self.blocks = [Block(b) for b in j["blocks"]]
        self.span = j["span"]
        self.pub = j.get("pub", False)
        self.impl_self = j.get("impl_self")
        self.impl_trait = j.get("impl_trait")
        self.impl_derived = j.get("impl_derived", False)
        self.parent = j.get("parent")
        self.ret_ty = j.get("ret_ty")
        self.names = {}
        for d in j["debug"]:
            p = Place(d["place"])
            if p.is_local():
                self.names.setdefault(p.local, d["name"])
        self._defs = None
        self._preds = None
        self.promoted = []
        for i, pj in enumerate(j.get("promoted", [])):
            pj2 = {"key": "%s::promoted[%d]" % (self.key, i), "name": "promoted", "kind": "Promoted", "arg_count": 0,
                   "locals": pj["locals"], "blocks": pj["blocks"], "span": j["span"], "debug": []}
            self.promoted.append(Fn(pj2, prog))

    def file(self):
        return self.span["file"]

    def loc(self):
        return span_str(self.span)

    def local_ty(self, l):
        return self.locals[l]["ty"]

    def local_name(self, l):
        return self.names.get(l)

    # ---- CFG (normal edges only; cleanup blocks excluded) -----------------------
    def succs(self, b):
        return [s for s in self.blocks[b].term.succs() if not self.blocks[s].cleanup]

    def preds(self):
        if self._preds is None:
            p = {i: [] for i in range(len(self.blocks))}
            for i, blk in enumerate(self.blocks):
                if blk.cleanup:
                    continue
                for s in self.succs(i):
                    p[s].append(i)
            self._preds = p
        return self._preds

    def reachable(self, start=0, avoid=()):
        seen = set()
        st = [start]
        while st:
            b = st.pop()
            if b in seen or b in avoid:
                continue
            seen.add(b)
            st.extend(self.succs(b))
        return seen

    def rpo(self):
        seen = set()
        order = []

        def dfs(b):
            stack = [(b, iter(self.succs(b)))]
            seen.add(b)
            while stack:
                n, it = stack[-1]
                adv = False
                for s in it:
                    if s not in seen:
                        seen.add(s)
                        stack.append((s, iter(self.succs(s))))
                        adv = True
                        break
                if not adv:
                    order.append(n)
                    stack.pop()
        dfs(0)
        order.reverse()
        return order

    @lru_cache(maxsize=None)
    def dominators(self):
        """dict block -> set of dominators (including itself), over normal edges"""
        order = self.rpo()
        allb = set(order)
        dom = {b: set(allb) for b in order}
        dom[0] = {0}
        preds = self.preds()
        changed = True
        while changed:
            changed = False
            for b in order:
                if b == 0:
                    continue
                ps = [p for p in preds[b] if p in dom]
                if not ps:
                    continue
                new = set.intersection(*[dom[p] for p in ps]) | {b}
                if new != dom[b]:
                    dom[b] = new
                    changed = True
        return dom

    def dominates(self, a, b):
        d = self.dominators()
        return b in d and a in d[b]

    def exits(self):
        """blocks ending in `return`"""
        return [i for i, b in enumerate(self.blocks) if not b.cleanup and b.term.k == "return"]

    @lru_cache(maxsize=None)
    def postdominators(self):
        """dict block -> set of post-dominators w.r.t. return exits (panic paths ignored)"""
        order = [b for b in self.rpo()]
        exits = set(self.exits())
        allb = set(order)
        pd = {b: set(allb) for b in order}
        for e in exits:
            pd[e] = {e}
        changed = True
        while changed:
            changed = False
            for b in reversed(order):
                if b in exits:
                    continue
                ss = [s for s in self.succs(b) if s in pd]
                # successors that can never reach a return (diverging) are ignored
                ss = [s for s in ss if self.can_return(s)]
                if not ss:
                    continue
                new = set.intersection(*[pd[s] for s in ss]) | {b}
                if new != pd[b]:
                    pd[b] = new
                    changed = True
        return pd

    @lru_cache(maxsize=None)
    def _can_return_set(self):
        preds = self.preds()
        seen = set()
        st = list(self.exits())
        while st:
            b = st.pop()
            if b in seen:
                continue
            seen.add(b)
            st.extend(preds[b])
        return frozenset(seen)

    def can_return(self, b):
        return b in self._can_return_set()

    def back_edges(self):
        dom = self.dominators()
        out = []
        for b in dom:
            for s in self.succs(b):
                if s in dom[b]:
                    out.append((b, s))
        return out

    def loop_heads(self):
        return sorted({h for _, h in self.back_edges()})

    def natural_loop(self, head):
        preds = self.preds()
        body = {head}
        st = [b for b, h in self.back_edges() if h == head]
        while st:
            b = st.pop()
            if b in body:
                continue
            body.add(b)
            st.extend(preds[b])
        return body

    # ---- defs -----------------------------------------------------------------------
    def defs(self):
        """local -> list of (bb, idx, kind, obj); idx == len(stmts) for terminator defs.
        Only whole-local definitions (no projections)."""
        if self._defs is None:
            d = {}
            for bi, blk in enumerate(self.blocks):
                if blk.cleanup:
                    continue
                for si, st in enumerate(blk.stmts):
                    if st.k == "assign" and st.place.is_local():
                        d.setdefault(st.place.local, []).append((bi, si, "stmt", st))
                t = blk.term
                if t.k == "call" and t.dest.is_local():
                    d.setdefault(t.dest.local, []).append((bi, len(blk.stmts), "call", t))
            self._defs = d
        return self._defs

    def partial_defs(self, local):
        """assignments through a projection of `local` (field stores etc.)"""
        out = []
        for bi, blk in enumerate(self.blocks):
            if blk.cleanup:
                continue
            for si, st in enumerate(blk.stmts):
                if st.k == "assign" and st.place.local == local and st.place.proj:
                    out.append((bi, si, st))
        return out

    def calls(self):
        for bi, blk in enumerate(self.blocks):
            if blk.cleanup:
                continue
            if blk.term.k == "call":
                yield bi, blk.term

    def pretty(self):
        out = ["fn %s  [%s]  args=%d" % (self.key, self.loc(), self.arg_count)]
        for i, l in enumerate(self.locals):
            nm = self.names.get(i)
            out.append("    let _%d: %s%s" % (i, l["ty"], "  // %s" % nm if nm else ""))
        for bi, blk in enumerate(self.blocks):
            out.append("  bb%d%s:" % (bi, " (cleanup)" if blk.cleanup else ""))
            for st in blk.stmts:
                m = st.span["macros"]
                out.append("    %s%s   // L%d" % (st, "  {%s}" % ",".join(m) if m else "", st.span["line"]))
            m = blk.term.span["macros"]
            out.append("    %s%s   // L%d" % (blk.term, "  {%s}" % ",".join(m) if m else "", blk.term.span["line"]))
        return "\n".join(out)


def lit_value(v):
    """python value of a const literal tree as dumped from HIR"""
    if isinstance(v, list):
        return [lit_value(x) for x in v]
    if isinstance(v, dict):
        if "lit" in v:
            s = v["lit"]
            if s.startswith('"'):
                return s[1:-1]
            if s in ("true", "false"):
                return s == "true"
            s2 = s.replace("_", "")
            try:
                return int(s2)
            except ValueError:
                pass
            for suf in ("f64", "f32"):
                if s2.endswith(suf):
                    s2 = s2[: -len(suf)]
            return float(s2)
        if "neg" in v:
            x = lit_value(v["neg"])
            return -x if x is not None else None
        return None
    return None


class Program:
    def __init__(self, path):
        with open(path) as f:
            j = json.load(f)
        self.j = j
        self.path = path
        self.nonce = j["nonce"]
        self.debug_assertions = j["debug_assertions"]
        self.overflow_checks = j["overflow_checks"]
        self.features = sorted(c.split("=", 1)[1] for c in j["cfg"] if c.startswith("feature="))
        # helper functions that the rules do not know by name are expanded into their callers (see inline.py)
        from .inline import load_baseline, inline_unknown_helpers
        bl = load_baseline()
        # private items renamed since the reviewed tree get their baseline names back first (see canon.py)
        self.renamed = []
        if bl is not None:
            from .canon import canonicalise_names
            self.renamed = canonicalise_names(j, bl)
        self.inlined_helpers = inline_unknown_helpers(j, set(bl["fns"])) if bl is not None else []
        self.inlined_pairs = [tuple(x) for x in j.get("_inlined_pairs", [])]      # (caller, helper expanded into it)
        self.fns = {}
        for fj in j["fns"]:
            f = Fn(fj, self)
            self.fns[f.key] = f
        self.adts = {a["key"]: a for a in j["adts"]}
        self.consts = {c["key"]: c for c in j["consts"]}
        self.impls = j["impls"]

    def fn(self, key):
        return self.fns.get(key)

    def find_fns(self, suffix):
        return [f for k, f in self.fns.items() if k.endswith(suffix)]

    def adt_fields(self, key):
        a = self.adts[key]
        return a["variants"][0]["fields"]

    def const_value(self, key):
        c = self.consts.get(key)
        return lit_value(c["value"]) if c else None

    def closures_of(self, key):
        return [f for f in self.fns.values() if f.parent == key]

    def config_id(self):
        return "features=%s;debug_assertions=%s;overflow_checks=%s" % (",".join(self.features), self.debug_assertions, self.overflow_checks)
