//! Serialise the local crate: fn bodies (MIR), ADTs, consts, impl tables.

use crate::json::J;
use rustc_hir as hir;
use rustc_hir::def::DefKind;
use rustc_hir::def_id::{DefId, LocalDefId};
use rustc_middle::mir::{
    self, AggregateKind, BasicBlockData, Body, BorrowKind, CastKind, Operand, Place,
    ProjectionElem, Rvalue, StatementKind, TerminatorKind, UnwindAction,
};
use rustc_middle::ty::{self, GenericArgsRef, Instance, Ty, TyCtxt, TypingEnv};
use rustc_span::{ExpnKind, Span};
use std::collections::BTreeSet;

pub fn dump_crate<'tcx>(tcx: TyCtxt<'tcx>) -> J {
    let mut fns = Vec::new();
    let mut adts = Vec::new();
    let mut consts = Vec::new();
    let mut impls = Vec::new();

    let all: Vec<LocalDefId> = tcx.iter_local_def_id().collect();
    for ldid in all {
        let did = ldid.to_def_id();
        match tcx.def_kind(did) {
            DefKind::Fn | DefKind::AssocFn | DefKind::Closure => {
                if tcx.is_mir_available(did) {
                    fns.push(dump_fn(tcx, ldid));
                }
            }
            DefKind::Struct | DefKind::Enum | DefKind::Union => {
                adts.push(dump_adt(tcx, did));
            }
            DefKind::Const { .. } | DefKind::AssocConst { .. } => {
                consts.push(dump_const(tcx, ldid));
            }
            DefKind::Impl { .. } => {
                impls.push(dump_impl(tcx, did));
            }
            _ => {}
        }
    }

    let sess = tcx.sess;
    let mut cfgs = Vec::new();
    for (name, val) in sess.config.iter() {
        match val {
            Some(v) => cfgs.push(J::s(format!("{}={}", name, v))),
            None => cfgs.push(J::s(name.to_string())),
        }
    }
    J::Obj(vec![
        ("nonce", J::s(std::env::var("PDSA_NONCE").unwrap_or_default())),
        ("crate", J::s(tcx.crate_name(rustc_span::def_id::LOCAL_CRATE).to_string())),
        ("cfg", J::Arr(cfgs)),
        ("debug_assertions", J::Bool(sess.opts.debug_assertions)),
        ("overflow_checks", J::Bool(sess.overflow_checks())),
        ("fns", J::Arr(fns)),
        ("adts", J::Arr(adts)),
        ("consts", J::Arr(consts)),
        ("impls", J::Arr(impls)),
    ])
}

// ---------------------------------------------------------------------------------------
// naming

/// remove balanced `<...>` groups (generic arguments) from a printed path, keeping a
/// leading `<` (qualified-path syntax) intact is not attempted: callers build qualified
/// paths themselves.
pub fn strip_generics(s: &str) -> String {
    let mut out = String::new();
    let mut depth = 0i32;
    let b: Vec<char> = s.chars().collect();
    let mut i = 0;
    while i < b.len() {
        let c = b[i];
        if c == '-' && i + 1 < b.len() && b[i + 1] == '>' {
            if depth == 0 {
                out.push_str("->");
            }
            i += 2;
            continue;
        }
        if c == '<' {
            depth += 1;
            // drop a preceding "::" (turbofish)
            if depth == 1 && out.ends_with("::") {
                out.truncate(out.len() - 2);
            }
        } else if c == '>' {
            depth -= 1;
        } else if depth == 0 {
            out.push(c);
        }
        i += 1;
    }
    out
}

fn ty_key<'tcx>(tcx: TyCtxt<'tcx>, t: Ty<'tcx>) -> String {
    match t.kind() {
        ty::Adt(def, _) => strip_generics(&tcx.def_path_str(def.did())),
        ty::Ref(_, inner, m) => format!("&{}{}", if m.is_mut() { "mut " } else { "" }, ty_key(tcx, *inner)),
        ty::Param(p) => p.name.to_string(),
        ty::Slice(inner) => format!("[{}]", ty_key(tcx, *inner)),
        ty::Array(inner, _) => format!("[{}; N]", ty_key(tcx, *inner)),
        ty::Closure(did, _) => fn_key(tcx, *did),
        _ => strip_generics(&format!("{}", t)),
    }
}

pub fn fn_key<'tcx>(tcx: TyCtxt<'tcx>, did: DefId) -> String {
    let kind = tcx.def_kind(did);
    if matches!(kind, DefKind::Closure) {
        let parent = tcx.parent(did);
        let dp = tcx.def_path(did);
        let last = dp.data.last().map(|d| d.as_sym(true).to_string()).unwrap_or_default();
        return format!("{}::{}", fn_key(tcx, parent), last);
    }
    if matches!(kind, DefKind::AssocFn | DefKind::AssocConst { .. }) {
        if let Some(impl_id) = tcx.impl_of_assoc(did) {
            let self_ty = tcx.type_of(impl_id).instantiate_identity().skip_norm_wip();
            let sk = ty_key(tcx, self_ty);
            let name = tcx.item_name(did);
            if let Some(tr) = tcx.impl_opt_trait_ref(impl_id) {
                let tr = tr.instantiate_identity().skip_norm_wip();
                let tk = strip_generics(&tcx.def_path_str(tr.def_id));
                // trait type arguments matter for `Extend<T>` vs `Extend<&T>`
                let targs: Vec<String> =
                    tr.args.iter().skip(1).filter_map(|a| a.as_type()).map(|t| ty_key(tcx, t)).collect();
                let tk = if targs.is_empty() { tk } else { format!("{}[{}]", tk, targs.join(",")) };
                return format!("<{} as {}>::{}", sk, tk, name);
            }
            return format!("{}::{}", sk, name);
        }
    }
    // nested items inside fns (e.g. `fn deserialize::{impl}::visit_map`) are handled by
    // def_path_str already
    strip_generics(&tcx.def_path_str(did))
}

// ---------------------------------------------------------------------------------------
// spans

fn span_json<'tcx>(tcx: TyCtxt<'tcx>, span: Span) -> J {
    let sm = tcx.sess.source_map();
    let mut macros = Vec::new();
    let mut sp = span;
    let mut guard = 0;
    while sp.from_expansion() && guard < 32 {
        let ed = sp.ctxt().outer_expn_data();
        match ed.kind {
            ExpnKind::Macro(_, name) => macros.push(J::s(name.to_string())),
            ExpnKind::Desugaring(d) => macros.push(J::s(format!("desugar:{:?}", d))),
            ExpnKind::AstPass(p) => macros.push(J::s(format!("astpass:{:?}", p))),
            ExpnKind::Root => {}
        }
        sp = ed.call_site;
        guard += 1;
    }
    let loc = sm.lookup_char_pos(sp.lo());
    let hi = sm.lookup_char_pos(sp.hi());
    let file = match &loc.file.name {
        rustc_span::FileName::Real(r) => match r.local_path() {
            Some(p) => p.to_string_lossy().to_string(),
            None => format!("{:?}", r),
        },
        other => format!("{:?}", other),
    };
    J::Obj(vec![
        ("file", J::s(file)),
        ("line", J::Int(loc.line as i128)),
        ("col", J::Int(loc.col.0 as i128 + 1)),
        ("line_hi", J::Int(hi.line as i128)),
        ("macros", J::Arr(macros)),
    ])
}

// ---------------------------------------------------------------------------------------
// types

fn ty_json<'tcx>(tcx: TyCtxt<'tcx>, t: Ty<'tcx>) -> J {
    ty_json_d(tcx, t, 0)
}

fn ty_json_d<'tcx>(tcx: TyCtxt<'tcx>, t: Ty<'tcx>, depth: usize) -> J {
    if depth > 6 {
        return J::Obj(vec![("k", J::s("deep")), ("s", J::s(format!("{}", t)))]);
    }
    match t.kind() {
        ty::Bool | ty::Char | ty::Int(_) | ty::Uint(_) | ty::Float(_) | ty::Str | ty::Never => {
            J::Obj(vec![("k", J::s("prim")), ("name", J::s(format!("{}", t)))])
        }
        ty::Adt(def, args) => J::Obj(vec![
            ("k", J::s("adt")),
            ("def", J::s(strip_generics(&tcx.def_path_str(def.did())))),
            ("local", J::Bool(def.did().is_local())),
            (
                "args",
                J::Arr(args.iter().filter_map(|a| a.as_type()).map(|x| ty_json_d(tcx, x, depth + 1)).collect()),
            ),
        ]),
        ty::Param(p) => J::Obj(vec![("k", J::s("param")), ("name", J::s(p.name.to_string()))]),
        ty::Ref(_, inner, m) => J::Obj(vec![
            ("k", J::s("ref")),
            ("mut", J::Bool(m.is_mut())),
            ("ty", ty_json_d(tcx, *inner, depth + 1)),
        ]),
        ty::RawPtr(inner, m) => J::Obj(vec![
            ("k", J::s("rawptr")),
            ("mut", J::Bool(m.is_mut())),
            ("ty", ty_json_d(tcx, *inner, depth + 1)),
        ]),
        ty::Tuple(ts) => J::Obj(vec![
            ("k", J::s("tuple")),
            ("tys", J::Arr(ts.iter().map(|x| ty_json_d(tcx, x, depth + 1)).collect())),
        ]),
        ty::Slice(inner) => J::Obj(vec![("k", J::s("slice")), ("ty", ty_json_d(tcx, *inner, depth + 1))]),
        ty::Array(inner, len) => J::Obj(vec![
            ("k", J::s("array")),
            ("ty", ty_json_d(tcx, *inner, depth + 1)),
            ("len", J::s(format!("{}", len))),
        ]),
        ty::FnDef(did, _) => J::Obj(vec![("k", J::s("fndef")), ("def", J::s(fn_key(tcx, *did)))]),
        ty::Closure(did, _) => J::Obj(vec![("k", J::s("closure")), ("def", J::s(fn_key(tcx, *did)))]),
        ty::FnPtr(..) => J::Obj(vec![("k", J::s("fnptr")), ("s", J::s(format!("{}", t)))]),
        _ => J::Obj(vec![("k", J::s("other")), ("s", J::s(format!("{}", t)))]),
    }
}

/// ADT def-paths reachable through the fields of `t` (descending into external ADTs),
/// plus markers `&`, `&mut`, `*const`, `*mut`, `fnptr`, `dyn` for non-ADT indirections.
fn reach<'tcx>(tcx: TyCtxt<'tcx>, t: Ty<'tcx>, seen: &mut BTreeSet<String>, out: &mut BTreeSet<String>, depth: usize) {
    if depth > 12 {
        out.insert("<depth-limit>".into());
        return;
    }
    match t.kind() {
        ty::Adt(def, args) => {
            let name = strip_generics(&tcx.def_path_str(def.did()));
            out.insert(name.clone());
            let key = format!("{}", t);
            if !seen.insert(key) {
                return;
            }
            // PhantomData owns nothing
            if def.is_phantom_data() {
                return;
            }
            if def.did().is_local() {
                for f in def.all_fields() {
                    let ft = f.ty(tcx, args);
                    reach(tcx, ft, seen, out, depth + 1);
                }
            } else {
                // external ADT: an opaque owner of its type arguments (its private
                // representation — raw pointers in Vec, counters in Rc — is not our business;
                // the rule modules carry a table of what each external type means)
                for a in args.iter().filter_map(|a| a.as_type()) {
                    reach(tcx, a, seen, out, depth + 1);
                }
            }
        }
        ty::Ref(_, inner, m) => {
            out.insert(if m.is_mut() { "&mut".into() } else { "&".into() });
            reach(tcx, *inner, seen, out, depth + 1);
        }
        ty::RawPtr(inner, m) => {
            out.insert(if m.is_mut() { "*mut".into() } else { "*const".into() });
            reach(tcx, *inner, seen, out, depth + 1);
        }
        ty::Tuple(ts) => {
            for x in ts.iter() {
                reach(tcx, x, seen, out, depth + 1);
            }
        }
        ty::Slice(inner) | ty::Array(inner, _) => reach(tcx, *inner, seen, out, depth + 1),
        ty::FnPtr(..) => {
            out.insert("fnptr".into());
        }
        ty::Dynamic(..) => {
            out.insert("dyn".into());
        }
        ty::Param(p) => {
            out.insert(format!("param:{}", p.name));
        }
        _ => {}
    }
}

// ---------------------------------------------------------------------------------------
// ADTs, impls, consts

fn dump_adt<'tcx>(tcx: TyCtxt<'tcx>, did: DefId) -> J {
    let def = tcx.adt_def(did);
    let ident_args = ty::GenericArgs::identity_for_item(tcx, did);
    let mut variants = Vec::new();
    for v in def.variants().iter() {
        let mut fields = Vec::new();
        for f in v.fields.iter() {
            let ft = f.ty(tcx, ident_args);
            let mut seen = BTreeSet::new();
            let mut out = BTreeSet::new();
            reach(tcx, ft, &mut seen, &mut out, 0);
            fields.push(J::Obj(vec![
                ("name", J::s(f.name.to_string())),
                ("ty", ty_json(tcx, ft)),
                ("ty_s", J::s(format!("{}", ft))),
                ("pub", J::Bool(f.vis.is_public())),
                ("reach", J::Arr(out.into_iter().map(J::s).collect())),
            ]));
        }
        variants.push(J::Obj(vec![("name", J::s(v.name.to_string())), ("fields", J::Arr(fields))]));
    }
    let generics = tcx.generics_of(did);
    let params: Vec<J> = generics.own_params.iter().map(|p| J::s(p.name.to_string())).collect();
    J::Obj(vec![
        ("key", J::s(strip_generics(&tcx.def_path_str(did)))),
        ("kind", J::s(format!("{:?}", def.adt_kind()))),
        ("pub", J::Bool(tcx.visibility(did).is_public())),
        ("params", J::Arr(params)),
        ("variants", J::Arr(variants)),
        ("span", span_json(tcx, tcx.def_span(did))),
    ])
}

fn dump_impl<'tcx>(tcx: TyCtxt<'tcx>, did: DefId) -> J {
    let self_ty = tcx.type_of(did).instantiate_identity().skip_norm_wip();
    let (tr, targs) = match tcx.impl_opt_trait_ref(did) {
        Some(t) => {
            let t = t.instantiate_identity().skip_norm_wip();
            let targs: Vec<J> =
                t.args.iter().skip(1).filter_map(|a| a.as_type()).map(|x| J::s(ty_key(tcx, x))).collect();
            (J::s(strip_generics(&tcx.def_path_str(t.def_id))), J::Arr(targs))
        }
        None => (J::Null, J::Arr(vec![])),
    };
    let mut items = Vec::new();
    for it in tcx.associated_items(did).in_definition_order() {
        items.push(J::Obj(vec![
            ("name", J::s(it.name().to_string())),
            ("key", J::s(fn_key(tcx, it.def_id))),
            ("kind", J::s(format!("{:?}", tcx.def_kind(it.def_id)))),
        ]));
    }
    // where-clauses on the impl, as strings (for `T: Clone` style checks)
    let preds: Vec<J> = tcx
        .predicates_of(did)
        .predicates
        .iter()
        .map(|(p, _)| J::s(format!("{}", p)))
        .collect();
    J::Obj(vec![
        ("self", J::s(ty_key(tcx, self_ty))),
        ("self_s", J::s(format!("{}", self_ty))),
        ("trait", tr),
        ("trait_args", targs),
        ("derived", J::Bool(tcx.is_automatically_derived(did))),
        ("items", J::Arr(items)),
        ("preds", J::Arr(preds)),
        ("span", span_json(tcx, tcx.def_span(did))),
    ])
}

fn lit_json<'tcx>(tcx: TyCtxt<'tcx>, e: &hir::Expr<'tcx>, depth: usize) -> J {
    use hir::ExprKind as E;
    if depth > 8 {
        return J::Obj(vec![("unk", J::s("deep"))]);
    }
    match &e.kind {
        E::Lit(l) => J::Obj(vec![("lit", J::s(lit_str(&l.node)))]),
        E::Unary(hir::UnOp::Neg, inner) => J::Obj(vec![("neg", lit_json(tcx, inner, depth + 1))]),
        E::AddrOf(_, _, inner) => lit_json(tcx, inner, depth + 1),
        E::Array(es) => J::Arr(es.iter().map(|x| lit_json(tcx, x, depth + 1)).collect()),
        E::Cast(inner, _) => lit_json(tcx, inner, depth + 1),
        E::DropTemps(inner) => lit_json(tcx, inner, depth + 1),
        E::Block(b, _) if b.stmts.is_empty() && b.expr.is_some() => lit_json(tcx, b.expr.unwrap(), depth + 1),
        E::Path(qp) => {
            let s = rustc_hir_pretty_path(qp);
            J::Obj(vec![("path", J::s(s))])
        }
        other => J::Obj(vec![("unk", J::s(format!("{:?}", std::mem::discriminant(other))))]),
    }
}

fn rustc_hir_pretty_path(qp: &hir::QPath<'_>) -> String {
    match qp {
        hir::QPath::Resolved(_, p) => p.segments.iter().map(|s| s.ident.to_string()).collect::<Vec<_>>().join("::"),
        hir::QPath::TypeRelative(_, seg) => format!("<..>::{}", seg.ident),
    }
}

fn lit_str(l: &rustc_ast::LitKind) -> String {
    use rustc_ast::LitKind as L;
    match l {
        L::Int(v, _) => format!("{}", v),
        L::Float(sym, _) => sym.to_string(),
        L::Bool(b) => format!("{}", b),
        L::Str(s, _) => format!("\"{}\"", s),
        L::Char(c) => format!("'{}'", c),
        _ => "?".to_string(),
    }
}

fn dump_const<'tcx>(tcx: TyCtxt<'tcx>, ldid: LocalDefId) -> J {
    let did = ldid.to_def_id();
    let t = tcx.type_of(did).instantiate_identity().skip_norm_wip();
    let val = match tcx.hir_maybe_body_owned_by(ldid) {
        Some(body) => lit_json(tcx, body.value, 0),
        None => J::Null,
    };
    J::Obj(vec![
        ("key", J::s(fn_key(tcx, did))),
        ("name", J::s(tcx.item_name(did).to_string())),
        ("ty", J::s(format!("{}", t))),
        ("value", val),
        ("span", span_json(tcx, tcx.def_span(did))),
    ])
}

// ---------------------------------------------------------------------------------------
// functions

fn place_json<'tcx>(tcx: TyCtxt<'tcx>, body: &Body<'tcx>, p: &Place<'tcx>) -> J {
    let mut proj = Vec::new();
    let mut cur_ty = mir::PlaceTy::from_ty(body.local_decls[p.local].ty);
    for elem in p.projection.iter() {
        let j = match elem {
            ProjectionElem::Deref => J::Obj(vec![("k", J::s("deref"))]),
            ProjectionElem::Field(idx, fty) => {
                // field name, if the base is an ADT
                let mut name = None;
                let mut adt = None;
                if let ty::Adt(def, _) = cur_ty.ty.kind() {
                    let vidx = cur_ty.variant_index.unwrap_or(rustc_abi::FIRST_VARIANT);
                    if def.variants().len() > vidx.as_usize() {
                        let v = def.variant(vidx);
                        if v.fields.len() > idx.as_usize() {
                            name = Some(v.fields[idx].name.to_string());
                        }
                    }
                    adt = Some(strip_generics(&tcx.def_path_str(def.did())));
                }
                J::Obj(vec![
                    ("k", J::s("field")),
                    ("i", J::Int(idx.as_usize() as i128)),
                    ("name", J::opt_s(name)),
                    ("adt", J::opt_s(adt)),
                    ("ty", J::s(format!("{}", fty))),
                ])
            }
            ProjectionElem::Index(l) => J::Obj(vec![("k", J::s("index")), ("local", J::Int(l.as_usize() as i128))]),
            ProjectionElem::ConstantIndex { offset, min_length, from_end } => J::Obj(vec![
                ("k", J::s("constindex")),
                ("offset", J::Int(offset as i128)),
                ("min_length", J::Int(min_length as i128)),
                ("from_end", J::Bool(from_end)),
            ]),
            ProjectionElem::Subslice { from, to, from_end } => J::Obj(vec![
                ("k", J::s("subslice")),
                ("from", J::Int(from as i128)),
                ("to", J::Int(to as i128)),
                ("from_end", J::Bool(from_end)),
            ]),
            ProjectionElem::Downcast(name, vidx) => J::Obj(vec![
                ("k", J::s("downcast")),
                ("v", J::Int(vidx.as_usize() as i128)),
                ("name", J::opt_s(name.map(|s| s.to_string()))),
            ]),
            ProjectionElem::OpaqueCast(_) => J::Obj(vec![("k", J::s("opaquecast"))]),
            ProjectionElem::UnwrapUnsafeBinder(_) => J::Obj(vec![("k", J::s("unwrapbinder"))]),
        };
        proj.push(j);
        cur_ty = cur_ty.projection_ty(tcx, elem);
    }
    J::Obj(vec![("local", J::Int(p.local.as_usize() as i128)), ("proj", J::Arr(proj))])
}

fn const_json<'tcx>(tcx: TyCtxt<'tcx>, env: TypingEnv<'tcx>, c: &mir::ConstOperand<'tcx>) -> J {
    let t = c.const_.ty();
    let mut v = vec![("k", J::s("const")), ("ty", J::s(format!("{}", t))), ("s", J::s(format!("{}", c.const_)))];
    match t.kind() {
        ty::FnDef(did, args) => {
            v.push(("fn", callee_json(tcx, env, *did, args)));
        }
        ty::Bool | ty::Int(_) | ty::Uint(_) | ty::Float(_) | ty::Char => {
            if let Some(si) = c.const_.try_eval_scalar_int(tcx, env) {
                let size = si.size();
                let bits = si.to_bits(size);
                v.push(("bits", J::Raw(bits.to_string())));
                v.push(("size", J::Int(size.bytes() as i128)));
            }
        }
        _ => {}
    }
    J::Obj(v)
}

fn callee_json<'tcx>(tcx: TyCtxt<'tcx>, env: TypingEnv<'tcx>, did: DefId, args: GenericArgsRef<'tcx>) -> J {
    let mut v = vec![
        ("def", J::s(fn_key(tcx, did))),
        ("name", J::s(tcx.opt_item_name(did).map(|s| s.to_string()).unwrap_or_default())),
        ("local", J::Bool(did.is_local())),
        ("args", J::Arr(args.iter().map(|a| J::s(strip_generics(&format!("{}", a)))).collect())),
        ("args_full", J::Arr(args.iter().map(|a| J::s(format!("{}", a))).collect())),
    ];
    if let Some(tr) = tcx.trait_of_assoc(did) {
        v.push(("trait", J::s(strip_generics(&tcx.def_path_str(tr)))));
        if let Some(st) = args.iter().next().and_then(|a| a.as_type()) {
            v.push(("self_ty", J::s(ty_key(tcx, st))));
        }
    }
    if matches!(tcx.def_kind(did), DefKind::Fn | DefKind::AssocFn) {
        if let Ok(Some(inst)) = Instance::try_resolve(tcx, env, did, args) {
            let rdid = inst.def_id();
            v.push(("resolved", J::s(fn_key(tcx, rdid))));
            v.push(("resolved_local", J::Bool(rdid.is_local())));
        }
    }
    J::Obj(v)
}

fn operand_json<'tcx>(tcx: TyCtxt<'tcx>, env: TypingEnv<'tcx>, body: &Body<'tcx>, o: &Operand<'tcx>) -> J {
    match o {
        Operand::Copy(p) => J::Obj(vec![("k", J::s("copy")), ("place", place_json(tcx, body, p))]),
        Operand::Move(p) => J::Obj(vec![("k", J::s("move")), ("place", place_json(tcx, body, p))]),
        Operand::Constant(c) => const_json(tcx, env, c),
        Operand::RuntimeChecks(rc) => J::Obj(vec![("k", J::s("runtimechecks")), ("s", J::s(format!("{:?}", rc)))]),
    }
}

fn rvalue_json<'tcx>(tcx: TyCtxt<'tcx>, env: TypingEnv<'tcx>, body: &Body<'tcx>, rv: &Rvalue<'tcx>) -> J {
    let op = |o: &Operand<'tcx>| operand_json(tcx, env, body, o);
    match rv {
        Rvalue::Use(o, _) => J::Obj(vec![("k", J::s("use")), ("op", op(o))]),
        Rvalue::Repeat(o, n) => J::Obj(vec![("k", J::s("repeat")), ("op", op(o)), ("n", J::s(format!("{}", n)))]),
        Rvalue::Ref(_, bk, p) => J::Obj(vec![
            ("k", J::s("ref")),
            (
                "bk",
                J::s(match bk {
                    BorrowKind::Shared => "shared",
                    BorrowKind::Fake(_) => "fake",
                    BorrowKind::Mut { .. } => "mut",
                }),
            ),
            ("place", place_json(tcx, body, p)),
        ]),
        Rvalue::RawPtr(k, p) => J::Obj(vec![
            ("k", J::s("rawptr")),
            ("kind", J::s(format!("{:?}", k))),
            ("place", place_json(tcx, body, p)),
        ]),
        Rvalue::Cast(ck, o, t) => J::Obj(vec![
            ("k", J::s("cast")),
            (
                "ck",
                J::s(match ck {
                    CastKind::IntToInt => "IntToInt".to_string(),
                    CastKind::FloatToInt => "FloatToInt".to_string(),
                    CastKind::FloatToFloat => "FloatToFloat".to_string(),
                    CastKind::IntToFloat => "IntToFloat".to_string(),
                    CastKind::Transmute => "Transmute".to_string(),
                    other => format!("{:?}", other),
                }),
            ),
            ("op", op(o)),
            ("ty", J::s(format!("{}", t))),
        ]),
        Rvalue::BinaryOp(b, ops) => J::Obj(vec![
            ("k", J::s("binop")),
            ("op", J::s(format!("{:?}", b))),
            ("l", op(&ops.0)),
            ("r", op(&ops.1)),
        ]),
        Rvalue::UnaryOp(u, o) => J::Obj(vec![("k", J::s("unop")), ("op", J::s(format!("{:?}", u))), ("x", op(o))]),
        Rvalue::Discriminant(p) => J::Obj(vec![("k", J::s("discr")), ("place", place_json(tcx, body, p))]),
        Rvalue::Aggregate(ak, fields) => {
            let mut v = vec![("k", J::s("aggregate"))];
            match &**ak {
                AggregateKind::Array(t) => {
                    v.push(("ak", J::s("array")));
                    v.push(("ty", J::s(format!("{}", t))));
                }
                AggregateKind::Tuple => v.push(("ak", J::s("tuple"))),
                AggregateKind::Adt(did, vidx, _, _, _) => {
                    v.push(("ak", J::s("adt")));
                    v.push(("adt", J::s(strip_generics(&tcx.def_path_str(*did)))));
                    let def = tcx.adt_def(*did);
                    let var = def.variant(*vidx);
                    v.push(("variant", J::s(var.name.to_string())));
                    v.push(("vidx", J::Int(vidx.as_usize() as i128)));
                    v.push(("fields", J::Arr(var.fields.iter().map(|f| J::s(f.name.to_string())).collect())));
                }
                AggregateKind::Closure(did, _) => {
                    v.push(("ak", J::s("closure")));
                    v.push(("def", J::s(fn_key(tcx, *did))));
                }
                other => {
                    v.push(("ak", J::s("other")));
                    v.push(("s", J::s(format!("{:?}", other))));
                }
            }
            v.push(("ops", J::Arr(fields.iter().map(|o| op(o)).collect())));
            J::Obj(v)
        }
        Rvalue::CopyForDeref(p) => J::Obj(vec![("k", J::s("copyforderef")), ("place", place_json(tcx, body, p))]),
        Rvalue::ThreadLocalRef(_) => J::Obj(vec![("k", J::s("threadlocal"))]),
        Rvalue::WrapUnsafeBinder(o, _) => J::Obj(vec![("k", J::s("wrapbinder")), ("op", op(o))]),
    }
}

fn unwind_bb(u: &UnwindAction) -> J {
    match u {
        UnwindAction::Cleanup(bb) => J::Int(bb.as_usize() as i128),
        _ => J::Null,
    }
}

fn block_json<'tcx>(tcx: TyCtxt<'tcx>, env: TypingEnv<'tcx>, body: &Body<'tcx>, bb: &BasicBlockData<'tcx>) -> J {
    let mut stmts = Vec::new();
    for st in bb.statements.iter() {
        let sp = span_json(tcx, st.source_info.span);
        match &st.kind {
            StatementKind::Assign(b) => {
                let (p, rv) = &**b;
                stmts.push(J::Obj(vec![
                    ("k", J::s("assign")),
                    ("place", place_json(tcx, body, p)),
                    ("rv", rvalue_json(tcx, env, body, rv)),
                    ("span", sp),
                ]));
            }
            StatementKind::SetDiscriminant { place, variant_index } => {
                stmts.push(J::Obj(vec![
                    ("k", J::s("setdiscr")),
                    ("place", place_json(tcx, body, place)),
                    ("v", J::Int(variant_index.as_usize() as i128)),
                    ("span", sp),
                ]));
            }
            StatementKind::Intrinsic(i) => {
                stmts.push(J::Obj(vec![("k", J::s("intrinsic")), ("s", J::s(format!("{:?}", i))), ("span", sp)]));
            }
            // storage markers, fake reads, coverage etc. carry no dataflow
            _ => {}
        }
    }
    let term = bb.terminator();
    let tsp = span_json(tcx, term.source_info.span);
    let op = |o: &Operand<'tcx>| operand_json(tcx, env, body, o);
    let t = match &term.kind {
        TerminatorKind::Goto { target } => {
            J::Obj(vec![("k", J::s("goto")), ("target", J::Int(target.as_usize() as i128)), ("span", tsp)])
        }
        TerminatorKind::SwitchInt { discr, targets } => {
            let mut arms = Vec::new();
            for (v, bbx) in targets.iter() {
                arms.push(J::Arr(vec![J::Raw(v.to_string()), J::Int(bbx.as_usize() as i128)]));
            }
            J::Obj(vec![
                ("k", J::s("switch")),
                ("discr", op(discr)),
                ("discr_ty", J::s(format!("{}", discr.ty(&body.local_decls, tcx)))),
                ("arms", J::Arr(arms)),
                ("otherwise", J::Int(targets.otherwise().as_usize() as i128)),
                ("span", tsp),
            ])
        }
        TerminatorKind::Return => J::Obj(vec![("k", J::s("return")), ("span", tsp)]),
        TerminatorKind::Unreachable => J::Obj(vec![("k", J::s("unreachable")), ("span", tsp)]),
        TerminatorKind::UnwindResume => J::Obj(vec![("k", J::s("resume")), ("span", tsp)]),
        TerminatorKind::UnwindTerminate(_) => J::Obj(vec![("k", J::s("terminate")), ("span", tsp)]),
        TerminatorKind::Drop { place, target, unwind, .. } => J::Obj(vec![
            ("k", J::s("drop")),
            ("place", place_json(tcx, body, place)),
            ("target", J::Int(target.as_usize() as i128)),
            ("unwind", unwind_bb(unwind)),
            ("span", tsp),
        ]),
        TerminatorKind::Call { func, args, destination, target, unwind, .. } => {
            let f = match func {
                Operand::Constant(c) => match c.const_.ty().kind() {
                    ty::FnDef(did, gargs) => callee_json(tcx, env, *did, gargs),
                    _ => J::Obj(vec![("def", J::s("<const-fn-ptr>")), ("s", J::s(format!("{}", c.const_)))]),
                },
                other => J::Obj(vec![("def", J::s("<indirect>")), ("op", op(other))]),
            };
            J::Obj(vec![
                ("k", J::s("call")),
                ("func", f),
                ("args", J::Arr(args.iter().map(|a| op(&a.node)).collect())),
                ("dest", place_json(tcx, body, destination)),
                ("dest_ty", J::s(format!("{}", destination.ty(&body.local_decls, tcx).ty))),
                ("target", match target {
                    Some(t) => J::Int(t.as_usize() as i128),
                    None => J::Null,
                }),
                ("unwind", unwind_bb(unwind)),
                ("span", tsp),
            ])
        }
        TerminatorKind::Assert { cond, expected, msg, target, unwind } => {
            use rustc_middle::mir::AssertKind as A;
            let (kind, ops): (String, Vec<J>) = match &**msg {
                A::BoundsCheck { len, index } => ("BoundsCheck".into(), vec![op(len), op(index)]),
                A::Overflow(b, l, r) => (format!("Overflow:{:?}", b), vec![op(l), op(r)]),
                A::OverflowNeg(o) => ("OverflowNeg".into(), vec![op(o)]),
                A::DivisionByZero(o) => ("DivisionByZero".into(), vec![op(o)]),
                A::RemainderByZero(o) => ("RemainderByZero".into(), vec![op(o)]),
                other => (format!("{:?}", std::mem::discriminant(other)), vec![]),
            };
            J::Obj(vec![
                ("k", J::s("assert")),
                ("cond", op(cond)),
                ("expected", J::Bool(*expected)),
                ("kind", J::s(kind)),
                ("ops", J::Arr(ops)),
                ("target", J::Int(target.as_usize() as i128)),
                ("unwind", unwind_bb(unwind)),
                ("span", tsp),
            ])
        }
        TerminatorKind::FalseEdge { real_target, .. } => {
            J::Obj(vec![("k", J::s("goto")), ("target", J::Int(real_target.as_usize() as i128)), ("span", tsp)])
        }
        TerminatorKind::FalseUnwind { real_target, .. } => {
            J::Obj(vec![("k", J::s("goto")), ("target", J::Int(real_target.as_usize() as i128)), ("span", tsp)])
        }
        other => J::Obj(vec![("k", J::s("other")), ("s", J::s(format!("{:?}", std::mem::discriminant(other)))), ("span", tsp)]),
    };
    J::Obj(vec![("stmts", J::Arr(stmts)), ("term", t), ("cleanup", J::Bool(bb.is_cleanup))])
}

fn dump_fn<'tcx>(tcx: TyCtxt<'tcx>, ldid: LocalDefId) -> J {
    let did = ldid.to_def_id();
    let body: &Body<'tcx> = tcx.optimized_mir(did);
    let env = TypingEnv::post_analysis(tcx, did);
    let kind = tcx.def_kind(did);

    let mut locals = Vec::new();
    for (_l, decl) in body.local_decls.iter_enumerated() {
        locals.push(J::Obj(vec![
            ("ty", J::s(format!("{}", decl.ty))),
            ("tyj", ty_json(tcx, decl.ty)),
            ("mut", J::Bool(decl.mutability.is_mut())),
        ]));
    }
    let mut dbg = Vec::new();
    for vdi in body.var_debug_info.iter() {
        if let mir::VarDebugInfoContents::Place(p) = &vdi.value {
            dbg.push(J::Obj(vec![
                ("name", J::s(vdi.name.to_string())),
                ("place", place_json(tcx, body, p)),
                ("arg", match vdi.argument_index {
                    Some(i) => J::Int(i as i128),
                    None => J::Null,
                }),
            ]));
        }
    }
    let mut blocks = Vec::new();
    for (_bb, data) in body.basic_blocks.iter_enumerated() {
        blocks.push(block_json(tcx, env, body, data));
    }

    let mut v = vec![
        ("key", J::s(fn_key(tcx, did))),
        ("path", J::s(tcx.def_path_str(did))),
        ("name", J::s(tcx.opt_item_name(did).map(|s| s.to_string()).unwrap_or_default())),
        ("kind", J::s(format!("{:?}", kind))),
        ("arg_count", J::Int(body.arg_count as i128)),
        ("span", span_json(tcx, tcx.def_span(did))),
        ("locals", J::Arr(locals)),
        ("debug", J::Arr(dbg)),
        ("blocks", J::Arr(blocks)),
    ];
    if matches!(kind, DefKind::Fn | DefKind::AssocFn) {
        v.push(("pub", J::Bool(tcx.visibility(did).is_public())));
        let sig = tcx.fn_sig(did).instantiate_identity().skip_norm_wip().skip_binder();
        v.push(("ret_ty", J::s(format!("{}", sig.output()))));
        v.push(("inputs", J::Arr(sig.inputs().iter().map(|t| J::s(format!("{}", t))).collect())));
    }
    if let Some(impl_id) = tcx.impl_of_assoc(did) {
        let self_ty = tcx.type_of(impl_id).instantiate_identity().skip_norm_wip();
        v.push(("impl_self", J::s(ty_key(tcx, self_ty))));
        if let Some(tr) = tcx.impl_opt_trait_ref(impl_id) {
            let tr = tr.instantiate_identity().skip_norm_wip();
            v.push(("impl_trait", J::s(strip_generics(&tcx.def_path_str(tr.def_id)))));
        }
        v.push(("impl_derived", J::Bool(tcx.is_automatically_derived(impl_id))));
    }
    if matches!(kind, DefKind::Closure) {
        v.push(("parent", J::s(fn_key(tcx, tcx.parent(did)))));
    }
    // promoted constants (`&(4..=18)`, `&[..]` literals) as miniature bodies
    let mut proms = Vec::new();
    for pb in tcx.promoted_mir(did).iter() {
        let mut plocals = Vec::new();
        for (_l, decl) in pb.local_decls.iter_enumerated() {
            plocals.push(J::Obj(vec![
                ("ty", J::s(format!("{}", decl.ty))),
                ("tyj", ty_json(tcx, decl.ty)),
                ("mut", J::Bool(decl.mutability.is_mut())),
            ]));
        }
        let mut pblocks = Vec::new();
        for (_bb, data) in pb.basic_blocks.iter_enumerated() {
            pblocks.push(block_json(tcx, env, pb, data));
        }
        proms.push(J::Obj(vec![("locals", J::Arr(plocals)), ("blocks", J::Arr(pblocks))]));
    }
    v.push(("promoted", J::Arr(proms)));
    J::Obj(v)
}
