//! pdsa-extract: rustc_private driver that dumps the type-checked program of the
//! crate being compiled (MIR bodies, ADTs, consts, impl tables) as one JSON file.
//!
//! Used as RUSTC_WORKSPACE_WRAPPER under `cargo +nightly check`; argv[1] is the real
//! rustc path (dropped). Output goes to $PDSA_FACTS_OUT, tagged with $PDSA_NONCE.
//! Only the crate named $PDSA_CRATE (default `pdatastructs`) is dumped; everything else
//! is compiled as by plain rustc.
#![feature(rustc_private)]
#![allow(clippy::all)]

extern crate rustc_abi;
extern crate rustc_ast;
extern crate rustc_data_structures;
extern crate rustc_driver;
extern crate rustc_hir;
extern crate rustc_index;
extern crate rustc_interface;
extern crate rustc_middle;
extern crate rustc_session;
extern crate rustc_span;

mod json;
mod dump;

use rustc_driver::{Callbacks, Compilation};
use rustc_interface::interface;
use rustc_middle::ty::TyCtxt;
use rustc_span::def_id::LOCAL_CRATE;

struct Cb;

impl Callbacks for Cb {
    fn after_analysis<'tcx>(
        &mut self,
        _compiler: &interface::Compiler,
        tcx: TyCtxt<'tcx>,
    ) -> Compilation {
        let want = std::env::var("PDSA_CRATE").unwrap_or_else(|_| "pdatastructs".to_string());
        let name = tcx.crate_name(LOCAL_CRATE).to_string();
        if name == want {
            if let Ok(out) = std::env::var("PDSA_FACTS_OUT") {
                let j = dump::dump_crate(tcx);
                let mut s = String::new();
                j.write(&mut s);
                std::fs::write(&out, s).expect("cannot write facts");
            }
        }
        Compilation::Continue
    }
}

fn main() {
    let mut args: Vec<String> = std::env::args().collect();
    // cargo: <wrapper> <rustc> <args..>; run_compiler drops args[0]
    if args.len() > 1 {
        args.remove(0);
    }
    let mut cb = Cb;
    rustc_driver::run_compiler(&args, &mut cb);
}
