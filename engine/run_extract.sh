#!/bin/bash
# usage: run_extract.sh <repo-dir> <out-facts.json> [extra RUSTFLAGS] [cargo feature args...]
set -e
REPO=$1; OUT=$2; EXTRA=${3:-}; shift; shift; shift || true
T=$(mktemp -d /tmp/pdsa-tgt.XXXXXX)
trap 'rm -rf "$T"' EXIT
NONCE=$(date +%s%N)-$$
cd "$REPO"
env LD_LIBRARY_PATH=$(rustc +nightly --print sysroot)/lib \
  RUSTFLAGS="-Zmir-opt-level=0 -Awarnings $EXTRA" \
  RUSTC_WORKSPACE_WRAPPER=/verif/engine/extract/target/release/pdsa-extract \
  CARGO_TARGET_DIR=$T PDSA_FACTS_OUT="$OUT" PDSA_NONCE=$NONCE CARGO_NET_OFFLINE=true \
  cargo +nightly check --offline --lib "$@" >"$T/log" 2>&1 || { cat "$T/log" >&2; exit 3; }
grep -q "\"nonce\":\"$NONCE\"" "$OUT" || { echo "facts not produced by this run" >&2; exit 4; }
