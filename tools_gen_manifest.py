#!/usr/bin/env python3
"""Regenerates MANIFEST.json from the table below (kept in one place so it stays consistent)."""
import json, os, sys
VERIF = os.path.dirname(os.path.abspath(__file__))
sys.path.insert(0, os.path.join(VERIF, "engine"))
import importlib

CLAIMS = {
 # id: (technique, level text, level_note, design_ref)
 "C01": ("writer/reader term agreement + loop typestate over MIR", None, None, "4/C01"),
 "C02": ("term agreement, dataflow wiring, writer census over MIR", None, None, "4/C02"),
 "C04": ("term templates of the merge criterion + reuse of the digest's conservation/clear/insert rules over MIR", None, None, "5 (revised in 9: claimed for structure only)"),
 "C03": ("const-table shape agreement + may-panic census over MIR", None, None, "4/C03"),
 "C05": ("term templates (linear normal forms) over MIR", None, None, "4/C05"),
 "C06": ("writer census (monoid classification) + guard dominance over MIR", None, None, "4/C06"),
 "C07": ("interval analysis of sizing terms + term templates over MIR", None, None, "4/C07"),
 "C08": ("term templates, taint and intervals over MIR", None, None, "4/C08"),
 "C09": ("term templates + path summaries over MIR", None, None, "4/C09"),
 "C10": ("may-panic census with belief rule + paired-update path rule over MIR", None, None, "4/C10"),
 "C11": ("dimension (units) inference + allocation-term and growth census over MIR", None, None, "4/C11"),
 "C12": ("inter-procedural path exploration with effect summaries (undo-log / backup pairing) over MIR", None, None, "4/C12"),
 "C13": ("path summaries partitioned by branch facts over MIR", None, None, "4/C13"),
 "C14": ("constant propagation over the call graph + path summaries + sibling cross-check over MIR", None, None, "4/C14"),
 "C15": ("term templates (linear normal forms of interpolation knots) + must-pass-through over MIR", None, None, "4/C15"),
 "C16": ("term templates + linear-use path rule over MIR", None, None, "4/C16"),
 "C17": ("writer census + term templates over MIR", None, None, "4/C17"),
 "C18": ("path rule with branch facts + may-panic census over MIR", None, None, "4/C18"),
 "C19": ("effect summaries: Mut(S) subset of Reset(S); type-tree rule for Clone", None, None, "4/C19"),
 "C20": ("who-may-construct + guard dominance; may-panic census; field-table agreement over MIR", None, None, "4/C20"),
}
NOT_APPLICABLE = {
}

def main():
    implemented = sorted(f[:-3] for f in os.listdir(os.path.join(VERIF, "engine", "pdsa", "rules")) if f.startswith("C") and f.endswith(".py"))
    checks = []
    na = [{"property_id": k, "reason": v} for k, v in sorted(NOT_APPLICABLE.items())]
    for pid in sorted(CLAIMS):
        tech, _, _, ref = CLAIMS[pid]
        if pid not in implemented:
            na.append({"property_id": pid, "reason": "rules designed (DESIGN section %s) but not implemented yet in this tree; not claimed until the check exists" % ref})
            continue
        mod = importlib.import_module("pdsa.rules." + pid)
        checks.append({
            "property_id": pid,
            "quick_cmd": "./check %s --tier quick" % pid,
            "thorough_cmd": "./check %s --tier thorough" % pid,
            "evidence_file": "evidence/%s.json" % pid,
            "replay_cmd_template": "./check %s --replay {path}" % pid,
            "engine": "pdsa",
            "technique": "static analysis: " + tech,
            "level_claimed": {
                "category": "other",
                "text": "Structural necessary conditions of the property, decided exactly over all CFG paths / terms / call sites of the "
                        "type-checked program (rustc MIR) of /repo's current tree — not a proof of the behavioural statement. " + mod.EXPLANATION,
                "design_ref": "DESIGN.md section " + ref,
            },
            "level_note": "Trusted: rustc's MIR for the current tree (nightly front end), the tables of external-callee behaviour in engine/pdsa, real-number semantics for intervals. "
                          "NOT decided by this check: " + (mod.NOT_DECIDED or "-"),
        })
    man = {
        "version": 1,
        "setup_cmd": "cd engine/extract && CARGO_NET_OFFLINE=true cargo +nightly build --release --offline",
        "hooks": {
            "guard": "pdatastructs_verif",
            "enable": "none needed: the analysis reads rustc's MIR of the unmodified sources (no instrumentation in /repo)",
            "baseline_off_cmd": "cd /repo && cargo test --workspace --no-fail-fast --offline",
            "source_commits": [],
            "add_only": True,
        },
        "engines": [
            {"name": "pdsa-extract", "path": "engine/extract", "serves_properties": sorted(c["property_id"] for c in checks),
             "kind_free_text": "rustc_private driver (RUSTC_WORKSPACE_WRAPPER) dumping MIR bodies, ADTs, consts, impl tables of the local crate as JSON"},
            {"name": "pdsa", "path": "engine/pdsa", "serves_properties": sorted(c["property_id"] for c in checks),
             "kind_free_text": "python static-analysis library over the dumped MIR: CFG/dominators, symbolic terms with normalisation, path exploration with effect summaries, guard dominance, intervals, dimensions; one rule module per property"},
        ],
        "checks": checks,
        "not_applicable": na,
        "notes": "All checks are static: they rebuild facts from /repo's working tree on every run (fresh cargo target dir, nonce-checked) and never execute library code. "
                 "Known genuine defects are listed in known_findings.jsonl (open entries are printed as KNOWN-FINDING; fixed entries suppress nothing).",
    }
    with open(os.path.join(VERIF, "MANIFEST.json"), "w") as f:
        json.dump(man, f, indent=1)
    print("checks:", [c["property_id"] for c in checks], "n/a:", [x["property_id"] for x in na])

main()
