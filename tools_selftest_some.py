#!/usr/bin/env python3
"""run selected corpus specs: tools_selftest_some.py <kind or name-substring> ..."""
import sys, os, importlib.util, importlib.machinery, concurrent.futures
VERIF = os.path.dirname(os.path.abspath(__file__))
sys.path.insert(0, os.path.join(VERIF, "engine"))
spec = importlib.util.spec_from_loader("check", importlib.machinery.SourceFileLoader("check", os.path.join(VERIF, "check")))
chk = importlib.util.module_from_spec(spec); spec.loader.exec_module(chk)
from pdsa import selftest as st
from pdsa.framework import load_known
known = {k["key"] for k in load_known() if k.get("status") == "open"}
pats = sys.argv[1:]
specs = [s for s in st.load_corpus() if any(p == s["kind"] or p in s["name"] for p in pats)]
def one(s):
    return s, st.run_one(s, "/repo", None, known)
with concurrent.futures.ThreadPoolExecutor(max_workers=10) as ex:
    for s, r in ex.map(one, specs):
        if r["status"] not in ("silent", "fired"):
            print("%-11s %s %-40s %s" % (r["status"], s["property"], s["name"], str(r.get("got") or r.get("why"))[:600]))
print("done", len(specs))
