#!/usr/bin/env python3
"""Regenerate engine/pdsa/baseline.json: keys, signatures and parameter names of the functions and the fields of the structs of /repo's *reviewed* tree that the rule modules may anchor on.
Calls to crate-local functions not in this list are expanded in place before rules run (engine/pdsa/inline.py).  Run this only on a tree
whose function set has been reviewed (the pinned commit plus `fix:` commits) — never as part of a check."""
import json, os, subprocess, sys, tempfile
VERIF = os.path.dirname(os.path.abspath(__file__))
repo = sys.argv[1] if len(sys.argv) > 1 else "/repo"
out = tempfile.mktemp(suffix=".json")
subprocess.run([os.path.join(VERIF, "engine", "run_extract.sh"), repo, out], check=True)
j = json.load(open(out))
os.unlink(out)
sys.path.insert(0, os.path.join(VERIF, "engine"))
from pdsa.canon import make_baseline
base = make_baseline(j)
json.dump(base, open(os.path.join(VERIF, "engine", "pdsa", "baseline.json"), "w"), indent=0, sort_keys=True)
print("%d functions, %d structs" % (len(base["fns"]), len(base["adts"])))
