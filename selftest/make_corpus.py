#!/usr/bin/env python3
"""Source of selftest/corpus.json: mutants ("must fire") and benign edits ("must stay silent") as exact-text replacements.
Run `python3 selftest/make_corpus.py` to regenerate corpus.json; `--validate` additionally compiles and tests every spec
in a scratch copy (slow; records `compiles` / `tests_pass`)."""
import json, os, sys

SPECS = []
CF = "src/filters/cuckoofilter.rs"
QF = "src/filters/quotientfilter.rs"
BF = "src/filters/bloomfilter.rs"
CMS = "src/countminsketch.rs"
HLL = "src/hyperloglog/mod.rs"
SER = "src/hyperloglog/serde.rs"
RS = "src/reservoirsampling.rs"
TD = "src/tdigest.rs"
LC = "src/topk/lossycounter.rs"
CH = "src/topk/cmsheap.rs"
HU = "src/hash_utils.rs"
HP = "src/helpers.rs"
DATA = "src/hyperloglog/data.rs"


def M(prop, name, edits, rule, construct="", base=None):
    if edits is None:
        return
    if isinstance(edits, tuple):
        edits = [edits]
    spec = {"property": prop, "kind": "mutant", "name": name, "rule": rule, "construct": construct,
            "edits": [{"file": f, "old": o, "new": n} for f, o, n in edits]}
    if base:
        spec["base"] = base      # the edit is applied on top of this behaviour-preserving refactoring (path under /verif)
    SPECS.append(spec)


def B(prop, name, edits):
    if isinstance(edits, tuple):
        edits = [edits]
    SPECS.append({"property": prop, "kind": "benign", "name": name, "edits": [{"file": f, "old": o, "new": n} for f, o, n in edits]})


# ======================================================================================= C12
M("C12", "cuckoo-union-drop-table-restore", (CF, "                    self.table = table_backup;\n", ""), "R12-restore", "union:table")
M("C12", "cuckoo-union-drop-len-restore", (CF, "                    self.n_elements = n_elements_backup;\n                    return Err(err);", "                    return Err(err);"), "R12-restore", "union:n_elements")
M("C12", "cuckoo-union-revert-to-log-only", (CF, "                    self.table = table_backup;\n", "                    self.restore_state(&log);\n"), "R12-restore", "union:table")
M("C12", "cuckoo-insert-conditional-restore", (CF, "        if result.is_err() {\n            self.restore_state(&log);\n        }\n", "        if result.is_err() && log.len() > 1 {\n            self.restore_state(&log);\n        }\n"), "R12-restore", "insert:table")
B("C12", "cuckoo-log-after-set", (CF, "            log.push((x, tmp));\n            self.table.set(x as u64, f);\n", "            self.table.set(x as u64, f);\n            log.push((x, tmp));\n"))
M("C12", "cuckoo-log-only-every-other-kick", (CF, "            log.push((x, tmp));\n            self.table.set(x as u64, f);\n", "            if log.len() % 2 == 0 {\n                log.push((x, tmp));\n            }\n            self.table.set(x as u64, f);\n"), "R12-restore", "insert:table")
M("C12", "cuckoo-forward-replay", (CF, "for (pos, data) in log.iter().rev().cloned() {", "for (pos, data) in log.iter().cloned() {"), "R12-replay-helper", "restore_state")
M("C12", "quotient-union-second-site-misses-shifted", (QF, "                        self.is_continuation = is_continuation_backup;\n                        self.is_shifted = is_shifted_backup;\n                        self.remainders = remainders_backup;\n                        self.n_elements = n_elements_backup;\n                        return Err(err);\n                    }\n\n                    self.incr(&mut j)", "                        self.is_continuation = is_continuation_backup;\n                        self.remainders = remainders_backup;\n                        self.n_elements = n_elements_backup;\n                        return Err(err);\n                    }\n\n                    self.incr(&mut j)"), "R12-restore", "union:is_shifted")
M("C12", "quotient-backup-after-first-insert", [(QF, "        let remainders_backup = self.remainders.clone();\n        let n_elements_backup = self.n_elements;\n", "        let n_elements_backup = self.n_elements;\n"),
                                                 (QF, "                let mut quotient = i;\n                if let Err(err) = self.insert_internal(quotient, other.remainders.get(i as u64)) {", "                let mut quotient = i;\n                let r0 = self.insert_internal(quotient, other.remainders.get(i as u64));\n                let remainders_backup = self.remainders.clone();\n                if let Err(err) = r0 {"),
                                                 ], "R12-snapshot-dominates", "union:remainders")
M("C12", "quotient-insert-count-before-capacity-check", (QF, "        if self.n_elements == self.is_occupied.len() {\n            return Err(QuotientFilterFull);\n        }\n", "        self.n_elements += 1;\n        if self.n_elements > self.is_occupied.len() {\n            return Err(QuotientFilterFull);\n        }\n        self.n_elements -= 1;\n"), "R12-restore", "")
B("C12", "cuckoo-union-restore-via-mem-replace", (CF, "                    self.table = table_backup;\n", "                    let _old = std::mem::replace(&mut self.table, table_backup);\n"))
B("C12", "cuckoo-union-rename-backups", [(CF, "let table_backup = self.table.clone();", "let saved_table = self.table.clone();"), (CF, "self.table = table_backup;", "self.table = saved_table;")])
B("C12", "cuckoo-insert-match-instead-of-is-err", (CF, "        if result.is_err() {\n            self.restore_state(&log);\n        }\n        result", "        match result {\n            Ok(v) => Ok(v),\n            Err(e) => {\n                self.restore_state(&log);\n                Err(e)\n            }\n        }"))
B("C12", "quotient-union-reorder-restores", (QF, "                    self.is_occupied = is_occupied_backup;\n                    self.is_continuation = is_continuation_backup;\n                    self.is_shifted = is_shifted_backup;\n                    self.remainders = remainders_backup;\n                    self.n_elements = n_elements_backup;\n                    return Err(err);\n                }\n\n                let mut next_quotients", "                    self.n_elements = n_elements_backup;\n                    self.remainders = remainders_backup;\n                    self.is_shifted = is_shifted_backup;\n                    self.is_continuation = is_continuation_backup;\n                    self.is_occupied = is_occupied_backup;\n                    return Err(err);\n                }\n\n                let mut next_quotients"))

# ======================================================================================= C14
M("C14", "second-bucket-ok-false", (CF, "        if self.write_to_bucket(i2, f) {\n            self.n_elements += 1;\n            return Ok(true);", "        if self.write_to_bucket(i2, f) {\n            self.n_elements += 1;\n            return Ok(false);"), "R14-ok-true", "Ok(false)")
M("C14", "kick-success-no-count", (CF, "            if self.write_to_bucket(i, f) {\n                self.n_elements += 1;\n                return Ok(true);", "            if self.write_to_bucket(i, f) {\n                return Ok(true);"), "R14-accounting", "insert_internal:Ok")
M("C14", "double-count-in-helper", (CF, "                self.table.set(x as u64, f);\n                return true;", "                self.table.set(x as u64, f);\n                self.n_elements += 1;\n                return true;"), "R14-accounting", "")
M("C14", "delete-second-bucket-no-decrement", (CF, "        if self.remove_from_bucket(i2, f) {\n            self.n_elements -= 1;\n            return true;", "        if self.remove_from_bucket(i2, f) {\n            return true;"), "R14-accounting", "delete")
M("C14", "remove-all-copies", (CF, "        let offset = i * self.bucketsize;\n        for x in offset..(offset + self.bucketsize) {\n            if self.table.get(x as u64) == f {\n                self.table.set(x as u64, 0);\n                return true;\n            }\n        }\n        false", "        let offset = i * self.bucketsize;\n        let mut found = false;\n        for x in offset..(offset + self.bucketsize) {\n            if self.table.get(x as u64) == f {\n                self.table.set(x as u64, 0);\n                found = true;\n            }\n        }\n        found"), "R14-one-slot", "remove_from_bucket")
M("C14", "has-in-bucket-short-range", (CF, "    fn has_in_bucket(&self, i: usize, f: u64) -> bool {\n        let offset = i * self.bucketsize;\n        for x in offset..(offset + self.bucketsize) {", "    fn has_in_bucket(&self, i: usize, f: u64) -> bool {\n        let offset = i * self.bucketsize;\n        for x in offset..(offset + self.bucketsize - 1) {"), "R14-siblings", "has_in_bucket")
M("C14", "query-only-first-bucket", (CF, "        if self.has_in_bucket(i1, f) {\n            return true;\n        }\n        if self.has_in_bucket(i2, f) {\n            return true;\n        }\n        false", "        let _ = i2;\n        if self.has_in_bucket(i1, f) {\n            return true;\n        }\n        false"), "R14-query", "query")
M("C14", "delete-probes-i1-twice", (CF, "        if self.remove_from_bucket(i2, f) {\n            self.n_elements -= 1;", "        let _ = i2;\n        if self.remove_from_bucket(i1, f) {\n            self.n_elements -= 1;"), "R14-delete-buckets", "delete")
B("C14", "helpers-hoist-end", (CF, "    fn has_in_bucket(&self, i: usize, f: u64) -> bool {\n        let offset = i * self.bucketsize;\n        for x in offset..(offset + self.bucketsize) {", "    fn has_in_bucket(&self, i: usize, f: u64) -> bool {\n        let offset = self.bucketsize * i;\n        let end = self.bucketsize + offset;\n        for x in offset..end {"))
B("C14", "insert-internal-let-result", (CF, "        if self.write_to_bucket(i1, f) {\n            self.n_elements += 1;\n            return Ok(true);\n        }", "        let placed_first = self.write_to_bucket(i1, f);\n        if placed_first {\n            self.n_elements = self.n_elements + 1;\n            return Ok(true);\n        }"))

# ======================================================================================= C19
M("C19", "tdigest-clear-forgets-n-samples", (TD, "        self.centroids.clear();\n        self.n_samples = 0;\n", "        self.centroids.clear();\n"), "R19-clear-covers-state", "TDigestInner:n_samples")
M("C19", "tdigest-clear-forgets-max", (TD, "        self.max = f64::NEG_INFINITY;\n        self.backlog.clear();", "        self.backlog.clear();"), "R19-clear-covers-state", "TDigestInner:max")
M("C19", "tdigest-clear-wrong-min-constant", (TD, "        self.n_samples = 0;\n        self.min = f64::INFINITY;", "        self.n_samples = 0;\n        self.min = f64::MAX;"), "R19-clear-constants", "TDigestInner:min")
M("C19", "reservoir-clear-forgets-skip", (RS, "        self.i = 0;\n        self.skip_until = 0;\n        self.reservoir.clear();", "        self.i = 0;\n        self.reservoir.clear();"), "R19-clear-covers-state", "ReservoirSampling:skip_until")
M("C19", "cmsheap-clear-forgets-sketch", (CH, "        self.cms.clear();\n        self.tree.clear();", "        self.tree.clear();"), "R19-clear-covers-state", "CMSHeap:cms")
M("C19", "lossy-clear-forgets-n", (LC, "        self.known = HashMap::new();\n        self.n = 0;", "        self.known = HashMap::new();"), "R19-clear-covers-state", "LossyCounter:n")
M("C19", "quotient-clear-forgets-shifted", (QF, "        self.is_continuation.clear();\n        self.is_shifted.clear();", "        self.is_continuation.clear();"), "R19-clear-covers-state", "QuotientFilter:is_shifted")
M("C19", "cuckoo-clear-conditional-table", (CF, "        self.n_elements = 0;\n        self.table = IntVector::with_fill(self.table.element_bits(), self.table.len(), 0);", "        if self.n_elements > 1 {\n            self.table = IntVector::with_fill(self.table.element_bits(), self.table.len(), 0);\n        }\n        self.n_elements = 0;"), "R19-clear-covers-state", "CuckooFilter:table")
B("C19", "reservoir-clear-reorder", (RS, "        self.i = 0;\n        self.skip_until = 0;\n        self.reservoir.clear();", "        self.reservoir.clear();\n        self.skip_until = 0;\n        self.i = 0;"))
B("C19", "lossy-clear-via-clear", (LC, "        self.known = HashMap::new();\n        self.n = 0;", "        self.known.clear();\n        self.n = 0;"))
B("C19", "hll-clear-len-local", (HLL, "        self.registers = vec![0; self.registers.len()];", "        let m = self.registers.len();\n        self.registers = vec![0; m];"))

# ======================================================================================= C20
M("C20", "deserialize-no-validation", (SER, "                if !(4..=18).contains(&b) {", "                if false && !(4..=18).contains(&b) {"), "R20-guarded-construction", "visit_map")
M("C20", "deserialize-no-length-check", (SER, "                if registers.len() != (1_usize << b) {", "                if registers.is_empty() {"), "R20-guarded-construction", "visit_map")
M("C20", "deserialize-wider-range", (SER, "                if !(4..=18).contains(&b) {", "                if !(4..=20).contains(&b) {"), "R20-guarded-construction", "visit_map")
M("C20", "deserialize-panics-via-ctor", [(SER, "                if !(4..=18).contains(&b) {", "                if false && !(4..=18).contains(&b) {"), (SER, "                Ok(HyperLogLog {\n                    registers,\n                    b,\n                    buildhasher,\n                    phantom: PhantomData,\n                })", "                Ok(HyperLogLog::with_registers_and_hash(b, registers, buildhasher))")], "R20-guarded-construction", "call-ctor")
M("C20", "serialize-b-under-wrong-key", [(SER, 'state.serialize_field("registers", &self.registers)?;\n        state.serialize_field("b", &self.b)?;', 'state.serialize_field("b", &self.registers)?;\n        state.serialize_field("registers", &self.b)?;')], "R20-field-tables", "serialize:")
M("C20", "deserialize-unwrap-on-input", (SER, '                let b: usize = b.ok_or_else(|| de::Error::missing_field("b"))?;', '                let b: usize = b.unwrap();'), "R20-no-panic-on-input", "visit_map")
B("C20", "deserialize-explicit-comparisons", (SER, "                if !(4..=18).contains(&b) {", "                if b < 4 || b > 18 {"))
B("C20", "deserialize-len-check-flipped", (SER, "                if registers.len() != (1_usize << b) {", "                if (1_usize << b) != registers.len() {"))

# ======================================================================================= C10
M("C10", "belief-assert-eq", (CH, "                    debug_assert!(count >= 1);", "                    debug_assert!(count == 1);"), "R10-no-belief-panic", "estimate")
M("C10", "belief-assert-upper", (CH, "                    debug_assert!(count >= 1);", "                    debug_assert!(count <= 1);"), "R10-no-belief-panic", "estimate")
M("C10", "displace-without-map-remove", (CH, "                        self.obj2count.insert(rc, count);\n                        self.obj2count.remove(&min.obj);", "                        self.obj2count.insert(rc, count);"), "R10-paired", "add")
M("C10", "insert-without-capacity-guard", (CH, "                if size < self.k {", "                if size <= self.k {"), "R10-capacity", "add")
M("C10", "displace-on-ge", (CH, "                    if count > min.n {", "                    if count >= min.n {"), "R10-paired", "add")
M("C10", "tree-count-mismatch", (CH, "                    self.tree.insert(TreeEntry {\n                        obj: Rc::clone(&rc),\n                        n: 1,\n                    });", "                    self.tree.insert(TreeEntry {\n                        obj: Rc::clone(&rc),\n                        n: count,\n                    });"), "R10-paired", "add")
M("C10", "order-by-obj-first", (CH, "        match self.n.cmp(&other.n) {\n            Ordering::Greater => Ordering::Greater,\n            Ordering::Less => Ordering::Less,\n            Ordering::Equal => self.obj.cmp(&other.obj),\n        }", "        match self.obj.cmp(&other.obj) {\n            Ordering::Greater => Ordering::Greater,\n            Ordering::Less => Ordering::Less,\n            Ordering::Equal => self.n.cmp(&other.n),\n        }"), "R10-order", "cmp")
B("C10", "assert-lower-bound-flipped", (CH, "                    debug_assert!(count >= 1);", "                    debug_assert!(1 <= count);"))
B("C10", "no-assert-at-all", (CH, "                    debug_assert!(count >= 1);\n", ""))

# ======================================================================================= C13
M("C13", "present-returns-true", (QF, "        if scan_result.present {\n            return Ok(false);", "        if scan_result.present {\n            return Ok(true);"), "R13-contract", "present")
M("C13", "capacity-check-off-by-one", (QF, "        if self.n_elements == self.is_occupied.len() {", "        if self.n_elements + 1 == self.is_occupied.len() {"), "R13-contract", "partition")
M("C13", "no-count-increment", (QF, "        // done\n        self.n_elements += 1;\n        Ok(true)", "        // done\n        Ok(true)"), "R13-contract", "insert")
M("C13", "query-uses-on-insert-scan", (QF, "        self.scan(quotient, remainder, false).present", "        self.scan(remainder, quotient, false).present"), "R13-wrappers", "query")
M("C13", "chain-writes-remainder-before-reading", (QF, "            let next_remainder = self.remainders.get(position as u64);\n            let next_used = self.is_occupied[position] || self.is_shifted[position];\n\n            self.is_shifted.set(position, true);\n            self.is_continuation.set(position, current_is_continuation);\n            self.remainders.set(position as u64, current_remainder);", "            self.remainders.set(position as u64, current_remainder);\n            let next_remainder = self.remainders.get(position as u64);\n            let next_used = self.is_occupied[position] || self.is_shifted[position];\n\n            self.is_shifted.set(position, true);\n            self.is_continuation.set(position, current_is_continuation);"), "R13-swap-chain", "insert_internal")
M("C13", "chain-used-ignores-shifted", (QF, "            let next_used = self.is_occupied[position] || self.is_shifted[position];", "            let next_used = self.is_occupied[position];"), "R13-swap-chain", "insert_internal")
M("C13", "chain-continuation-not-carried", (QF, "            current_is_continuation = next_is_continuation;\n            current_remainder = next_remainder;", "            current_is_continuation = true;\n            let _ = next_is_continuation;\n            current_remainder = next_remainder;"), "R13-swap-chain", "insert_internal")
M("C13", "incr-wraps-one-late", (QF, "        *pos = if *pos == self.is_occupied.len() - 1 {\n            0", "        *pos = if *pos == self.is_occupied.len() {\n            0"), "R13-ring", "incr")
M("C13", "shifted-flag-unconditional-off", (QF, "        if scan_result.position != quotient {\n            // not at canonical slot\n            self.is_shifted.set(scan_result.position, true);\n        }", "        if scan_result.position > quotient {\n            // not at canonical slot\n            self.is_shifted.set(scan_result.position, true);\n        }"), "R13-placement-flags", "insert_internal")
M("C13", "quotient-one-bit-short", (QF, "        let quotient = fingerprint_clean >> bits_remainder;\n        let remainder = fingerprint_clean - (quotient << bits_remainder);", "        let quotient = fingerprint_clean >> bits_remainder >> 1 << 1;\n        let remainder = fingerprint_clean - ((fingerprint_clean >> bits_remainder) << bits_remainder);"), "R13-split", "calc_quotient_remainder")
B("C13", "chain-reorder-independent-reads", (QF, "            let next_is_continuation = self.is_continuation[position];\n            let next_remainder = self.remainders.get(position as u64);", "            let next_remainder = self.remainders.get(position as u64);\n            let next_is_continuation = self.is_continuation[position];"))
M("C13", "scan-sorted-break-wrong-direction", (QF, "                if r > remainder {\n                    // remainders are sorted within run\n                    break;", "                if r < remainder {\n                    // remainders are sorted within run\n                    break;"), "R13-scan", "scan")
M("C13", "scan-skip-run-on-shifted", (QF, "                self.incr(&mut s);\n                if !self.is_continuation[s] {\n                    break;\n                }\n            }\n\n            // find the next occupied bucket", "                self.incr(&mut s);\n                if !self.is_shifted[s] {\n                    break;\n                }\n            }\n\n            // find the next occupied bucket"), "R13-scan", "scan")
M("C13", "scan-cluster-start-stops-on-occupied", (QF, "        while self.is_shifted[b] {\n            self.decr(&mut b);", "        while self.is_shifted[b] && !self.is_occupied[b] {\n            self.decr(&mut b);"), "R13-scan", "scan")
M("C13", "chain-start-continuation-only-at-canonical", (QF, "            self.is_continuation[scan_result.position] || scan_result.at_start_of_run();", "            self.is_continuation[scan_result.position]\n                || (scan_result.has_run() && scan_result.position == quotient);"), "R13-swap-chain", "insert_internal")
M("C13", "scan-fast-path-also-on-insert", (QF, "        if (!run_exists) && (!on_insert) {", "        if !run_exists {"), "R13-scan-results", "fast-path")
M("C13", "scan-present-reports-run-start", (QF, "                    return ScanResult {\n                        present: true,\n                        position: s,", "                    return ScanResult {\n                        present: true,\n                        position: start_of_run,"), "R13-scan-results", "scan")
B("C13", "scan-sorted-break-ge", (QF, "                if r > remainder {\n                    // remainders are sorted within run\n                    break;", "                if r >= remainder {\n                    // remainders are sorted within run\n                    break;"))
B("C13", "bind-capacity", (QF, "        if self.n_elements == self.is_occupied.len() {", "        let capacity = self.is_occupied.len();\n        if self.n_elements == capacity {"))

# ======================================================================================= C18
M("C18", "push-outside-guard", (RS, "        if self.i < self.k {\n            // initial fill-up\n            self.reservoir.push(obj)", "        if self.i <= self.k {\n            // initial fill-up\n            self.reservoir.push(obj)"), "R18-length", "add")
M("C18", "index-guard-le", (RS, "            if j < self.k {\n                self.reservoir[j] = obj;", "            if j <= self.k {\n                self.reservoir[j] = obj;"), "R18-index-in-range", "add")
M("C18", "gap-slot-from-0-to-i", (RS, "            let j: usize = self.rng.gen_range(0..self.k);\n            self.reservoir[j] = obj;", "            let j: usize = self.rng.gen_range(0..self.i);\n            self.reservoir[j] = obj;"), "R18-index-in-range", "add")
M("C18", "double-increment", (RS, "        self.i += 1;\n    }", "        self.i += 1;\n        if self.i == self.k {\n            self.i += 1;\n        }\n    }"), "R18-length", "add")
M("C18", "is-empty-on-reservoir-k", (RS, "        self.i == 0\n", "        self.i == 0 || self.k == 0\n"), "R18-getters", "is_empty")
B("C18", "bind-k", (RS, "            let j: usize = self.rng.gen_range(0..self.k);\n            self.reservoir[j] = obj;", "            let k = self.k;\n            let j: usize = self.rng.gen_range(0..k);\n            self.reservoir[j] = obj;"))

# ======================================================================================= C06
M("C06", "hll-merge-min", (HLL, ".map(|x| cmp::max(x.0, x.1))", ".map(|x| cmp::min(x.0, x.1))"), "R06-lattice-census", "registers@merge")
M("C06", "hll-add-unconditional-store", (HLL, "        self.registers[j as usize] = cmp::max(m_old, p as u8);", "        let _ = m_old;\n        self.registers[j as usize] = p as u8;"), "R06-lattice-census", "registers@add_hashed")
M("C06", "bloom-union-xor", (BF, "        self.bs = &self.bs | &other.bs;", "        self.bs = &self.bs ^ &other.bs;"), "R06-lattice-census", "bs@union")
M("C06", "cms-merge-without-w-assert", (CMS, "        assert_eq!(\n            self.w, other.w,\n            \"number of columns (w) must be equal (left={}, right={})\",\n            self.w, other.w\n        );\n", ""), "R06-guards", "merge:w")
M("C06", "bloom-union-without-k-assert", (BF, "        assert_eq!(\n            self.k, other.k,\n            \"k must be equal (left={}, right={})\",\n            self.k, other.k\n        );\n", ""), "R06-guards", "union:k")
M("C06", "quotient-union-without-remainder-assert", (QF, "        assert_eq!(\n            self.bits_remainder(),\n            other.bits_remainder(),\n            \"bits_remainder must be equal (left={}, right={})\",\n            self.bits_remainder(),\n            other.bits_remainder()\n        );\n", ""), "R06-guards", "union:remainders")
M("C06", "cuckoo-union-guard-after-first-write", [(CF, "        assert!(\n            self.buildhasher == other.buildhasher,\n            \"buildhasher must be equal\",\n        );\n\n        let mut log: Vec<(usize, u64)> = vec![];", "        let mut log: Vec<(usize, u64)> = vec![];")], "R06-guards", "union:buildhasher")
M("C06", "cuckoo-union-self-hash-wrong-bucket", (CF, "                let i2 = i1 ^ other.hash(&f);", "                let i2 = i1 ^ other.hash(&counter);"), "R06-cuckoo-transfer", "union")
M("C06", "cuckoo-union-bucket-counter-off", (CF, "            if (counter > 0) && (counter % other.bucketsize == 0) {", "            if counter % other.bucketsize == 0 {"), "R06-cuckoo-transfer", "union")
M("C06", "cms-merge-zip-with-self", (CMS, "            .zip(other.table.iter())", "            .zip(self.table.iter())"), "R06-merge-cellwise", "merge")
B("C06", "hll-merge-reorder-asserts", (HLL, "        assert_eq!(\n            self.b, other.b,\n            \"b must be equal (left={}, right={})\",\n            self.b, other.b\n        );\n        assert!(\n            self.buildhasher == other.buildhasher,\n            \"buildhasher must be equal\"\n        );", "        assert!(\n            self.buildhasher == other.buildhasher,\n            \"buildhasher must be equal\"\n        );\n        assert_eq!(\n            self.b, other.b,\n            \"b must be equal (left={}, right={})\",\n            self.b, other.b\n        );"))
B("C06", "hll-merge-max-args-swapped", (HLL, ".map(|x| cmp::max(x.0, x.1))", ".map(|x| cmp::max(x.1, x.0))"))

# ======================================================================================= C17
M("C17", "rank-without-plus-one", (HLL, "        let p = w.leading_zeros() + 1 - (self.b as u32);", "        let p = w.leading_zeros() - (self.b as u32);"), "R17-index-rank", "add_hashed:p")
M("C17", "index-from-high-bits", (HLL, "        let j = hashed_value - (w << self.b);", "        let j = hashed_value >> (64 - self.b);"), "R17-index-rank", "add_hashed:j")
M("C17", "add-hashes-twice", (HLL, "        self.add_hashed(self.buildhasher.hash_one(obj));", "        self.add_hashed(self.buildhasher.hash_one(self.buildhasher.hash_one(obj)));"), "R17-delegation", "add")
M("C17", "ctor-sorts-registers", (HLL, "        Self {\n            registers,\n            b,\n            buildhasher,\n            phantom: PhantomData,\n        }\n    }\n\n    /// Get number of bits used for register selection.", "        let mut registers = registers;\n        registers.reverse();\n        Self {\n            registers,\n            b,\n            buildhasher,\n            phantom: PhantomData,\n        }\n    }\n\n    /// Get number of bits used for register selection."), "R17-roundtrip", "with_registers_and_hash")
B("C17", "index-by-mask", (HLL, "        let j = hashed_value - (w << self.b);", "        let j = hashed_value & ((1u64 << self.b) - 1);"))
B("C17", "rank-reordered", (HLL, "        let p = w.leading_zeros() + 1 - (self.b as u32);", "        let p = 1 + w.leading_zeros() - (self.b as u32);"))

# ======================================================================================= C02
M("C02", "stride-d", (CMS, "            let x = i * self.w + pos;", "            let x = i * self.d + pos;"), "R02-cell-agreement", "add_n")
M("C02", "reader-stride-d", (CMS, "            .map(|(i, pos)| i * self.w + pos)", "            .map(|(i, pos)| i * self.d + pos)"), "R02-cell-agreement", "query_point")
M("C02", "min-becomes-max", (CMS, "                result.min(current.clone())", "                result.max(current.clone())"), "R02-return-min", "add_n")
M("C02", "ctor-swaps-iterator-params", (CMS, "            builder: HashIterBuilder::new(w, d, buildhasher),", "            builder: HashIterBuilder::new(d, w, buildhasher),"), "R02-stride", "with_params_and_hasher")
M("C02", "skip-first-row", (CMS, "        for (i, pos) in self.builder.iter_for(obj).enumerate() {", "        for (i, pos) in self.builder.iter_for(obj).enumerate().skip(1) {"), "R02-cell-agreement", "add_n")
M("C02", "query-max", (CMS, "            .map(|x| self.table[x].clone())\n            .min()", "            .map(|x| self.table[x].clone())\n            .max()"), "R02-cell-agreement", "query_point")
B("C02", "index-commuted", (CMS, "            let x = i * self.w + pos;", "            let x = pos + self.w * i;"))
B("C02", "hoist-w", (CMS, "        for (i, pos) in self.builder.iter_for(obj).enumerate() {\n            let x = i * self.w + pos;", "        let w = self.w;\n        for (i, pos) in self.builder.iter_for(obj).enumerate() {\n            let x = i * w + pos;"))

# ======================================================================================= C01
M("C01", "kick-wrong-hash-variable", (CF, "            f = tmp;\n\n            i ^= self.hash(&f);", "            i ^= self.hash(&f);\n            f = tmp;\n"), "R01-cuckoo-home", "kick-loop")
M("C01", "kick-set-before-get", (CF, "            let tmp = self.table.get(x as u64);\n            log.push((x, tmp));\n            self.table.set(x as u64, f);", "            self.table.set(x as u64, f);\n            let tmp = self.table.get(x as u64);\n            log.push((x, tmp));"), "R01-cuckoo-home", "kick-loop")
M("C01", "kick-slot-outside-bucket", (CF, "            let e: usize = self.rng.gen_range(0..self.bucketsize);\n            let offset = i * self.bucketsize;", "            let e: usize = self.rng.gen_range(0..=self.bucketsize);\n            let offset = i * self.bucketsize;"), "R01-cuckoo-home", "kick-loop")
M("C01", "bloom-query-skips-first", (BF, "        for pos in self.builder.iter_for(obj) {\n            if !self.bs[pos] {", "        for pos in self.builder.iter_for(obj).map(|p| p ^ 1) {\n            if !self.bs[pos] {"), "R01-bloom-same-positions", "query")
M("C01", "bloom-insert-early-break", (BF, "            was_present &= self.bs.put(pos);\n        }", "            was_present &= self.bs.put(pos);\n            if !was_present {\n                break;\n            }\n        }"), "R01-bloom-same-positions", "insert")
M("C01", "hashiter-one-too-many", (HU, "        if self.i < self.builder.k() {", "        if self.i <= self.builder.k() {"), "R01-hashiter-range", "next")
M("C01", "start-second-bucket-plain-hash", (CF, "        let i2 = i1 ^ self.hash(&f);\n        (f, i1, i2)", "        let i2 = self.hash(&f);\n        (f, i1, i2)"), "R01-cuckoo-home", "start")
B("C01", "kick-let-offset-inline", (CF, "            let offset = i * self.bucketsize;\n            let x = offset + e;", "            let x = e + i * self.bucketsize;"))
B("C01", "kick-push-before-get-binding", (CF, "            let tmp = self.table.get(x as u64);\n            log.push((x, tmp));", "            let victim_slot = x as u64;\n            let tmp = self.table.get(victim_slot);\n            log.push((x, tmp));"))

# ======================================================================================= C03
M("C03", "wider-constructor-range", [(HLL, "            (4..=18).contains(&b),", "            (4..=19).contains(&b),"), (SER, "                if !(4..=18).contains(&b) {", "                if !(4..=19).contains(&b) {")], "R03-table-shape", ":rows")
M("C03", "offset-drift", (DATA, "pub(crate) const THRESHOLD_DATA_OFFSET: usize = 4;", "pub(crate) const THRESHOLD_DATA_OFFSET: usize = 3;"), "R03-table-shape", "THRESHOLD_DATA_OFFSET")
M("C03", "count-unwraps-new-site", (HLL, "        let v = bytecount::count(&self.registers, 0);", "        let v = bytecount::count(&self.registers, 0);\n        let _first = *self.registers.iter().max().unwrap();"), "R03-panic-census", "count")
B("C03", "count-bind-threshold", (HLL, "        if h <= (self.threshold() as f64) {", "        let thr = self.threshold() as f64;\n        if h <= thr {"))

# ======================================================================================= C05
M("C05", "accept-range-exclusive", (RS, "            let j: usize = self.rng.gen_range(0..=self.i);", "            let j: usize = self.rng.gen_range(0..self.i);"), "R05-accept-range", "add")
M("C05", "accept-le", (RS, "            if j < self.k {\n                self.reservoir[j] = obj;", "            if j <= self.k && j < self.reservoir.len() {\n                self.reservoir[j] = obj;"), "R05-accept-range", "add")
M("C05", "gap-p-without-plus-one", (RS, "            let p = (self.k as f64) / ((self.i + 1) as f64);", "            let p = (self.k as f64) / (self.i as f64);"), "R05-gap-term", "gap-draw")
M("C05", "gap-u-half-open-wrong-side", (RS, "            let u = 1f64 - self.rng.gen_range((0.)..1.); // (0.0, 1.0]", "            let u: f64 = self.rng.gen_range((0.)..1.); // [0.0, 1.0)"), "R05-gap-term", "gap-draw")
M("C05", "gap-offset-two", (RS, "            self.skip_until = self.i + g;", "            self.skip_until = self.i + 2 + g;"), "R05-gap-term", "skip_until=i+2+g")
M("C05", "phase-threshold-swapped", (RS, "        } else if self.i < t {", "        } else if self.i > t {"), "R05-phases", "add")
M("C05", "gap-u-inclusive-range", (RS, "            let u = 1f64 - self.rng.gen_range((0.)..1.); // (0.0, 1.0]", "            let u = 1f64 - self.rng.gen_range((0.)..=1.); // [0.0, 1.0]"), "R05-gap-term", "gap-draw")
M("C18", "gap-u-inclusive-range-overflow", (RS, "            let u = 1f64 - self.rng.gen_range((0.)..1.); // (0.0, 1.0]", "            let u = 1f64 - self.rng.gen_range((0.)..=1.); // [0.0, 1.0]"), "R18-no-panic", "gen_range")
M("C03", "threshold-extra-zero", (DATA, "    6500,", "    65000,"), "R03-threshold-window", "THRESHOLD_DATA_VEC")
M("C10", "occupied-counter-jumps", (CH, "                *n += 1;\n", "                *n = (*n + 1).max(count);\n"), "R10-paired", "add")
B("C05", "accept-range-plus-one", (RS, "            let j: usize = self.rng.gen_range(0..=self.i);", "            let n = self.i + 1;\n            let j: usize = self.rng.gen_range(0..n);"))

# ======================================================================================= C07
M("C07", "bloom-unclamped-k", (BF, "        let k = ((-p.log2()) as usize).max(1);", "        let k = (-p.log2()) as usize;"), "R07-sizing-intervals", ":k")
M("C07", "bloom-unclamped-m", (BF, "        let m = ((-((n as f64) * p.ln()) / (ln2 * ln2)) as usize).max(1);", "        let m = (-((n as f64) * p.ln()) / (ln2 * ln2)) as usize;"), "R07-sizing-intervals", ":m")
M("C07", "cuckoo-no-ceil-buckets", (CF, "        let n_buckets = ((costs * (expected_elements as f64) / (l_fingerprint as f64)).ceil()\n            as usize)\n            .next_power_of_two();", "        let n_buckets = ((costs * (expected_elements as f64) / (l_fingerprint as f64)).floor()\n            as usize)\n            .next_power_of_two();"), "R07-sizing-intervals", "n_buckets")
M("C07", "cuckoo-no-power-of-two", (CF, "            as usize)\n            .next_power_of_two();", "            as usize)\n            .max(2);"), "R07-sizing-intervals", "n_buckets")
M("C07", "fingerprint-can-be-zero", (CF, "        1 + (hasher.finish() % x_mod)", "        hasher.finish() % (x_mod.wrapping_add(1)).max(1)"), "R07-fingerprint-nonzero", "fingerprint")
B("C07", "bloom-ceil-k", (BF, "        let k = ((-p.log2()) as usize).max(1);", "        let k = ((-p.log2()).ceil() as usize).max(1);"))
B("C07", "bloom-ln2-const", (BF, "        let ln2 = (2f64).ln();", "        let ln2 = std::f64::consts::LN_2;"))

# ======================================================================================= C08
M("C08", "swap-eps-delta", (CMS, "        let w = (f64::consts::E / epsilon).ceil() as usize;\n        let d = (1. / delta).ln().ceil() as usize;", "        let w = (f64::consts::E / delta).ceil() as usize;\n        let d = (1. / epsilon).ln().ceil() as usize;"), "R08-dependency", ":w")
M("C08", "floor-columns", (CMS, "        let w = (f64::consts::E / epsilon).ceil() as usize;", "        let w = (f64::consts::E / epsilon).floor() as usize;"), "R08-formula", ":w")
M("C08", "two-over-eps", (CMS, "        let w = (f64::consts::E / epsilon).ceil() as usize;", "        let w = (2.0 / epsilon).ceil() as usize;"), "R08-formula", ":w")
B("C08", "neg-ln-delta", (CMS, "        let d = (1. / delta).ln().ceil() as usize;", "        let d = (-delta.ln()).ceil() as usize;"))

# ======================================================================================= C09
M("C09", "prune-ge", (LC, ".filter(|(_k, v)| v.f + v.delta > b_current)", ".filter(|(_k, v)| v.f + v.delta >= b_current)"), "R09-prune", "add")
M("C09", "delta-b-current", (LC, "                    delta: b_current - 1,", "                    delta: b_current,"), "R09-new-entry", "add")
M("C09", "bound-floor", (LC, "let bound = (((threshold - self.epsilon) * (self.n as f64)).ceil()).max(0.) as usize;", "let bound = (((threshold - self.epsilon) * (self.n as f64)).floor()).max(0.) as usize;"), "R09-query", "query")
M("C09", "n-incremented-late", [(LC, "        // pre-inc, since \"N denotes the current length of the stream\"\n        self.n += 1;\n\n", ""), (LC, "        // pruning\n        if at_window_end {", "        self.n += 1;\n        // pruning\n        if at_window_end {")], "R09-n", "add")
M("C09", "bucket-floor", (LC, "        let b_current = self.n / self.width + if at_window_end { 0 } else { 1 };", "        let b_current = self.n / self.width + if at_window_end { 1 } else { 0 };"), "R09-bucket", "add")
M("C09", "occupied-returns-true", (LC, "                value.f += 1;\n                false", "                value.f += 1;\n                true"), "R09-new-entry", "add")
B("C09", "bucket-div-ceil-form", (LC, "        let b_current = self.n / self.width + if at_window_end { 0 } else { 1 };", "        let b_current = (self.n + self.width - 1) / self.width;"))

# ======================================================================================= C11
M("C11", "blocks-swapped-widths", (HP, "        let blocks = bits / block_bits;\n        let res = bits % block_bits;", "        let blocks = bits * block_bits / element_bits / element_bits;\n        let res = bits % block_bits;"), "R11-dimension", "all_zero_intvector")
M("C11", "cms-table-w-squared", (CMS, "        let table = vec![C::zero(); w.checked_mul(d).unwrap()];", "        let table = vec![C::zero(); w.checked_mul(d).unwrap().max(w.saturating_mul(w).min(1 << 20))];"), "R11-alloc-terms", "with_params_and_hasher:table")
M("C11", "hll-double-registers", (HLL, "        let m = 1_usize << b;\n        let registers = vec![0; m];", "        let m = 1_usize << b;\n        let mut registers = Vec::with_capacity(m * 2);\n        registers.resize(m, 0);"), "R11-alloc-terms", "with_hash:registers")
M("C11", "tdigest-backlog-check-removed", (TD, "        if self.backlog.len() > self.max_backlog_size {\n            self.merge();\n        }", "        if self.backlog.len() > self.max_backlog_size && self.n_samples % 2 == 0 {\n            self.merge();\n        }"), "R11-growth-census", "backlog.push")
M("C11", "cuckoo-args-swapped", (CF, "            table: all_zero_intvector(l_fingerprint, table_size),", "            table: all_zero_intvector(table_size, l_fingerprint),"), "R11-dimension", "call-site")
B("C11", "blocks-div-ceil", (HP, "        let blocks = bits / block_bits;\n        let res = bits % block_bits;\n        if res != 0 {\n            blocks + 1\n        } else {\n            blocks\n        }", "        (bits + block_bits - 1) / block_bits"))

# ======================================================================================= C15
M("C15", "right-tail-span", (TD, "        let delta = 0.5 * c_last.count;\n        let t = (limit - cum) / delta;\n        Self::interpolate(c_last.mean(), self.max, t)", "        let delta = s - 0.5 * c_last.count;\n        let t = (limit - cum) / delta;\n        Self::interpolate(c_last.mean(), self.max, t)"), "R15-knots", "right:span")
M("C15", "left-tail-span-full-weight", (TD, "            let t = limit / (0.5 * c_first.count);", "            let t = limit / c_first.count;"), "R15-knots", "left:span")
M("C15", "interior-offset-no-half", (TD, "                cum -= 0.5 * c_last.count;\n                let delta = 0.5 * (c_last.count + c.count);", "                cum -= c_last.count;\n                let delta = 0.5 * (c_last.count + c.count);"), "R15-knots", "interior:offset")
M("C15", "cdf-last-mean-not-updated", (TD, "            cum += c.count;\n            last_mean = c.mean();\n        }", "            cum += c.count;\n        }"), "R15-knots", "cdf")
M("C15", "count-without-merge", (TD, "    pub fn count(&self) -> f64 {\n        // apply compression if required\n        self.inner.borrow_mut().merge();\n", "    pub fn count(&self) -> f64 {\n"), "R15-merge-before-read", "TDigest::count")
B("C15", "span-div-two", (TD, "        let delta = 0.5 * c_last.count;\n        let t = (limit - cum) / delta;\n        Self::interpolate(c_last.mean(), self.max, t)", "        let delta = c_last.count / 2.;\n        let t = (limit - cum) / delta;\n        Self::interpolate(c_last.mean(), self.max, t)"))

# ======================================================================================= C16
M("C16", "fuse-drops-sum", (TD, "            sum: self.sum + other.sum,", "            sum: self.sum,"), "R16-fuse", "fuse")
M("C16", "merge-forgets-final-push", (TD, "        result.push(current);\n\n        self.centroids = result;", "        self.centroids = result;"), "R16-conservation", "merge")
M("C16", "merge-drains-from-two", (TD, "        for next in x.drain(1..) {", "        for next in x.drain(2..) {"), "R16-conservation", "merge")
M("C16", "insert-sum-without-weight", (TD, "            sum: x * w,", "            sum: x,"), "R16-insert", "insert_weighted")
M("C16", "zero-weight-not-skipped", (TD, "        if w == 0. {\n            return;\n        }\n", ""), "R16-insert", "TDigest::insert_weighted")
M("C16", "min-folded-with-max", (TD, "        self.min = self.min.min(x);", "        self.min = self.min.max(x);"), "R16-insert", "insert_weighted")
B("C16", "fuse-commuted", (TD, "            count: self.count + other.count,\n            sum: self.sum + other.sum,", "            count: other.count + self.count,\n            sum: other.sum + self.sum,"))

# ======================================================================================= more behaviour-preserving edits
B("C15", "interior-span-div-two", (TD, "                let delta = 0.5 * (c_last.count + c.count);", "                let delta = (c_last.count + c.count) / 2.;"))
B("C15", "left-tail-hoist-half", (TD, "            let t = limit / (0.5 * c_first.count);", "            let half = c_first.count * 0.5;\n            let t = limit / half;"))
B("C15", "cdf-hoist-mean", (TD, "            if x < c.mean() {\n                let delta = c.mean() - last_mean;", "            let m = c.mean();\n            if x < m {\n                let delta = m - last_mean;"))
B("C09", "prune-with-retain", (LC, "            self.known = self\n                .known\n                .drain()\n                .filter(|(_k, v)| v.f + v.delta > b_current)\n                .collect();", "            self.known.retain(|_k, v| v.f + v.delta > b_current);"))
B("C12", "cuckoo-insert-if-let-err", (CF, "        if result.is_err() {\n            self.restore_state(&log);\n        }\n        result", "        if let Err(e) = result {\n            self.restore_state(&log);\n            return Err(e);\n        }\n        result"))
B("C20", "deserialize-validate-through-helper", [(SER, "                if !(4..=18).contains(&b) {", "                if !valid_b(b) {"), (SER, "        const FIELDS: &[&str] = &[\"registers\", \"b\", \"buildhasher\"];", "        fn valid_b(b: usize) -> bool {\n            (4..=18).contains(&b)\n        }\n        const FIELDS: &[&str] = &[\"registers\", \"b\", \"buildhasher\"];")])
B("C17", "index-by-rem", (HLL, "        let j = hashed_value - (w << self.b);", "        let j = hashed_value % (1u64 << self.b);"))
B("C14", "delete-or-combination", (CF, "        if self.remove_from_bucket(i1, f) {\n            self.n_elements -= 1;\n            return true;\n        }\n        if self.remove_from_bucket(i2, f) {\n            self.n_elements -= 1;\n            return true;\n        }\n        false", "        if self.remove_from_bucket(i1, f) || self.remove_from_bucket(i2, f) {\n            self.n_elements -= 1;\n            return true;\n        }\n        false"))
B("C18", "fill-guard-on-len", (RS, "        if self.i < self.k {\n            // initial fill-up", "        if self.reservoir.len() < self.k {\n            // initial fill-up"))
B("C05", "gap-in-helper-method", [(RS, "            // calculate next skip\n            let p = (self.k as f64) / ((self.i + 1) as f64);\n            let u = 1f64 - self.rng.gen_range((0.)..1.); // (0.0, 1.0]\n            let g = (u.ln() / (1. - p).ln()).floor() as usize;\n            self.skip_until = self.i + g;", "            // calculate next skip\n            let g = self.draw_gap();\n            self.skip_until = self.i + g;"),
                                    (RS, "    /// Checks if reservoir is empty (i.e. no data points where observed)", "    fn draw_gap(&mut self) -> usize {\n        let p = (self.k as f64) / ((self.i + 1) as f64);\n        let u = 1f64 - self.rng.gen_range((0.)..1.); // (0.0, 1.0]\n        (u.ln() / (1. - p).ln()).floor() as usize\n    }\n\n    /// Checks if reservoir is empty (i.e. no data points where observed)")])
B("C10", "vacant-branch-let-else", (CH, "                    let min: TreeEntry<T> = (*self.tree.iter().next().unwrap()).clone();", "                    let first = self.tree.iter().next().unwrap();\n                    let min: TreeEntry<T> = first.clone();"))
B("C16", "merge-while-let", (TD, "        for next in x.drain(1..) {", "        let mut rest = x.drain(1..);\n        while let Some(next) = rest.next() {"))
B("C02", "add-n-match-seed", (CMS, "            result = if i == 0 {\n                current.clone()\n            } else {\n                result.min(current.clone())\n            };", "            result = match i {\n                0 => current.clone(),\n                _ => result.min(current.clone()),\n            };"))
B("C06", "bloom-union-bitor-assign-form", (BF, "        self.bs = &self.bs | &other.bs;", "        let merged = &self.bs | &other.bs;\n        self.bs = merged;"))
B("C13", "incr-via-match", (QF, "        *pos = if *pos == self.is_occupied.len() - 1 {\n            0\n        } else {\n            *pos + 1\n        }", "        let last = self.is_occupied.len() - 1;\n        if *pos == last {\n            *pos = 0;\n        } else {\n            *pos += 1;\n        }"))
B("C19", "tdigest-clear-reassign-vectors", (TD, "        self.centroids.clear();\n        self.n_samples = 0;", "        self.centroids = vec![];\n        self.n_samples = 0;"))
B("C11", "quotient-len-shift-hoisted", (QF, "        let len = 1 << bits_quotient;", "        let one: usize = 1;\n        let len = one << bits_quotient;"))
B("C07", "cuckoo-sizing-reordered", (CF, "        let costs = (l_fingerprint as f64) / load_factor;\n        let n_buckets = ((costs * (expected_elements as f64) / (l_fingerprint as f64)).ceil()", "        let bits = l_fingerprint as f64;\n        let costs = bits / load_factor;\n        let n_buckets = (((expected_elements as f64) * costs / bits).ceil()"))
B("C08", "e-over-eps-let", (CMS, "        let w = (f64::consts::E / epsilon).ceil() as usize;", "        let cols = f64::consts::E / epsilon;\n        let w = cols.ceil() as usize;"))
B("C01", "bloom-query-all", (BF, "        for pos in self.builder.iter_for(obj) {\n            if !self.bs[pos] {\n                return false;\n            }\n        }\n        true", "        let mut it = self.builder.iter_for(obj);\n        while let Some(pos) = it.next() {\n            if !self.bs[pos] {\n                return false;\n            }\n        }\n        true"))
B("C03", "estimate-bias-let-offset", (HLL, "        let lookup_array = RAW_ESTIMATE_DATA_VEC[self.b - RAW_ESTIMATE_DATA_OFFSET];", "        let row = self.b - RAW_ESTIMATE_DATA_OFFSET;\n        let lookup_array = RAW_ESTIMATE_DATA_VEC[row];"))

# ======================================================================================= C04
M("C04", "k-step-two", (TD, "                q_limit = self.scale_function.f_inv(\n                    self.scale_function.f(q_0, self.n_samples) + 1.,", "                q_limit = self.scale_function.f_inv(\n                    self.scale_function.f(q_0, self.n_samples) + 2.,"), "R04-merge-criterion", "merge")

M("C04", "fuse-criterion-without-next", (TD, "            let q = q_0 + (current.count + next.count) / s;", "            let q = q_0 + current.count / s;"), "R04-merge-criterion", "merge")
M("C04", "q0-advanced-by-next", (TD, "                q_0 += current.count / s;", "                q_0 += next.count / s;"), "R04-merge-criterion", "merge")
M("C04", "sort-descending", (TD, "        x.sort_by(|t1, t2| t1.0.partial_cmp(&t2.0).unwrap());", "        x.sort_by(|t1, t2| t2.0.partial_cmp(&t1.0).unwrap());"), "R04-sorted-input", "merge")
M("C04", "sort-key-sum", (TD, "            .map(|c| (c.mean(), c))", "            .map(|c| (c.sum, c))"), "R04-sorted-input", "merge")
M("C04", "k1-no-clamp", (TD, "    fn f(&self, q: f64, _n: usize) -> f64 {\n        let q = q.min(1.).max(0.);\n        self.delta / (2. * f64::consts::PI) * (2. * q - 1.).asin()", "    fn f(&self, q: f64, _n: usize) -> f64 {\n        self.delta / (2. * f64::consts::PI) * (2. * q - 1.).asin()"), "R04-scale-clamp", "K1")
M("C04", "backlog-merge-on-ge", (TD, "        if self.backlog.len() > self.max_backlog_size {\n            self.merge();", "        if self.backlog.len() > self.max_backlog_size + 1 {\n            self.merge();"), "R04-backlog-policy", "insert_weighted")
M("C04", "n-samples-wrong-source", (TD, "                q_limit = self.scale_function.f_inv(\n                    self.scale_function.f(q_0, self.n_samples) + 1.,\n                    self.n_samples,", "                q_limit = self.scale_function.f_inv(\n                    self.scale_function.f(q_0, self.n_samples) + 1.,\n                    self.centroids.len(),"), "R04-merge-criterion", "merge")
B("C04", "limit-helper", [(TD, "        let mut q_limit = self.scale_function.f_inv(\n            self.scale_function.f(q_0, self.n_samples) + 1.,\n            self.n_samples,\n        );", "        let mut q_limit = self.limit_after(q_0);"),
                          (TD, "                q_limit = self.scale_function.f_inv(\n                    self.scale_function.f(q_0, self.n_samples) + 1.,\n                    self.n_samples,\n                );", "                q_limit = self.limit_after(q_0);"),
                          (TD, "    #[inline(always)]\n    fn interpolate(", "    fn limit_after(&self, q_0: f64) -> f64 {\n        self.scale_function.f_inv(\n            self.scale_function.f(q_0, self.n_samples) + 1.,\n            self.n_samples,\n        )\n    }\n\n    #[inline(always)]\n    fn interpolate(")])
B("C04", "criterion-flipped", (TD, "            if q <= q_limit {\n                current = current.fuse(&next);\n            } else {", "            if q_limit >= q {\n                current = current.fuse(&next);\n            } else {"))

# ======================================================================================= mutants of refactored variants
# (benign/B8..B14 are independent behaviour-preserving refactorings; the recognisers that were generalised to accept them must
#  still tell a broken variant from a correct one)
LCF = "src/topk/lossycounter.rs"
HLLS = "src/hyperloglog/serde.rs"
HU = "src/hash_utils.rs"
M("C14", "v8-find-range-short", (CF, "(offset..(offset + self.bucketsize)).find(", "(offset..(offset + self.bucketsize - 1)).find("), "R14-siblings", "", base="benign/B8/patch.diff")
M("C14", "v8-remove-matches-free-slot", (CF, "        match self.find_in_bucket(i, f) {\n            Some(x) => {\n                self.table.set(x as u64, 0);", "        match self.find_in_bucket(i, 0) {\n            Some(x) => {\n                self.table.set(x as u64, 0);"), "R14-siblings", "remove_from_bucket", base="benign/B8/patch.diff")
M("C06", "v8-union-bucket-by-modulo", (CF, "let i1 = counter / other.bucketsize;", "let i1 = counter % other.bucketsize;"), "R06-cuckoo-transfer", "union", base="benign/B8/patch.diff")
M("C13", "v9-present-always-true", (QF, "present = r == remainder;", "present = true;"), "R13-scan-results", "scan", base="benign/B9/patch.diff")
M("C13", "v9-no-equality-stop", (QF, "if r >= remainder {", "if r > remainder {"), "R13-scan", "scan", base="benign/B9/patch.diff")
M("C06", "v10-merge-keeps-own-cell", (CMS, "merged.push(mine.checked_add(theirs).unwrap());", "merged.push(mine.checked_add(&C::zero()).unwrap());"), "R06-merge-cellwise", "merge", base="benign/B10/patch.diff")
M("C08", "v10-setup-f-skips-first", (HU, "        for i in 0..k {", "        for i in 1..k {"), "R08-double-hashing", "setup_f", base="benign/B10/patch.diff")
M("C17", "v11-merge-min", (HLL, "*mine = cmp::max(*mine, theirs);", "*mine = cmp::min(*mine, theirs);"), "R17-max-only", "merge", base="benign/B11/patch.diff")
M("C17", "v11-clear-fill-one", (HLL, "self.registers.fill(0);", "self.registers.fill(1);"), "R17-max-only", "clear", base="benign/B11/patch.diff")
M("C20", "v11-len-check-one-sided", (HLLS, "if m != len {", "if m < len {"), "R20-guarded-construction", "visit_map", base="benign/B11/patch.diff")
M("C15", "v12-cum-starts-at-zero", (TD, "let mut cum = c_first.count;", "let mut cum = 0.;"), "R15-knots", "quantile", base="benign/B12/patch.diff")
M("C16", "v12-skip-two", (TD, "for next in x.into_iter().skip(1) {", "for next in x.into_iter().skip(2) {"), "R16-conservation", "merge", base="benign/B12/patch.diff")
M("C15", "v12-cdf-offset-from-rank", (TD, "let t = (x - lo.0) / delta;", "let t = (x - lo.1) / delta;"), "R15-knots", "cdf", base="benign/B12/patch.diff")
M("C09", "v13-occupied-adds-two", (LCF, ".and_modify(|value| value.f += 1)", ".and_modify(|value| value.f += 2)"), "R09-new-entry", "add", base="benign/B13/patch.diff")
M("C09", "v13-prune-keeps-boundary", (LCF, "if b_current < v.f + v.delta {", "if b_current <= v.f + v.delta {"), "R09-prune", "add", base="benign/B13/patch.diff")
M("C09", "v13-query-strict", (LCF, "if v.f >= bound {", "if v.f > bound {"), "R09-query", "query", base="benign/B13/patch.diff")
M("C09", "v13-flag-set-on-known-key", [(LCF, ".and_modify(|value| value.f += 1)", ".and_modify(|value| {\n                value.f += 1;\n                was_new = true;\n            })"), (LCF, "                was_new = true;\n                KnownEntry {", "                KnownEntry {")], "R09-new-entry", "add", base="benign/B13/patch.diff")
M("C01", "v14-insert-short-circuits", (BF, ".fold(true, |acc, pos| acc & bs.put(pos));", ".fold(true, |acc, pos| acc && bs.put(pos));"), "R01-bloom-same-positions", "insert", base="benign/B14/patch.diff")
M("C10", "v14-removes-new-count", (CH, "                    n: old,\n", "                    n: old + 1,\n"), "R10-paired", "add", base="benign/B14/patch.diff")

# ======================================================================================= scale-function algebra (C04), bias table (C03)
M("C04", "k2-normaliser-constant", (TD, "        self.delta / (4. * ((n as f64) / self.delta).ln() + 24.)", "        self.delta / (4. * ((n as f64) / self.delta).ln() + 21.)"), "R04-scale-width", "K2")
M("C04", "k1-slope-doubled", (TD, "        self.delta / (2. * f64::consts::PI) * (2. * q - 1.).asin()", "        self.delta / f64::consts::PI * (2. * q - 1.).asin()"), "R04-scale-width", "K1")
M("C04", "k0-slope", (TD, "        self.delta / 2. * q", "        self.delta / 4. * q"), "R04-scale-width", "K0")
M("C04", "k2-inverse-off", (TD, "            z / (z + 1.)", "            z / (z + 2.)"), "R04-scale-inverse", "K2")
M("C04", "k3-inverse-upper-branch", (TD, "                1. - (-k / x).exp() / 2.", "                1. - (-k / x).exp()"), "R04-scale-inverse", "K3")
M("C04", "k1-inverse-missing-factor", (TD, "        ((k * 2. * f64::consts::PI / self.delta).sin() + 1.) / 2.", "        ((k * f64::consts::PI / self.delta).sin() + 1.) / 2."), "R04-scale-inverse", "K1")
B("C04", "k2-log-of-quotient-split", (TD, "        self.x(n) * (q / (1. - q)).ln()", "        self.x(n) * (q.ln() - (1. - q).ln())"))
B("C04", "k3-normaliser-log-split", (TD, "        self.delta / (4. * ((n as f64) / self.delta).ln() + 21.)", "        self.delta / (4. * ((n as f64).ln() - self.delta.ln()) + 21.)"))
B("C04", "k1-two-pi-hoisted", (TD, "        self.delta / (2. * f64::consts::PI) * (2. * q - 1.).asin()", "        let two_pi = 2. * f64::consts::PI;\n        (2. * q - 1.).asin() * self.delta / two_pi"))
M("C03", "bias-entry-digit-dropped", ("src/hyperloglog/data.rs", "30093.78", "3093.78"), "R03-bias-outlier", "BIAS_DATA_VEC")

# ======================================================================================= round 5 additions
_anchor = "            m,\n            len\n        );\n"
M("C17", "ctor-rejects-top-rank", (HLL, _anchor, _anchor + "        assert!(registers.iter().all(|&r| (r as usize) <= 64 - b), \"register value out of range\");\n"), "R17-ctor-admits", "with_registers_and_hash")
M("C17", "ctor-rejects-top-rank-strict", (HLL, _anchor, _anchor + "        assert!(registers.iter().all(|&r| (r as usize) < 65 - b), \"register value out of range\");\n"), "R17-ctor-admits", "with_registers_and_hash")
B("C17", "ctor-validates-ranks-correctly", (HLL, _anchor, _anchor + "        assert!(registers.iter().all(|&r| (r as usize) <= 64 - b + 1), \"register value out of range\");\n"))
M("C03", "neighbour-right-bound-off-by-one", (HLL, "                idx_right = if idx < lookup_array.len() - 1 {", "                idx_right = if idx < lookup_array.len() {"), "R03-neighbour-bounds", "estimate_bias")
M("C03", "neighbour-left-unguarded", (HLL, "                idx_left = if idx > 0 { Some(idx - 1) } else { None };", "                idx_left = if idx > 1 { Some(idx - 1) } else if idx == 1 { Some(0) } else { Some(idx.wrapping_sub(1)) };"), "R03-neighbour-bounds", "estimate_bias")
M("C06", "quotient-union-else-if", (QF, "                    }\n                    if !other.is_continuation[j] {", "                    } else if !other.is_continuation[j] {"), "R06-quotient-fifo", "independent-tests")
M("C14", "kick-offset-hoisted", [(CF, "        for _ in 0..MAX_NUM_KICKS {\n", "        let offset = i * self.bucketsize;\n        for _ in 0..MAX_NUM_KICKS {\n"), (CF, "            let offset = i * self.bucketsize;\n            let x = offset + e;", "            let x = offset + e;")], "R01-cuckoo-home", "kick-loop")

# ======================================================================================= round 7 additions
M("C06", "cuckoo-union-skips-present", (CF, "                let i2 = i1 ^ other.hash(&f);\n                if let Err(err) = self.insert_internal(f, i1, i2, &mut log) {", "                let i2 = i1 ^ other.hash(&f);\n                if self.has_in_bucket(i1, f) && !self.has_in_bucket(i2, 0) {\n                    continue;\n                }\n                if let Err(err) = self.insert_internal(f, i1, i2, &mut log) {"), "R06-cuckoo-transfer", "union")
M("C07", "bloom-len-clamped", (BF, "        (-m / k * (1. - x / m).ln()) as usize", "        (-m / k * (1. - x / m).ln()).min(x) as usize"), "R07-len-estimator", "len")
M("C07", "bloom-len-without-k", (BF, "        (-m / k * (1. - x / m).ln()) as usize", "        (-m * (1. - x / m).ln()) as usize"), "R07-len-estimator", "len")
B("C07", "bloom-len-reassociated", (BF, "        (-m / k * (1. - x / m).ln()) as usize", "        let fill = x / m;\n        (-(m * (1. - fill).ln()) / k) as usize"))

# ======================================================================================= rounds 8/9 additions (helpers dissolved or re-signed)
M("C13", "v43-next-slot-wraps-late", (QF, "    if pos + 1 == len {\n        0", "    if pos == len {\n        0"), "R13-scan", "scan", base="benign/B43/patch.diff")
M("C13", "v43-prev-slot-wraps-to-len", (QF, "        0 => len - 1,\n        _ => pos - 1,", "        0 => len,\n        _ => pos - 1,"), "R13-scan", "scan", base="benign/B43/patch.diff")
M("C13", "v43-tuple-position-is-quotient", (QF, "                return (true, s, Some(start_of_run));", "                return (true, quotient, Some(start_of_run));"), "R13-scan-results", "scan", base="benign/B43/patch.diff")
M("C13", "v43-at-start-compares-quotient", (QF, "let at_start_of_run = start_of_run == Some(start);", "let at_start_of_run = start_of_run == Some(quotient);"), "R13-swap-chain", "insert_internal", base="benign/B43/patch.diff")
M("C12", "v43-union-no-rollback-on-err", (QF, "        if result.is_err() {\n            // roll back to the state before the union\n            self.is_occupied = is_occupied_backup;", "        if result.is_ok() {\n            // roll back to the state before the union\n            self.is_occupied = is_occupied_backup;"), "R12-restore", "union", base="benign/B43/patch.diff")
M("C12", "v44-replay-oldest-first", (CF, "            while let Some((pos, data)) = log.pop() {\n                self.table.set(pos as u64, data);\n            }", "            while !log.is_empty() {\n                let (pos, data) = log.remove(0);\n                self.table.set(pos as u64, data);\n            }"), "R12-replay-helper", "insert", base="benign/B44/patch.diff")
M("C12", "v44-replay-skips-free-slots", (CF, "            while let Some((pos, data)) = log.pop() {\n                self.table.set(pos as u64, data);\n            }", "            while let Some((pos, data)) = log.pop() {\n                if data != 0 {\n                    self.table.set(pos as u64, data);\n                }\n            }"), "R12-replay-helper", "insert", base="benign/B44/patch.diff")
M("C01", "v44-alternate-bucket-of-other-fingerprint", (CF, "        let i2 = i1 ^ self.hash(&f);\n        (f, i1, i2)", "        let i2 = i1 ^ self.hash(&(f + 1));\n        (f, i1, i2)"), "R01-cuckoo-home", "start", base="benign/B44/patch.diff")
M("C07", "v44-inline-fingerprint-can-be-zero", (CF, "        let f = 1 + (hasher.finish() % x_mod);", "        let f = hasher.finish() % (x_mod + 1);"), "R07-fingerprint-nonzero", "start", base="benign/B44/patch.diff")
M("C16", "v46-inline-fuse-mixes-fields", (TD, "                    sum: current.sum + next.sum,", "                    sum: current.sum + next.count,"), "R16-conservation", "merge", base="benign/B46/patch.diff")
M("C08", "v48-closure-h-same-iv", (HU, "        let h2 = h_i(1) % m;", "        let h2 = h_i(0) % m;"), "R08-double-hashing", "iter_for", base="benign/B48/patch.diff")
M("C07", "v48-closure-h-iv-after-object", (HU, "            hasher.write_usize(i);\n            obj.hash(&mut hasher);\n            hasher.finish()", "            obj.hash(&mut hasher);\n            hasher.finish() ^ (i as u64)"), "R07-double-hashing", "iter_for", base="benign/B48/patch.diff")
M("C11", "lossy-prune-skipped-for-known", (LC, "                value.f += 1;\n                false\n            }", "                value.f += 1;\n                return false;\n            }"), "R09-prune", "add")
M("C03", "v39-cursor-assert-too-strong", (HLL, "            debug_assert!(idx <= idx_last);", "            debug_assert!(idx < idx_last);"), "R03-panic-census", "", base="benign/B39/patch.diff")

# ======================================================================================= round 10 additions
M("C06", "bloom-union-compares-word-count", (BF, "            self.bs.len(),\n            other.bs.len(),\n            \"m must be equal", "            self.bs.as_slice().len(),\n            other.bs.as_slice().len(),\n            \"m must be equal"), "R06-guards", "union")
M("C06", "bloom-union-compares-popcount", (BF, "            self.bs.len(),\n            other.bs.len(),\n            \"m must be equal", "            self.bs.count_ones(..) > 0,\n            other.bs.count_ones(..) > 0,\n            \"m must be equal"), "R06-guards", "union")
M("C01", "quotient-clear-keeps-continuation", (QF, "        self.is_continuation.clear();\n", ""), "R19-clear-covers-state", "is_continuation")
M("C01", "cuckoo-clear-keeps-table", (CF, "        self.table = IntVector::with_fill(self.table.element_bits(), self.table.len(), 0);\n", ""), "R19-clear-covers-state", "table")
M("C13", "v49-then-inverted", (QF, "        let trash = (bits_trash > 0)\n            .then(|| {", "        let trash = (bits_trash == 0)\n            .then(|| {"), "R13-split", "no-trash", base="benign/B49/patch.diff")
M("C03", "v51-then-some-off-by-one", (HLL, "idx_right = (next < lookup_array.len()).then_some(next);", "idx_right = (next <= lookup_array.len()).then_some(next);"), "R03-neighbour-bounds", "idx_right", base="benign/B51/patch.diff")
M("C07", "v50-map-or-mask-one-too-wide", (CF, "            .map_or(u64::MAX, |pow| pow - 1);", "            .map_or(u64::MAX, |pow| pow);"), "R07-fingerprint-nonzero", "fingerprint", base="benign/B50/patch.diff")
M("C09", "v53-filter-map-then-strict", (LC, "(entry.f >= min_freq).then(|| elem.clone())", "(entry.f > min_freq).then(|| elem.clone())"), "R09-query", "query", base="benign/B53/patch.diff")
M("C13", "v49-next-slot-wraps-early", (QF, "        *slot = if *slot == self.is_occupied.len() - 1 {", "        *slot = if *slot == self.is_occupied.len() - 2 {"), "R13-scan", "scan", base="benign/B49/patch.diff")

# ======================================================================================= rounds 11/12 additions (slip refactorings)
M("C20", "deser-b-range-exclusive", (HLLS, "!(4..=18).contains(&b)", "!(4..18).contains(&b)"), "R20-accepts-valid", "visit_map")
M("C18", "gap-draw-includes-one", (RS, "let u = 1f64 - self.rng.gen_range((0.)..1.); // (0.0, 1.0]", "let u = 1f64 - self.rng.gen_range((0.)..=1.);"), "R18-no-panic", "")
M("C18", "gap-draw-bare-half-open", (RS, "let u = 1f64 - self.rng.gen_range((0.)..1.); // (0.0, 1.0]", "let u: f64 = self.rng.gen_range((0.)..1.);"), "R18-no-panic", "ln-of-draw")
M("C16", "v77-take-without-draining-backlog", (TD, "        sorted.append(&mut self.backlog);", "        sorted.extend(self.backlog.iter().cloned());"), "R16-conservation", "merge", base="benign/B77/patch.diff")
M("C04", "v77-sort-by-count", (TD, "sorted.sort_by(|c1, c2| c1.mean().partial_cmp(&c2.mean()).unwrap());", "sorted.sort_by(|c1, c2| c1.count.partial_cmp(&c2.count).unwrap());"), "R04-sorted-input", "merge", base="benign/B77/patch.diff")
M("C08", "v75-clear-transposes", (CMS, "Self::with_params_and_hasher(self.w, self.d, self.buildhasher().clone())", "Self::with_params_and_hasher(self.d, self.w, self.buildhasher().clone())"), "R19-clear-keeps-config", "", base="benign/B75/patch.diff")
M("C02", "v75-option-min-reseeded", (CMS, "                Some(seen) => Some(seen.min(current)),", "                Some(_seen) => Some(current),"), "R02-return-min", "add_n", base="benign/B75/patch.diff")
M("C12", "v68-snapshot-copies-wrong-bitset", (QF, "is_shifted: self.is_shifted.clone(),", "is_shifted: self.is_continuation.clone(),"), "R12-restore", "union", base="benign/B68/patch.diff")
M("C12", "v70-map-err-without-restore", (CF, "        self.insert_internal(f, i1, i2, &mut log).map_err(|err| {\n            self.restore_state(&log);\n            err\n        })", "        self.insert_internal(f, i1, i2, &mut log).map_err(|err| {\n            if log.len() > 1 {\n                self.restore_state(&log);\n            }\n            err\n        })"), "R12-restore", "insert", base="benign/B68/patch.diff")
M("C06", "v64-offset-range-short", (QF, "(1..=ring_mask)", "(1..ring_mask)"), "R06-quotient-transfer", "union", base="benign/B64/patch.diff")
M("C10", "v67-displaced-entry-count-one", (CH, "            estimate\n        };", "            1\n        };"), "R10-paired", "add", base="benign/B67/patch.diff")
M("C13", "v69-ordering-arms-swapped", (QF, "                    Ordering::Greater => break,\n                    Ordering::Less => {}", "                    Ordering::Less => break,\n                    Ordering::Greater => {}"), "R13-scan", "scan", base="benign/B69/patch.diff")
M("C05", "v63-get-mut-wrong-slot", (RS, "if let Some(slot) = self.reservoir.get_mut(j) {", "if let Some(slot) = self.reservoir.get_mut(j / 2) {"), "R05-accept-range", "add", base="benign/B63/patch.diff")

# ======================================================================================= perf round (B79..B84) additions
M("C13", "v79-masked-incr-steps-two", (QF, "*pos = (*pos + 1) & (self.is_occupied.len() - 1);", "*pos = (*pos + 2) & (self.is_occupied.len() - 1);"), "R13-ring", "", base="benign/B79/patch.diff")
M("C13", "v79-mask-one-bit-short", (QF, "let remainder = fingerprint_clean & ((1u64 << bits_remainder) - 1);", "let remainder = fingerprint_clean & ((1u64 << (bits_remainder - 1)) - 1);"), "R13-split", "", base="benign/B79/patch.diff")
M("C13", "v79-clean-mask-inverted-test", (QF, "let fingerprint_clean = if bits_used < 64 {", "let fingerprint_clean = if bits_used >= 64 {"), "R13-split", "", base="benign/B79/patch.diff")
M("C19", "v79-clear-skips-first-block", (QF, "for block in 0..self.remainders.block_len() {", "for block in 1..self.remainders.block_len() {"), "R19-clear-covers-state", "remainders", base="benign/B79/patch.diff")
M("C10", "v83-pop-first-without-map-remove", (CH, "                        self.obj2count.remove(&min.obj);\n", "                        let _ = &min;\n"), "R10-paired", "add", base="benign/B83/patch.diff")
M("C02", "v84-slice-cell-other-row", (CMS, "let cell = &mut table[i * w + pos];", "let cell = &mut table[i + w * pos];"), "R02-cell-agreement", "add_n", base="benign/B84/patch.diff")
M("C11", "v84-blocks-shift-off", (HP, "trailing_zeros()", "trailing_zeros() + 1"), "R11-dimension", "", base="benign/B84/patch.diff")
M("C15", "v82-prev-not-updated", (TD, "            c_last = c;\n", ""), "shape-unrecognised", "quantile", base="benign/B82/patch.diff")

# ---- on top of the performance twins that became analysable (B92..B94) and the hoisted skip-window test
M("C17", "v93-rank-cap-off-by-one", (HLL, "min(64 - self.b as u32)", "min(63 - self.b as u32)"), "R17-index-rank", "add_hashed:p", base="benign/B93/patch.diff")
M("C17", "v93-clear-halves-registers", (HLL, "self.registers.fill(0);", "self.registers = vec![0; self.registers.len() / 2];"), "R17-index-rank", "add_hashed:j", base="benign/B93/patch.diff")
M("C17", "v93-ctor-admits-short-vector", (HLL, "            m == len,", "            m >= len,"), "R17-index-rank", "add_hashed:j", base="benign/B93/patch.diff")
M("C11", "v92-clear-doubles-table", (CF, "all_zero_intvector(self.l_fingerprint, self.table.len() as usize)", "all_zero_intvector(self.l_fingerprint, self.table.len() as usize * 2)"), "R11-alloc-terms", "", base="benign/B92/patch.diff")
_HOIST_OLD = "        let t = self.k * 4; // TODO: make this a parameter\n\n        if self.i < self.k {"
_HOIST_NEW = "        let t = self.k * 4; // TODO: make this a parameter\n\n        if self.i < self.skip_until {\n            self.i += 1;\n            return;\n        }\n\n        if self.i < self.k {"
B("C05", "skip-window-test-hoisted", (RS, _HOIST_OLD, _HOIST_NEW))
B("C18", "skip-window-test-hoisted", (RS, _HOIST_OLD, _HOIST_NEW))
M("C05", "skip-window-hoisted-clear-keeps-window", [(RS, _HOIST_OLD, _HOIST_NEW), (RS, "        self.i = 0;\n        self.skip_until = 0;\n", "        self.i = 0;\n")], "R05-phases", "add")
M("C18", "skip-window-hoisted-gap-set-while-filling", [(RS, _HOIST_OLD, _HOIST_NEW), (RS, "            // initial fill-up\n            self.reservoir.push(obj)", "            // initial fill-up\n            self.skip_until = self.i + 2;\n            self.reservoir.push(obj)")], "R18-length", "add")
M("C05", "gap-draw-ceil-instead-of-floor", (RS, "            let g = (u.ln() / (1. - p).ln()).floor() as usize;", "            let g = (u.ln() / (1. - p).ln()).ceil() as usize;"), "R05-gap-term", "gap-draw")
B("C05", "gap-draw-floor-by-cast", (RS, "            let g = (u.ln() / (1. - p).ln()).floor() as usize;", "            let g = (u.ln() / (1. - p).ln()) as usize;"))

# ---- new public entry points (who-may-write rule): direct writers fire, compositions of reviewed public operations stay silent
_CF_A = "    /// Remove element from the filter.\n    ///\n    /// Returns `true` if element was in the filter"
_LC_A = "    /// Clear state of the counter.\n    pub fn clear(&mut self) {"
_RS_A = "    /// Checks if reservoir is empty (i.e. no data points where observed)\n    pub fn is_empty(&self) -> bool {"
_QF_A = "    /// Number of bits used for addressing slots.\n"
M("C14", "new-api-reset-len", (CF, _CF_A, "    /// Forget how many elements are stored.\n    pub fn reset_len(&mut self) {\n        self.n_elements = 0;\n    }\n\n" + _CF_A), "R14-new-writers", "reset_len")
M("C12", "new-api-insert-unlogged", (CF, _CF_A, "    /// Insert without rollback.\n    pub fn insert_unlogged(&mut self, t: &T) -> Result<bool, CuckooFilterFull> {\n        let (f, i1, i2) = self.start(t);\n        let mut log = Vec::new();\n        self.insert_internal(f, i1, i2, &mut log)\n    }\n\n" + _CF_A), "R12-new-writers", "insert_unlogged")
B("C14", "new-api-insert-twice-by-public-calls", (CF, _CF_A, "    /// Insert the element two times.\n    pub fn insert_twice(&mut self, t: &T) -> Result<bool, CuckooFilterFull> {\n        self.insert(t)?;\n        self.insert(t)\n    }\n\n" + _CF_A))
B("C12", "new-api-insert-twice-by-public-calls", (CF, _CF_A, "    /// Insert the element two times.\n    pub fn insert_twice(&mut self, t: &T) -> Result<bool, CuckooFilterFull> {\n        self.insert(t)?;\n        self.insert(t)\n    }\n\n" + _CF_A))
B("C01", "new-api-replace-rng", (CF, _CF_A, "    /// Swap the random number generator.\n    pub fn replace_rng(&mut self, rng: R) -> R {\n        std::mem::replace(&mut self.rng, rng)\n    }\n\n" + _CF_A))
M("C13", "new-api-wipe-slot", (QF, _QF_A, "    /// Mark a slot as unused.\n    pub fn wipe_slot(&mut self, pos: usize) {\n        self.is_occupied.set(pos, false);\n    }\n\n" + _QF_A), "R13-new-writers", "wipe_slot")
M("C09", "new-api-skip", (LC, _LC_A, "    /// Account for `count` unseen data points.\n    pub fn skip(&mut self, count: usize) {\n        self.n += count;\n    }\n\n" + _LC_A), "R09-new-writers", "skip")
B("C09", "new-api-add-pair-by-public-calls", (LC, _LC_A, "    /// Add two elements.\n    pub fn add_pair(&mut self, a: T, b: T) -> bool {\n        let x = self.add(a);\n        let y = self.add(b);\n        x && y\n    }\n\n" + _LC_A))
M("C18", "new-api-reservoir-mut", (RS, _RS_A, "    /// Mutable access to the sample.\n    pub fn reservoir_mut(&mut self) -> &mut Vec<T> {\n        &mut self.reservoir\n    }\n\n" + _RS_A), "R18-new-writers", "reservoir_mut")
B("C05", "new-api-replace-rng", (RS, _RS_A, "    /// Swap the random number generator.\n    pub fn replace_rng(&mut self, rng: R) -> R {\n        std::mem::replace(&mut self.rng, rng)\n    }\n\n" + _RS_A))
B("C18", "new-api-add-all-by-public-calls", (RS, _RS_A, "    /// Observe all data points of a vector.\n    pub fn add_all(&mut self, objs: Vec<T>) {\n        for obj in objs {\n            self.add(obj);\n        }\n    }\n\n" + _RS_A))

# ---- clauses added after the hardening round (round 15)
_WALK_OLD = "                while (j != i) && other.is_shifted[j] {"
_WALK_TAIL_OLD = "                        return Err(err);\n                    }\n\n                    self.incr(&mut j)\n                }"
_WALK_TAIL_NEW = "                        return Err(err);\n                    }\n\n                    copied += 1;\n                    self.incr(&mut j)\n                }"
M("C01", "qf-union-walk-capped-one-short", [(QF, _WALK_OLD, "                let cap = other.is_occupied.len() - 1;\n                let mut copied = 1usize;\n                while (copied < cap) && (j != i) && other.is_shifted[j] {"), (QF, _WALK_TAIL_OLD, _WALK_TAIL_NEW)], "R06-quotient-transfer", "union")
B("C01", "qf-union-walk-capped-at-len", [(QF, _WALK_OLD, "                let cap = other.is_occupied.len();\n                let mut copied = 1usize;\n                while (copied < cap) && (j != i) && other.is_shifted[j] {"), (QF, _WALK_TAIL_OLD, _WALK_TAIL_NEW)])
B("C06", "qf-union-walk-capped-at-len", [(QF, _WALK_OLD, "                let cap = other.is_occupied.len();\n                let mut copied = 1usize;\n                while (copied < cap) && (j != i) && other.is_shifted[j] {"), (QF, _WALK_TAIL_OLD, _WALK_TAIL_NEW)])
_RS_OLD = "        for (pos, data) in log.iter().rev().cloned() {\n            self.table.set(pos as u64, data);\n        }"
M("C12", "restore-state-writes-each-slot-once-newest-first", (CF, _RS_OLD, "        let mut done: Vec<usize> = Vec::new();\n        for (pos, data) in log.iter().rev().cloned() {\n            if done.contains(&pos) {\n                continue;\n            }\n            self.table.set(pos as u64, data);\n            done.push(pos);\n        }"), "R12-replay-helper", "restore_state")
M("C14", "restore-state-writes-each-slot-once-newest-first", (CF, _RS_OLD, "        let mut done: Vec<usize> = Vec::new();\n        for (pos, data) in log.iter().rev().cloned() {\n            if done.contains(&pos) {\n                continue;\n            }\n            self.table.set(pos as u64, data);\n            done.push(pos);\n        }"), "R12-replay-helper", "restore_state")
B("C12", "restore-state-bounds-guard", (CF, _RS_OLD, "        let len = self.table.len();\n        for (pos, data) in log.iter().rev().cloned() {\n            if (pos as u64) < len {\n                self.table.set(pos as u64, data);\n            }\n        }"))
M("C15", "quantile-left-tail-single-sample-shortcut", (TD, "        if limit <= c_first.count * 0.5 {\n            let t = limit / (0.5 * c_first.count);", "        if limit <= c_first.count * 0.5 {\n            if c_first.count <= 1. {\n                return c_first.mean();\n            }\n            let t = limit / (0.5 * c_first.count);"), "R15-knots", "returns")
M("C19", "lossy-clear-returns-early-when-table-empty", (LC, "    pub fn clear(&mut self) {\n        self.known = HashMap::new();", "    pub fn clear(&mut self) {\n        if self.known.is_empty() {\n            return;\n        }\n        self.known = HashMap::new();"), "R19-clear-covers-state", "n")
B("C19", "lossy-clear-returns-early-when-fresh", (LC, "    pub fn clear(&mut self) {\n        self.known = HashMap::new();", "    pub fn clear(&mut self) {\n        if self.known.is_empty() && self.n == 0 {\n            return;\n        }\n        self.known = HashMap::new();"))
B("C16", "n-samples-saturating", (TD, "self.n_samples += 1;", "self.n_samples = self.n_samples.saturating_add(1);"))

_BF_A = "    /// Get `k` (number of hash functions).\n"
B("C01", "new-api-bloom-set-positions-directly", (BF, _BF_A, "    /// Mark the given bit positions.\n    pub fn mark(&mut self, positions: &[usize]) {\n        for pos in positions {\n            self.bs.put(*pos % self.bs.len());\n        }\n    }\n\n" + _BF_A))
M("C01", "new-api-bloom-clear-a-bit", (BF, _BF_A, "    /// Unmark the given bit position.\n    pub fn unmark(&mut self, pos: usize) {\n        self.bs.set(pos % self.bs.len(), false);\n    }\n\n" + _BF_A), "R01-new-writers", "unmark")

# ---- closing mutant round (round 17): the one miss
M("C11", "qf-clear-allocates-blocks-for-elements", (QF, "            IntVector::with_fill(self.remainders.element_bits(), self.remainders.len(), 0);", "            IntVector::block_with_fill(self.remainders.element_bits(), self.remainders.len() as usize, 0);"), "R11-alloc-terms", "clear:remainders")


def main():
    out = os.path.join(os.path.dirname(os.path.abspath(__file__)), "corpus.json")
    names = [s["name"] + "|" + s["property"] for s in SPECS]
    assert len(set(names)) == len(names), "duplicate spec names"
    with open(out, "w") as f:
        json.dump(SPECS, f, indent=1)
    print("%d specs (%d mutants, %d benign)" % (len(SPECS), sum(s["kind"] == "mutant" for s in SPECS), sum(s["kind"] == "benign" for s in SPECS)))


main()
