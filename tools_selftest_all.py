#!/usr/bin/env python3
"""run the self-test corpus for all (or given) properties and print a summary"""
import sys, os, importlib
VERIF = os.path.dirname(os.path.abspath(__file__))
sys.path.insert(0, os.path.join(VERIF, "engine"))
import importlib.util, importlib.machinery
spec = importlib.util.spec_from_loader("check", importlib.machinery.SourceFileLoader("check", os.path.join(VERIF, "check")))
chk = importlib.util.module_from_spec(spec); spec.loader.exec_module(chk)
from pdsa import selftest as st
from pdsa.framework import load_known
props = sys.argv[1:] or sorted({s["property"] for s in st.load_corpus()})
known = {k["key"] for k in load_known() if k.get("status") == "open"}
tot = {"fired": 0, "mutants": 0, "silent": 0, "benign": 0, "skipped": 0}
for p in props:
    r = st.run(p, "/repo", None, known_keys=known)
    print("%s: mutants %d/%d fired, benign %d/%d silent, %d skipped" % (p, r["mutants_fired"], r["mutants"], r["benign_silent"], r["benign"], r["skipped"]))
    for x in r["results"]:
        if x["status"] in ("MISSED", "FALSE-ALARM", "skipped"):
            print("    %-12s %s %s" % (x["status"], x["name"], str(x.get("got") or x.get("why"))[:400]))
    tot["fired"] += r["mutants_fired"]; tot["mutants"] += r["mutants"]; tot["silent"] += r["benign_silent"]; tot["benign"] += r["benign"]; tot["skipped"] += r["skipped"]
print(tot)
